package props

import (
	"fmt"
	"go/token"
	"sort"
	"strings"

	"golang.org/x/tools/go/ssa"

	. "verif/sa/core"
)

func init() {
	Register(&Property{
		ID:    "C59",
		Floor: 72,
		Clauses: "websocket hybi framing: the writer's length-encoding case table (len<=125 inline | len<=65535 marker 126 + 2 bytes | else marker 127 + 8 bytes) and the reader's (7-bit value <=125 | ==126 -> 2 | ==127 -> 8) agree; " +
			"extended length bytes are emitted most-significant first ((len >> 8*(n-i-1)) & 0xff for i<n) and read back as Length*256+b for i<n; mask bit 0x80 is set exactly when a masking key is present and the reader reads four key bytes exactly when it is set; " +
			"FIN/opcode bit positions of byte 0 agree; the masked writer rejects keys of length != 4 before writing, writes header then msg[i]^key[i%4] (never the clear payload), the unmasked writer writes header then payload, Flush follows; the frame reader unmasks with key[pos%4], pos advancing per byte, over a LimitReader of Length; " +
			"HandleFrame: server conn and unmasked frame, or client conn and masked frame => WriteClose and an error before any processing; PING is answered by WritePong(b[:n]) with the bytes read, and control frames are drained before the next frame; continuation frames take the remembered payload type; " +
			"Codec.Receive drains and clears a left-over frame before reading the next header, compares Length with MaxPayloadBytes (default when zero), on excess stores the frame for draining before ErrFrameTooLarge and never reads or unmarshals it, otherwise unmarshals ReadAll(frame) with the frame's payload type; " +
			"Codec.Send frames Marshal's data with Marshal's payload type; client connections (request == nil) get needMaskingKey, NewFrameWriter then always installs a fresh 4-byte random key or fails, and never installs one otherwise; ownership of MaskingKey/needMaskingKey/request.",
		NotCovered: "byte-for-byte equality of received and sent messages at run time; fragmentation reassembly by Conn.Read; bufio/io.LimitReader/io.ReadAll behaviour; int overflow of Length (63-bit) into int; concurrency of readers and writers; handshake.",
		Run:        c59,
	})
}

func c59(c *Ctx) {
	const W = "(*websocket.hybiFrameWriter).Write"
	const R = "(websocket.hybiFrameReaderFactory).NewFrameReader"
	const H = "(*websocket.hybiFrameHandler).HandleFrame"
	const Rc = "(websocket.Codec).Receive"
	const hdr = "websocket.hybiFrameHeader"
	const bw = "(*bufio.Writer).Write"

	// lengthPhi finds the phi whose edges are exactly the constants {0,2,8}.
	lengthPhi := func(fn *ssa.Function) *ssa.Phi {
		for _, ph := range Phis(fn) {
			set := map[int64]bool{}
			ok := true
			for _, e := range ph.Edges {
				k, isC := ConstInt64(e)
				if _, isConst := e.(*ssa.Const); !isC || !isConst {
					ok = false
					break
				}
				set[k] = true
			}
			if ok && len(set) == 3 && set[0] && set[2] && set[8] {
				return ph
			}
		}
		return nil
	}
	caseTable := func(fn *ssa.Function, ph *ssa.Phi, specs map[int64][][]string) (bool, string) {
		// every edge with value k must carry all atoms of one of specs[k]
		for _, pc := range PhiCases(ph) {
			k, _ := ConstInt64(pc.Val)
			alts := specs[k]
			matched := false
			for _, alt := range alts {
				all := true
				for _, s := range alt {
					if !c.P.HasFact(pc.Facts, s) {
						all = false
					}
				}
				if all {
					matched = true
				}
			}
			if !matched {
				var fs []string
				for _, f := range pc.Facts {
					fs = append(fs, f.String())
				}
				return false, fmt.Sprintf("edge with %d extended length bytes is taken under {%s}", k, strings.Join(fs, " ; "))
			}
		}
		return true, ""
	}

	wfn, rfn := c.MustFn(W), c.MustFn(R)
	if wfn == nil || rfn == nil {
		return
	}

	// ---- writer case table ----
	wlf := lengthPhi(wfn)
	if c.Check(wlf != nil, "case-table", W+": extended-length byte count takes the values {0,2,8}", wfn.Pos(), "", "no phi with constant edges {0,2,8}") {
		ok, why := caseTable(wfn, wlf, map[int64][][]string{
			0: {{"len($0) <= 125"}},
			2: {{"len($0) > 125", "len($0) < 65536"}},
			8: {{"len($0) > 125", "len($0) >= 65536"}},
		})
		c.Check(ok, "case-table", W+": 0 bytes iff len<=125, 2 iff 126..65535, 8 iff >=65536", wfn.Pos(), "", why)
		// marker byte phi in the same block, paired by predecessor
		var mk *ssa.Phi
		for _, ph := range Phis(wfn) {
			if ph.Block() == wlf.Block() && ph != wlf {
				mk = ph
			}
		}
		okM := mk != nil
		whyM := "no second phi (marker byte) joins the same cases"
		if mk != nil {
			for i, e := range mk.Edges {
				k, _ := ConstInt64(wlf.Edges[i])
				bo, isBin := StripConv(e).(*ssa.BinOp)
				if !isBin || bo.Op != token.OR {
					okM, whyM = false, "marker byte is not maskbit|x: "+Term(e)
					continue
				}
				x, y := StripConv(bo.X), StripConv(bo.Y)
				isMaskBit := func(v ssa.Value) bool {
					ph, ok := v.(*ssa.Phi)
					if !ok {
						return false
					}
					for _, pe := range ph.Edges {
						if kk, isC := ConstInt64(pe); !isC || kk != 0 && kk != 128 {
							return false
						}
					}
					return true
				}
				if isMaskBit(y) {
					x, y = y, x
				}
				if !isMaskBit(x) {
					okM, whyM = false, "marker byte is not maskbit|x: "+Term(e)
					continue
				}
				switch k {
				case 0:
					if Term(y) != "len($0)" {
						okM, whyM = false, "inline length case emits "+Term(y)
					}
				case 2, 8:
					want := map[int64]int64{2: 126, 8: 127}[k]
					if kk, isC := ConstInt64(y); !isC || kk != want {
						okM, whyM = false, fmt.Sprintf("case with %d length bytes emits marker %s, want %d", k, Term(y), want)
					}
				}
			}
		}
		c.Check(okM, "case-table", W+": second byte = maskbit | (len | 126 | 127) matching the 0/2/8 cases", wfn.Pos(), "", whyM)
		// mask bit
		okB := false
		whyB := "no 0/128 phi"
		for _, ph := range Phis(wfn) {
			vals := map[int64]bool{}
			all := true
			for _, e := range ph.Edges {
				k, isC := ConstInt64(e)
				if _, isConst := e.(*ssa.Const); !isC || !isConst {
					all = false
				}
				vals[k] = true
			}
			if !all || len(vals) != 2 || !vals[0] || !vals[128] || ph.Block().Dominates(wlf.Block()) == false {
				continue
			}
			// this is the mask-bit phi only if it is decided by MaskingKey
			dec := true
			for _, pc := range PhiCases(ph) {
				k, _ := ConstInt64(pc.Val)
				spec := "$r.header.MaskingKey == nil"
				if k == 128 {
					spec = "$r.header.MaskingKey != nil"
				}
				if !c.P.HasFact(pc.Facts, spec) {
					dec = false
				}
			}
			if dec {
				okB = true
			} else if !okB {
				whyB = "a 0/128 phi exists but is not decided by MaskingKey != nil"
			}
		}
		c.Check(okB, "case-table", W+": mask bit 0x80 set iff header.MaskingKey != nil", wfn.Pos(), "", whyB)
	}

	// counter finds the counter phi (from 0 step 1) named by term.
	counterByTerm := func(fn *ssa.Function) map[string]*ssa.Phi {
		out := map[string]*ssa.Phi{}
		for _, ph := range Phis(fn) {
			if s, ok := IsCounterPhi(ph); ok && s == 0 {
				out[Term(ph)] = ph
			}
		}
		return out
	}

	// ---- writer: big-endian extended length bytes ----
	if wlf != nil {
		ok := false
		why := "no appended byte of the form (len >> 8*(n-i-1)) & 0xff under i < n"
		cnt := counterByTerm(wfn)
		for _, in := range Calls("builtin:append").F(c.P, wfn) {
			es, isVar := VarArgElems(BaselineArgs(&in.(*ssa.Call).Call)[1])
			if !isVar || len(es) != 1 {
				continue
			}
			and, isBin := StripConv(es[0]).(*ssa.BinOp)
			if !isBin || and.Op != token.AND {
				continue
			}
			if k, isC := ConstInt64(and.Y); !isC || k != 255 {
				continue
			}
			shr, isBin := StripConv(and.X).(*ssa.BinOp)
			if !isBin || shr.Op != token.SHR || Term(shr.X) != "len($0)" {
				continue
			}
			lin := Linearize(shr.Y)
			lf := Term(wlf)
			var ctr string
			for t, co := range lin.Coef {
				if co == -8 {
					ctr = t
				}
			}
			if lin.K != -8 || len(lin.Coef) != 2 || lin.Coef[lf] != 8 || cnt[ctr] == nil {
				why = "shift amount is " + lin.String() + ", want 8*n - 8*i - 8 with i a counter from 0"
				continue
			}
			var fs []Atom
			for _, f := range FactsAtInstr(in) {
				fs = append(fs, f.Atom)
			}
			if !c.P.HasFact(fs, ctr+" < "+lf) {
				why = "the append is not under " + ctr + " < " + lf
				continue
			}
			ok = true
		}
		c.Check(ok, "codec-layout", W+": extended length emitted most-significant byte first for i in [0,n)", wfn.Pos(), "", why)
	}

	// ---- reader case table ----
	const b7 = "(ReadByte($r.Reader)#0&127)"
	rlf := lengthPhi(rfn)
	if c.Check(rlf != nil, "case-table", R+": extended-length byte count takes the values {0,2,8}", rfn.Pos(), "", "no phi with constant edges {0,2,8}") {
		ok, why := caseTable(rfn, rlf, map[int64][][]string{
			0: {{b7 + " <= 125"}, {b7 + " != 126", b7 + " != 127"}},
			2: {{b7 + " == 126"}},
			8: {{b7 + " == 127"}},
		})
		c.Check(ok, "case-table", R+": 0 bytes iff 7-bit value <=125, 2 iff ==126, 8 iff ==127", rfn.Pos(), "", why)
		c.Guard(R, Stores(hdr+".Length").StoredIs(b7), b7+" <= 125")
		// accumulate: Length = Length*256 + b under i < n
		okAcc := false
		whyAcc := "no store Length = Length*256 + byte"
		cnt := counterByTerm(rfn)
		for _, in := range Stores(hdr+".Length").F(c.P, rfn) {
			st := in.(*ssa.Store)
			lin := Linearize(st.Val)
			if len(lin.Coef) != 2 || lin.K != 0 {
				continue
			}
			has256, has1 := false, false
			for t, co := range lin.Coef {
				if co == 256 && strings.HasSuffix(t, ".header.Length") {
					has256 = true
				}
				if co == 1 {
					has1 = true
				}
			}
			if !has256 || !has1 || !DependsOn(st.Val, IsCallTo("(*bufio.Reader).ReadByte")) {
				whyAcc = "accumulating store is " + lin.String()
				continue
			}
			var fs []Atom
			for _, f := range FactsAtInstr(in) {
				fs = append(fs, f.Atom)
			}
			under := false
			for t := range cnt {
				if c.P.HasFact(fs, t+" < "+Term(rlf)) {
					under = true
				}
			}
			if !under {
				whyAcc = "the accumulating store is not under i < n for a counter i from 0"
				continue
			}
			okAcc = true
		}
		c.Check(okAcc, "codec-layout", R+": extended length read as Length*256 + b for i in [0,n)", rfn.Pos(), "", whyAcc)
	}
	// masking key: 4 bytes iff bit 0x80
	mkStores := Stores(hdr + ".MaskingKey")
	c.Guard(R, mkStores, "(ReadByte($r.Reader)#0&128) != 0")
	{
		ok := false
		cnt := counterByTerm(rfn)
		for _, in := range mkStores.F(c.P, rfn) {
			var fs []Atom
			for _, f := range FactsAtInstr(in) {
				fs = append(fs, f.Atom)
			}
			for t := range cnt {
				if c.P.HasFact(fs, t+" < 4") {
					ok = true
				}
			}
		}
		c.Check(ok, "codec-layout", R+": masking key bytes appended for i in [0,4)", rfn.Pos(), "", "the MaskingKey append is not under i < 4 for a counter i from 0")
		c.StoredFrom(R, mkStores, "a byte read from the connection", IsCallTo("(*bufio.Reader).ReadByte"))
	}
	// FIN / opcode positions
	shape := func(v ssa.Value) string {
		// renders (x>>k)&m != 0 / x&m shapes without naming x
		v = StripConv(v)
		if bo, ok := v.(*ssa.BinOp); ok {
			switch bo.Op {
			case token.NEQ:
				if k, isC := ConstInt64(bo.Y); isC && k == 0 {
					if and, ok := StripConv(bo.X).(*ssa.BinOp); ok && and.Op == token.AND {
						m, _ := ConstInt64(and.Y)
						if sh, ok := StripConv(and.X).(*ssa.BinOp); ok && sh.Op == token.SHR {
							s, _ := ConstInt64(sh.Y)
							return fmt.Sprintf("(x>>%d)&%d!=0", s, m)
						}
					}
				}
			case token.AND:
				m, _ := ConstInt64(bo.Y)
				return fmt.Sprintf("x&%d", m)
			}
		}
		return Term(v)
	}
	c.Has(R, Stores(hdr+".Fin").Where("= (b0>>7)&1 != 0", func(in ssa.Instruction) bool { return shape(in.(*ssa.Store).Val) == "(x>>7)&1!=0" }))
	c.Has(R, Stores(hdr+".OpCode").Where("= b0 & 0x0f", func(in ssa.Instruction) bool { return shape(in.(*ssa.Store).Val) == "x&15" }))
	c.Has(R, Calls("io.LimitReader").ArgIs(0, "$r.Reader").Where("limited to header.Length", func(in ssa.Instruction) bool {
		return LoadedField(StripConv(BaselineArgs(&in.(*ssa.Call).Call)[1])) == hdr+".Length"
	}))
	{
		// first header byte of the writer depends on Fin and OpCode; FIN contributes 0x80
		first := false
		for _, in := range Calls("builtin:append").F(c.P, wfn) {
			call := in.(*ssa.Call)
			if k, isC := BaselineArgs(&call.Call)[0].(*ssa.Const); !isC || k.Value != nil {
				continue
			}
			if es, ok := VarArgElems(BaselineArgs(&call.Call)[1]); ok && len(es) == 1 {
				if bo, ok := StripConv(es[0]).(*ssa.BinOp); ok && bo.Op == token.OR && LoadedField(StripConv(bo.Y)) == hdr+".OpCode" {
					first = true
				}
			}
		}
		c.Check(first, "codec-layout", W+": first header byte = flag bits | header.OpCode", wfn.Pos(), "", "the first appended byte is not bits|OpCode")
		finOK := false
		for _, ph := range Phis(wfn) {
			for _, pc := range PhiCases(ph) {
				k, isC := ConstInt64(pc.Val)
				if bo, isBin := pc.Val.(*ssa.BinOp); isBin && bo.Op == token.OR {
					a, ok1 := ConstInt64(bo.X)
					b, ok2 := ConstInt64(bo.Y)
					k, isC = a|b, ok1 && ok2
				}
				if isC && k == 128 && c.P.HasFact(pc.Facts, "$r.header.Fin") {
					finOK = true
				}
			}
		}
		c.Check(finOK, "codec-layout", W+": FIN contributes 0x80 to the first byte", wfn.Pos(), "", "no value 128 selected under header.Fin")
	}

	// ---- writer: masking and write order ----
	hdrWrite := Calls(bw).Where("of the header", func(in ssa.Instruction) bool {
		return DependsOn(BaselineArgs(&in.(*ssa.Call).Call)[1], IsCallTo("builtin:append"))
	})
	plain := Calls(bw).ArgIs(1, "$0")
	masked := Calls(bw).ArgIs(1, "make(len($0))")
	c.Guard(W, plain, "$r.header.MaskingKey == nil")
	c.Guard(W, masked, "$r.header.MaskingKey != nil", "len($r.header.MaskingKey) == 4")
	c.Reject(W, c.UnderFact(Calls(bw), "$r.header.MaskingKey != nil", true), "$r.header.MaskingKey != nil", "len($r.header.MaskingKey) != 4")
	c.Before(W, hdrWrite, Union(plain, masked))
	c.Before(W, Union(plain, masked), Calls("(*bufio.Writer).Flush"))
	c.Has(W, hdrWrite.Where("ending with the masking key", func(in ssa.Instruction) bool {
		for _, s := range AppendSeqs(BaselineArgs(&in.(*ssa.Call).Call)[1]) {
			if !strings.HasSuffix(s, " ...$r.header.MaskingKey") {
				return false
			}
		}
		return true
	}))
	xorOK := func(fn *ssa.Function, bufTerm, keyTerm string, sameIndex bool) (bool, string) {
		why := "no store buf[i] = src[i] ^ key[j%4]"
		ok := false
		eachStore := StoresWhere("xor", func(st *ssa.Store) bool {
			ia, isIdx := st.Addr.(*ssa.IndexAddr)
			if !isIdx {
				return false
			}
			x, isBin := StripConv(st.Val).(*ssa.BinOp)
			if !isBin || x.Op != token.XOR {
				return false
			}
			ld := func(v ssa.Value) *ssa.IndexAddr {
				u, ok := StripConv(v).(*ssa.UnOp)
				if !ok || u.Op != token.MUL {
					return nil
				}
				a, _ := u.X.(*ssa.IndexAddr)
				return a
			}
			src, key := ld(x.X), ld(x.Y)
			if src == nil || key == nil {
				return false
			}
			if Term(key.X) != keyTerm {
				src, key = key, src
			}
			if Term(key.X) != keyTerm || Term(src.X) != "$0" || Term(ia.X) != bufTerm {
				why = fmt.Sprintf("xor store uses buf=%s src=%s key=%s", Term(ia.X), Term(src.X), Term(key.X))
				return false
			}
			rem, isBin := StripConv(key.Index).(*ssa.BinOp)
			if !isBin || rem.Op != token.REM {
				why = "key index is not j%4"
				return false
			}
			if k, isC := ConstInt64(rem.Y); !isC || k != 4 {
				why = "key index is not j%4"
				return false
			}
			if src.Index != ia.Index {
				why = "source and destination index differ"
				return false
			}
			if sameIndex && StripConv(rem.X) != StripConv(ia.Index) {
				why = "key index is not the payload index"
				return false
			}
			return true
		})
		if len(eachStore.F(c.P, fn)) == 1 {
			ok = true
		}
		return ok, why
	}
	ok, why := xorOK(wfn, "make(len($0))", "$r.header.MaskingKey", true)
	c.Check(ok, "codec-layout", W+": masked payload data[i] = msg[i] ^ key[i%4]", wfn.Pos(), "", why)
	const RD = "(*websocket.hybiFrameReader).Read"
	if fn := c.MustFn(RD); fn != nil {
		ok, why := xorOK(fn, "$0", "$r.header.MaskingKey", false)
		c.Check(ok, "codec-layout", RD+": unmask msg[i] ^= key[pos%4]", fn.Pos(), "", why)
		c.Guard(RD, Stores("websocket.hybiFrameReader.pos"), "$r.header.MaskingKey != nil")
		c.Has(RD, Stores("websocket.hybiFrameReader.pos").StoredIs("($r.pos+1)"))
		c.Has(RD, InstrsWhere("key index = pos%4", func(in ssa.Instruction) bool {
			bo, ok := in.(*ssa.BinOp)
			return ok && bo.Op == token.REM && LoadedField(StripConv(bo.X)) == "websocket.hybiFrameReader.pos"
		}))
		c.Has(RD, Calls(".Read").RecvIs("$r.reader").ArgIs(0, "$0"))
	}
	c.Has(R, Stores("websocket.hybiFrameReader.reader").Where("= the LimitReader", func(in ssa.Instruction) bool {
		return IsCallTo("io.LimitReader")(StripConv(in.(*ssa.Store).Val))
	}))

	// ---- HandleFrame ----
	const mk = "$0.(*websocket.hybiFrameReader).header.MaskingKey"
	processing := Union(RetOK(), Calls(".PayloadType"), Calls("io.Copy"), Calls("io.ReadFull"))
	c.Reject(H, processing, "IsServerConn($r.conn)", mk+" == nil")
	c.Reject(H, processing, "!IsServerConn($r.conn)", mk+" != nil")
	// both tests sit under the IsServerConn branch and are reachable (not `if false && ...`)
	if fn := c.MustFn(H); fn != nil {
		live := LiveBlocks(fn)
		n := 0
		for _, b := range fn.Blocks {
			if k := len(b.Instrs); k > 0 && live[b] {
				if ifi, ok := b.Instrs[k-1].(*ssa.If); ok && strings.Contains(CondAtom(ifi.Cond).String(), mk) {
					n++
				}
			}
		}
		c.Check(n == 2, "branch-present", H+": the masked/unmasked tests are both on live paths", fn.Pos(), "", fmt.Sprintf("%d live test(s) of the frame's masking key", n))
	}
	wc := "(*websocket.hybiFrameHandler).WriteClose"
	c.CallAfterIncl(H, c.UnderFact(c.Edge(mk+" == nil"), "IsServerConn($r.conn)", true), wc)
	c.CallAfterIncl(H, c.UnderFact(c.Edge(mk+" != nil"), "!IsServerConn($r.conn)", true), wc)
	c.Has("(*websocket.Conn).IsServerConn", Returns().Where("request != nil", func(in ssa.Instruction) bool {
		return Term(in.(*ssa.Return).Results[0]) == "($r.request!=nil)"
	}))
	ping, _ := c.P.ConstInt("websocket.PingFrame")
	pong, _ := c.P.ConstInt("websocket.PongFrame")
	cont, _ := c.P.ConstInt("websocket.ContinuationFrame")
	wp := Calls("(*websocket.hybiFrameHandler).WritePong")
	c.Guard(H, wp, fmt.Sprintf(".PayloadType($0) == %d", ping))
	c.Has(H, wp.Where("with b[:n] of the bytes just read", func(in ssa.Instruction) bool {
		sl, ok := BaselineArgs(&in.(*ssa.Call).Call)[1].(*ssa.Slice)
		if !ok || sl.Low != nil || sl.High == nil {
			return false
		}
		ex, ok := StripConv(sl.High).(*ssa.Extract)
		if !ok || ex.Index != 0 || !IsCallTo("io.ReadFull")(ex.Tuple) {
			return false
		}
		return BaselineArgs(&ex.Tuple.(*ssa.Call).Call)[1] == sl.X
	}))
	c.BetweenVia(H, Calls("io.ReadFull"), RetOK(), Calls("io.Copy").ArgIs(1, "$0"), false)
	c.PassThroughIncl(H, c.Edge(fmt.Sprintf(".PayloadType($0) == %d", ping)).Where("after the control payload was read", func(in ssa.Instruction) bool {
		for _, r := range Calls("io.ReadFull").F(c.P, in.Parent()) {
			if DomBefore(r, in) {
				return true
			}
		}
		return false
	}), wp)
	c.NeverAfter(H, c.Edge("WritePong($r,&%makeslice[:125][:ReadFull($0,&%makeslice[:125])#0])#1 != nil"), RetOK(), true)
	c.Has("(*websocket.hybiFrameHandler).WritePong", Calls(".NewFrameWriter").ArgIs(0, fmt.Sprint(pong)))
	c.Has("(*websocket.hybiFrameHandler).WritePong", Calls(".Write").ArgIs(0, "$0"))
	c.Guard(H, Stores(hdr+".OpCode"), fmt.Sprintf(".PayloadType($0) == %d", cont))
	c.Has(H, Stores(hdr+".OpCode").StoredIs("$r.payloadType"))
	c.Has(H, Stores("websocket.hybiFrameHandler.payloadType").StoredIs(".PayloadType($0)"))
	c.Has("(*websocket.hybiFrameReader).PayloadType", Returns().Where("header.OpCode", func(in ssa.Instruction) bool {
		return Term(in.(*ssa.Return).Results[0]) == "$r.header.OpCode"
	}))

	// ---- Codec.Receive ----
	const frame = ".HandleFrame($0.frameHandler,.NewFrameReader($0.frameReaderFactory)#0)#0"
	const fr = "websocket.Conn.frameReader"
	def, _ := c.P.ConstInt("websocket.DefaultMaxPayloadBytes")
	limit := fmt.Sprintf("φ($0.MaxPayloadBytes|%d)", def)
	over := frame + ".(*websocket.hybiFrameReader)#0.header.Length > " + limit
	nfr := Calls(".NewFrameReader")
	left := c.Edge("$0.frameReader != nil")
	c.BetweenVia(Rc, left, nfr, Calls("io.Copy").ArgIs(0, "io.Discard").ArgIs(1, "$0.frameReader"), true)
	c.BetweenVia(Rc, left, nfr, Stores(fr).StoredIs("nil"), true)
	c.Before(Rc, Calls("io.Copy"), Stores(fr).StoredIs("nil"))
	c.HasBranch(Rc, over)
	big := c.Edge(over)
	c.NeverAfter(Rc, big, Union(Calls("io.ReadAll"), Calls("fieldcall:Unmarshal"), nfr), true)
	c.PassThroughIncl(Rc, big, Stores(fr).StoredIs(frame))
	tooLarge := StoreVal("websocket.ErrFrameTooLarge")
	c.Guard(Rc, tooLarge, over)
	c.Before(Rc, Stores(fr).StoredIs(frame), tooLarge)
	c.PassThroughIncl(Rc, big, tooLarge)
	{
		fn := c.MustFn(Rc)
		ok := false
		if fn != nil {
			for _, ph := range Phis(fn) {
				if Term(ph) != limit {
					continue
				}
				ok = true
				for _, pc := range PhiCases(ph) {
					if k, isC := ConstInt64(pc.Val); isC && k == def {
						if !c.P.HasFact(pc.Facts, "$0.MaxPayloadBytes == 0") {
							ok = false
						}
					} else if c.P.HasFact(pc.Facts, "$0.MaxPayloadBytes == 0") {
						ok = false
					}
				}
			}
			c.Check(ok, "case-table", Rc+": limit = MaxPayloadBytes, or DefaultMaxPayloadBytes exactly when it is zero", fn.Pos(), "", "no phi "+limit+" decided by MaxPayloadBytes == 0")
		}
	}
	c.Has(Rc, Calls("fieldcall:Unmarshal").ArgIs(0, "ReadAll("+frame+")#0").ArgIs(1, ".PayloadType("+frame+")").ArgIs(2, "$1"))
	c.Has(Rc, nfr.RecvIs("$0.frameReaderFactory"))
	c.Has(Rc, Calls(".HandleFrame").RecvIs("$0.frameHandler").ArgIs(0, ".NewFrameReader($0.frameReaderFactory)#0"))
	c.LockBalanced(Rc, []LockOp{{Callee: "(*sync.Mutex).Lock", Kind: "acq"}, {Callee: "(*sync.Mutex).Unlock", Kind: "rel"}})

	// ---- Codec.Send / marshal ----
	const Sd = "(websocket.Codec).Send"
	c.Has(Sd, Calls(".NewFrameWriter").RecvIs("$0.frameWriterFactory").ArgIs(0, "call($r.Marshal)($1)#1"))
	c.Has(Sd, Calls(".Write").ArgIs(0, "call($r.Marshal)($1)#0"))
	text, _ := c.P.ConstInt("websocket.TextFrame")
	bin, _ := c.P.ConstInt("websocket.BinaryFrame")
	c.Has("websocket.marshal", RetOK().Where("string -> TextFrame", func(in ssa.Instruction) bool {
		r := in.(*ssa.Return)
		return Term(r.Results[0]) == "$0.(string)#0" && Term(r.Results[1]) == fmt.Sprint(text)
	}))
	c.Has("websocket.marshal", RetOK().Where("[]byte -> BinaryFrame", func(in ssa.Instruction) bool {
		r := in.(*ssa.Return)
		return Term(r.Results[0]) == "$0.([]byte)#0" && Term(r.Results[1]) == fmt.Sprint(bin)
	}))
	c.Count("websocket.marshal", RetOK(), 2, 2)

	// ---- client writers always mask, server writers never ----
	const NFW = "(websocket.hybiFrameWriterFactory).NewFrameWriter"
	c.Has("websocket.newHybiConn", Stores("websocket.hybiFrameWriterFactory.needMaskingKey").StoredIs("($3==nil)"))
	c.Has("websocket.newHybiConn", Stores("websocket.Conn.request").StoredIs("$3"))
	c.Writers("websocket.hybiFrameWriterFactory.needMaskingKey", "websocket.newHybiConn")
	c.Writers("websocket.Conn.request", "websocket.newHybiConn")
	c.Writers(hdr+".MaskingKey", NFW, R)
	c.Guard(NFW, mkStores, "$r.needMaskingKey")
	c.BetweenVia(NFW, c.Edge("$r.needMaskingKey"), RetOK(), mkStores.StoredIs("generateMaskingKey()#0"), true)
	c.Reject(NFW, RetOK(), "$r.needMaskingKey", "generateMaskingKey()#1 != nil")
	c.Has(NFW, Stores(hdr+".OpCode").StoredIs("$0"))
	c.Has(NFW, Stores(hdr+".Fin").StoredIs("true"))
	c.Has(NFW, Stores("websocket.hybiFrameWriter.writer").StoredIs("$r.Writer"))
	gm := "websocket.generateMaskingKey"
	c.Has(gm, Calls("io.ReadFull").ArgIs(0, "crypto/rand.Reader").ArgIs(1, "&%makeslice[:4]"))
	if fn := c.MustFn(gm); fn != nil {
		okRet := true
		var terms []string
		for _, in := range Returns().F(c.P, fn) {
			r := in.(*ssa.Return)
			terms = append(terms, Term(r.Results[0])+","+Term(r.Results[1]))
			if Term(r.Results[1]) != "ReadFull(crypto/rand.Reader,&%makeslice[:4])#1" {
				okRet = false
			}
		}
		sort.Strings(terms)
		c.Check(okRet, "return-shape", gm+": returns the error of reading the random bytes", fn.Pos(), "", strings.Join(terms, " | "))
	}
}
