package props

import (
	"fmt"
	"go/token"
	"sort"
	"strings"

	. "verif/sa/core"

	"golang.org/x/tools/go/ssa"
)

func init() {
	Register(&Property{
		ID:    "C10",
		Floor: 60,
		Clauses: "inflow.avail/unsent written only by inflow.init/add/take and takeInflows, init/take/add called only from the connection set-up, DATA-processing, body Read/Close and sendWindowUpdate functions; " +
			"inflow.add: negative and >2^31-1 panic guards dominate both stores, the batching return keeps the amount in unsent, the flush return hands back unsent+n and zeroes unsent; take/takeInflows decrement only under their capacity tests; " +
			"server and client DATA processing: after every successful take/takeInflows of connection credit every path to a normal return passes a connection-level refund (sendWindowUpdate(nil,…) / cc.inflow.add), discard paths refund exactly the taken frame length, the body-write-error path refunds length−written, padding is refunded as length−len(data); " +
			"server closeStream refunds pipe.Len() before closing the body pipe; requestBody.Read reports the pipe.Read count through noteBodyReadFromHandler→bodyReadCh→noteBodyRead→sendWindowUpdate(nil,n); " +
			"client transportResponseBody.Read: every path after bufPipe.Read that is not excused by a count==0 / error!=nil branch passes cc.inflow.add with exactly the bufPipe.Read count; Close refunds bufPipe.Len() taken after BreakWithError; " +
			"the result of every inflow.add reaches Framer.WriteWindowUpdate (stream 0 for connection windows) or writeWindowUpdate.n on every path not excused by a result==0 branch; writeWindowUpdate built only in sendWindowUpdate and written with its own n; " +
			"pipe: Write refuses after close/break (so late DATA takes the refund path), Read/dataBuffer.Read return n==0 with every error, unread is accumulated only in closeWithError.",
		NotCovered: "that batched (below inflowMinRefresh) credit is eventually flushed; that WINDOW_UPDATE frames queued on the server are eventually written; arithmetic over histories (sum of refunds == sum of DATA); " +
			"client streams torn down without Close (cleanupWriteRequest closes bufPipe without a refund); client DATA rejected before the flow-control take (after END_STREAM, before HEADERS, on HEAD) is not charged to cc.inflow at all; " +
			"server double accounting when a handler reads bytes that closeStream already refunded; stream-level windows beyond the padding refund.",
		Run: c10,
	})
}

const (
	c10Add        = "(*http2.inflow).add"
	c10Take       = "(*http2.inflow).take"
	c10TakeBoth   = "http2.takeInflows"
	c10Init       = "(*http2.inflow).init"
	c10SWU        = "(*http2.serverConn).sendWindowUpdate"
	c10SWU32      = "(*http2.serverConn).sendWindowUpdate32"
	c10WWU        = "(*http2.Framer).WriteWindowUpdate"
	c10PipeRead   = "(*http2.pipe).Read"
	c10PipeWrite  = "(*http2.pipe).Write"
	c10PipeLen    = "(*http2.pipe).Len"
	c10SrvData    = "(*http2.serverConn).processData"
	c10SrvFrame   = "(*http2.serverConn).processFrame"
	c10CliData    = "(*http2.clientConnReadLoop).processData"
	c10BodyRead   = "(http2.transportResponseBody).Read"
	c10BodyClose  = "(http2.transportResponseBody).Close"
	c10SrvConnFld = "http2.serverConn.inflow"
	c10CliConnFld = "http2.ClientConn.inflow"
)

// only selects exactly the given instructions.
func only(name string, ins ...ssa.Instruction) Sel {
	return Sel{Name: name, F: func(p *Prog, fn *ssa.Function) []ssa.Instruction {
		var out []ssa.Instruction
		for _, in := range ins {
			if in.Parent() == fn {
				out = append(out, in)
			}
		}
		return out
	}}
}

// recvIs keeps calls whose argument i points at the named struct field.
func recvIs(s Sel, i int, field string) Sel {
	return s.Where(fmt.Sprintf("arg%d=&%s", i, field), func(in ssa.Instruction) bool {
		return RecvField(CallArg(in, i)) == field
	})
}

func c10(c *Ctx) {
	// ---- ownership of the counters -------------------------------------
	c.Writers("http2.inflow.avail", c10Init, c10Add, c10Take, c10TakeBoth)
	c.Writers("http2.inflow.unsent", c10Add)
	c.Callers(c10Init, "(*http2.ClientConn).addStreamLocked", "(*http2.Server).serveConn", "(*http2.Transport).newClientConn", "(*http2.serverConn).newStream")
	c.Callers(c10Take, c10CliData, c10SrvData, c10SrvFrame)
	c.Callers(c10TakeBoth, c10CliData, c10SrvData)
	c.Callers(c10Add, c10CliData, c10SWU, c10BodyClose, c10BodyRead)

	// ---- inflow.add / take / takeInflows --------------------------------
	stAvail, stUnsent := Stores("http2.inflow.avail"), Stores("http2.inflow.unsent")
	c.Reject(c10Add, Union(stAvail, stUnsent), "$0 < 0")
	c.Reject(c10Add, Union(stAvail, stUnsent), "$0+$r.avail+$r.unsent > 2147483647")
	c.NeverAfter(c10Add, stAvail, RetConst(0, "0"), false) // the batching return does not advertise
	c.PassThrough(c10Add, stAvail, stUnsent.StoredIs("0")) // advertised credit is no longer pending
	c10Lin(c, c10Add, "value stored to avail", storedVals(c, stAvail), "$r.avail+$r.unsent")
	c10Lin(c, c10Add, "value stored to unsent before the flush test", storedVals(c, stUnsent.Where("non-zero", func(in ssa.Instruction) bool {
		return Term(in.(*ssa.Store).Val) != "0"
	})), "$r.unsent+$0")
	c10Lin(c, c10Add, "non-zero return value", func(fn *ssa.Function) []ssa.Value {
		var out []ssa.Value
		for _, in := range Returns().F(c.P, fn) {
			if r := in.(*ssa.Return); len(r.Results) == 1 && Term(r.Results[0]) != "0" {
				out = append(out, r.Results[0])
			}
		}
		return out
	}, "$r.unsent+$0")
	c.Reject(c10Take, Union(stAvail, RetConst(0, "true")), "$0 > $r.avail")
	c10Lin(c, c10Take, "value stored to avail", storedVals(c, stAvail), "$r.avail-$0")
	c.Reject(c10TakeBoth, Union(stAvail, RetConst(0, "true")), "$2 > $0.avail")
	c.Reject(c10TakeBoth, Union(stAvail, RetConst(0, "true")), "$2 > $1.avail")
	c.Count(c10TakeBoth, stAvail, 2, 2)
	c10Lin(c, c10TakeBoth, "values stored to avail", storedVals(c, stAvail), "$0.avail-$2", "$1.avail-$2")

	// ---- server: DATA that is not delivered to the handler ---------------
	srvRefund := Calls(c10SWU, c10SWU32).ArgIs(1, "nil")
	for _, fn := range []string{c10SrvFrame, c10SrvData} {
		discard := recvIs(Calls(c10Take), 0, c10SrvConnFld)
		c.PassThroughUnless(fn, discard, srvRefund, FailEdgeOf(discard))
		c10RefundEqualsTaken(c, fn, discard, srvRefund, 2)
	}
	c.Count(c10SrvData, recvIs(Calls(c10Take), 0, c10SrvConnFld), 2, -1)
	// server: DATA delivered to the body pipe
	srvBoth := recvIs(Calls(c10TakeBoth), 0, c10SrvConnFld)
	c.PassThroughUnless(c10SrvData, srvBoth, srvRefund, FailEdgeOf(srvBoth))
	c10DeliveredRefund(c, c10SrvData, srvBoth, srvRefund, 2)
	// padding also returned to the stream window with the same amount
	c10PadToStream(c)
	c.Has(c10SWU32, Calls(c10SWU).ArgIs(0, "$r").ArgIs(1, "$0").ArgIs(2, "$1"))

	// server: closeStream returns what is still buffered, before the pipe is closed
	closeStream := "(*http2.serverConn).closeStream"
	bufRefund := Calls(c10SWU).ArgIs(1, "nil").ArgIs(2, "Len($0.body)")
	c.PassThroughIncl(closeStream, c.Edge("$0.body != nil"), bufRefund)
	c.Before(closeStream, bufRefund, Calls("(*http2.pipe).CloseWithError", "(*http2.pipe).BreakWithError", "(*http2.pipe).closeWithErrorAndCode"))

	// server: bytes read by the handler
	reqRead := "(*http2.requestBody).Read"
	note := "(*http2.serverConn).noteBodyReadFromHandler"
	c.PassThroughUnless(reqRead, Calls(c10PipeRead), Calls(note), EdgeWhere("$r.conn == nil"))
	c10ArgIsResult(c, reqRead, Calls(note), 2, Calls(c10PipeRead), 0)
	c.Has(note, Stores("http2.bodyReadMsg.n").StoredIs("$1"))
	c.Has(note, Stores("http2.bodyReadMsg.st").StoredIs("$0"))
	c.PassThroughIncl(note, c.Edge("$1 > 0"), Sends("$r.bodyReadCh")) // every positive count is offered to the serve loop
	c.Callers("(*http2.serverConn).noteBodyRead", "(*http2.serverConn).serve")
	c10ServeForwards(c)
	c.Before("(*http2.serverConn).noteBodyRead", Calls(c10SWU).ArgIs(1, "nil").ArgIs(2, "$1"), Returns())

	// server: sendWindowUpdate turns the add result into a queued WINDOW_UPDATE
	c.Guard(c10SWU, recvIs(Calls(c10Add), 0, c10SrvConnFld), "$0 == nil")
	c.Guard(c10SWU, recvIs(Calls(c10Add), 0, "http2.stream.inflow"), "$0 != nil")
	c.Count(c10SWU, Calls(c10Add).ArgIs(1, "$1"), 2, 2)
	c.Has(c10SWU, Stores("http2.writeWindowUpdate.streamID").StoredIs("φ($0.id|0)"))
	c.CallAfter(c10SWU, Stores("http2.writeWindowUpdate.n"), "(*http2.serverConn).writeFrame")
	c.Writers("http2.writeWindowUpdate.n", c10SWU)
	c.Has("(http2.writeWindowUpdate).writeFrame", Calls(c10WWU).ArgIs(1, "$r.streamID").ArgIs(2, "$r.n"))

	// ---- client: DATA processing ------------------------------------------
	cliRefund := recvIs(Calls(c10Add), 0, c10CliConnFld)
	cliDiscard := recvIs(Calls(c10Take), 0, c10CliConnFld)
	c.PassThroughUnless(c10CliData, cliDiscard, cliRefund, FailEdgeOf(cliDiscard))
	c10RefundEqualsTaken(c, c10CliData, cliDiscard, cliRefund, 1)
	cliBoth := recvIs(Calls(c10TakeBoth), 0, c10CliConnFld)
	c.PassThroughUnless(c10CliData, cliBoth, cliRefund, FailEdgeOf(cliBoth))
	c10ClientDeliveredRefund(c, cliBoth, cliRefund)

	// ---- client: body Read / Close ----------------------------------------
	c10BodyReadRules(c, cliRefund)
	c.Before(c10BodyClose, Calls("(*http2.pipe).BreakWithError"), Calls(c10PipeLen))
	c.PassThroughIncl(c10BodyClose, c.Edge("Len(&$r.cs.bufPipe) > 0"), cliRefund.ArgIs(1, "Len(&$r.cs.bufPipe)"))

	// ---- every add result becomes a WINDOW_UPDATE ---------------------------
	c10ResultsSent(c, c10SWU, 2)
	c10ResultsSent(c, c10CliData, 3)
	c10ResultsSent(c, c10BodyRead, 2)
	c10ResultsSent(c, c10BodyClose, 1)

	// ---- pipe contract the refund rules rely on -----------------------------
	c.Reject(c10PipeWrite, Calls(".Write"), "$r.err != nil")
	c.Reject(c10PipeWrite, Calls(".Write"), "$r.breakErr != nil")
	c.Writers("http2.pipe.unread", "(*http2.pipe).closeWithError")
	c.Has("(*http2.pipe).closeWithError", Stores("http2.pipe.unread").StoredIs("($r.unread+.Len($r.b))"))
	c.Guard(c10PipeLen, Loads("http2.pipe.unread"), "$r.b == nil") // after a break Len reports what was dropped unread
	c.Guard(c10PipeLen, Calls(".Len"), "$r.b != nil")
	c10ErrMeansZero(c, c10PipeRead, ".Read")
	c10ErrMeansZero(c, "(*http2.dataBuffer).Read", "")
}

func storedVals(c *Ctx, s Sel) func(fn *ssa.Function) []ssa.Value {
	return func(fn *ssa.Function) []ssa.Value {
		var out []ssa.Value
		for _, in := range s.F(c.P, fn) {
			if st, ok := in.(*ssa.Store); ok {
				out = append(out, st.Val)
			}
		}
		return out
	}
}

// c10Lin: the values have exactly the listed linear forms (as a set).
func c10Lin(c *Ctx, fnName, desc string, get func(fn *ssa.Function) []ssa.Value, specs ...string) {
	rule := "linear-form"
	construct := fmt.Sprintf("%s: %s = {%s}", fnName, desc, strings.Join(specs, " , "))
	fn := c.MustFn(fnName)
	if fn == nil {
		return
	}
	want := map[string]bool{}
	for _, s := range specs {
		l, err := c.P.LinSpec(s)
		if err != nil {
			c.Undecided(rule, construct, err.Error())
			return
		}
		want[l] = true
	}
	vals := get(fn)
	if len(vals) == 0 {
		c.Undecided(rule, construct, "no such value in this function")
		return
	}
	got := map[string]bool{}
	for _, v := range vals {
		got[LinOf(v)] = true
	}
	for g := range got {
		if !want[g] {
			c.Fail(rule, construct, fn.Pos(), "found value "+g)
			return
		}
	}
	for w := range want {
		if !got[w] {
			c.Fail(rule, construct, fn.Pos(), "no value "+w+" found")
			return
		}
	}
	c.OK(rule, construct, fmt.Sprintf("%d value(s)", len(vals)))
}

// c10RefundEqualsTaken: the refund sites reached first after each discard
// take return exactly the amount that was taken.
func c10RefundEqualsTaken(c *Ctx, fnName string, takes, refunds Sel, amountIdx int) {
	rule := "refund-amount"
	construct := fnName + ": refund after [" + takes.Name + "] is the taken amount"
	fn := c.MustFn(fnName)
	if fn == nil {
		return
	}
	ts := takes.F(c.P, fn)
	rs := refunds.F(c.P, fn)
	if len(ts) == 0 || len(rs) == 0 {
		c.Undecided(rule, construct, "no take or no refund site")
		return
	}
	n := 0
	for _, t := range ts {
		first := FirstReached(t, rs)
		if len(first) == 0 {
			c.Fail(rule, construct, InstrPos(t), "no refund site reachable after `"+DescribeInstr(t)+"`")
			return
		}
		for _, r := range first {
			n++
			if LinOf(CallArg(r, amountIdx)) != LinOf(CallArg(t, 1)) {
				c.Fail(rule, construct, InstrPos(r), fmt.Sprintf("`%s` refunds %s but %s was taken", DescribeInstr(r), Term(CallArg(r, amountIdx)), Term(CallArg(t, 1))))
				return
			}
		}
	}
	c.OK(rule, construct, fmt.Sprintf("%d take(s), %d refund site(s)", len(ts), n))
}

// pipeWriteIn returns the single (*pipe).Write call of fn.
func pipeWriteIn(c *Ctx, fn *ssa.Function) *ssa.Call {
	ws := Calls(c10PipeWrite).F(c.P, fn)
	if len(ws) != 1 {
		return nil
	}
	return ws[0].(*ssa.Call)
}

// c10DeliveredRefund (server): after takeInflows the first conn-level refund
// is length−written (or the whole length) on the body-write-error edge and
// length−len(data) otherwise.
func c10DeliveredRefund(c *Ctx, fnName string, takes, refunds Sel, amountIdx int) {
	rule := "refund-amount"
	fn := c.MustFn(fnName)
	if fn == nil {
		return
	}
	w := pipeWriteIn(c, fn)
	ts := takes.F(c.P, fn)
	if w == nil || len(ts) != 1 {
		c.Undecided(rule, fnName+": delivered DATA refund", "expected one takeInflows and one pipe.Write")
		return
	}
	n := Term(CallArg(ts[0], 2))
	data := Term(w.Call.Args[1])
	wrote := Term(w) + "#0"
	lin := func(s string) string { l, _ := c.P.LinSpec(s); return l }
	errFact := TermAtom(Term(w)+"#1", false)
	first := FirstReached(ts[0], refunds.F(c.P, fn))
	var onErr, onOK int
	for _, r := range first {
		got := LinOf(CallArg(r, amountIdx))
		if FactIs(r, errFact) {
			onErr++
			construct := fnName + ": refund on the body-write-error path = taken − written"
			if got == lin(n+"-"+wrote) || got == lin(n) {
				c.OK(rule, construct, got)
			} else {
				c.Fail(rule, construct, InstrPos(r), "refund amount is "+got)
			}
		} else {
			onOK++
			construct := fnName + ": padding refund = taken − len(data)"
			if got == lin(n+"-len("+data+")") {
				c.OK(rule, construct, got)
			} else {
				c.Fail(rule, construct, InstrPos(r), "refund amount is "+got)
			}
		}
	}
	if onErr == 0 {
		c.Fail(rule, fnName+": refund on the body-write-error path = taken − written", w.Pos(), "no connection-level refund under "+errFact.String())
	}
	if onOK == 0 {
		c.Fail(rule, fnName+": padding refund = taken − len(data)", w.Pos(), "no connection-level padding refund")
	}
}

// c10PadToStream: the server returns the padding to the stream window too.
func c10PadToStream(c *Ctx) {
	rule := "refund-amount"
	construct := c10SrvData + ": padding returned to the stream window with the same amount"
	fn := c.MustFn(c10SrvData)
	if fn == nil {
		return
	}
	var conn, strm []string
	for _, in := range Calls(c10SWU32).F(c.P, fn) {
		if Term(CallArg(in, 1)) == "nil" {
			conn = append(conn, LinOf(CallArg(in, 2)))
		} else {
			strm = append(strm, LinOf(CallArg(in, 2)))
		}
	}
	sort.Strings(conn)
	sort.Strings(strm)
	if len(strm) == 0 || strings.Join(conn, "|") != strings.Join(strm, "|") {
		c.Fail(rule, construct, fn.Pos(), fmt.Sprintf("conn-level amounts %v, stream-level amounts %v", conn, strm))
		return
	}
	c.OK(rule, construct, strings.Join(strm, "|"))
}

// c10ClientDeliveredRefund: the amount given back after takeInflows is, on
// every incoming edge of its merge, the whole frame / the data length where
// bufPipe.Write failed, and the padding (or nothing) where it did not.
func c10ClientDeliveredRefund(c *Ctx, takes, refunds Sel) {
	rule := "refund-amount"
	construct := c10CliData + ": refund after takeInflows = padding, plus len(data) exactly where bufPipe.Write failed"
	fn := c.MustFn(c10CliData)
	if fn == nil {
		return
	}
	w := pipeWriteIn(c, fn)
	ts := takes.F(c.P, fn)
	if w == nil || len(ts) != 1 {
		c.Undecided(rule, construct, "expected one takeInflows and one pipe.Write")
		return
	}
	n := Term(CallArg(ts[0], 2))
	data := Term(w.Call.Args[1])
	lin := func(s string) string { l, _ := c.P.LinSpec(s); return l }
	whole, pad, dlen, zero := lin(n), lin(n+"-len("+data+")"), lin("len("+data+")"), lin("0")
	errFact := TermAtom(Term(w)+"#1", false)
	first := FirstReached(ts[0], refunds.F(c.P, fn))
	if len(first) == 0 {
		c.Fail(rule, construct, InstrPos(ts[0]), "no connection-level refund after takeInflows")
		return
	}
	for _, r := range first {
		amount := Unwrap(CallArg(r, 1))
		all := map[string]bool{}
		for _, s := range LinSet(amount) {
			all[s] = true
		}
		if !all[whole] || !all[pad] {
			c.Fail(rule, construct, InstrPos(r), fmt.Sprintf("possible refunds %v lack the whole frame or the padding", LinSet(amount)))
			return
		}
		ph, ok := amount.(*ssa.Phi)
		if !ok {
			c.Undecided(rule, construct, "refund amount is not a merge of the failed-write and delivered cases; review the rule")
			return
		}
		for i, e := range ph.Edges {
			failed := false
			for _, f := range EdgeFacts(ph.Block().Preds[i], ph.Block()) {
				if SameAtom(f, errFact) {
					failed = true
				}
			}
			for _, s := range LinSet(e) {
				okv := s == pad || s == zero
				if failed {
					okv = s == whole || s == dlen
				}
				if !okv {
					c.Fail(rule, construct, InstrPos(r), fmt.Sprintf("refund can be %s on the path where the body write %s", s, map[bool]string{true: "failed", false: "did not fail"}[failed]))
					return
				}
			}
		}
	}
	c.OK(rule, construct, fmt.Sprintf("%d refund site(s)", len(first)))
}

// c10ArgIsResult: argument idx of every selected call is exactly result ri of
// the single selected source call.
func c10ArgIsResult(c *Ctx, fnName string, calls Sel, idx int, src Sel, ri int) {
	rule := "value-is"
	construct := fmt.Sprintf("%s: arg%d of [%s] is result %d of [%s]", fnName, idx, calls.Name, ri, src.Name)
	fn := c.MustFn(fnName)
	if fn == nil {
		return
	}
	ss := src.F(c.P, fn)
	cs := calls.F(c.P, fn)
	if len(ss) != 1 || len(cs) == 0 {
		c.Undecided(rule, construct, fmt.Sprintf("%d source call(s), %d use site(s)", len(ss), len(cs)))
		return
	}
	for _, in := range cs {
		if a := CallArg(in, idx); a == nil || !IsResultOf(a, ss[0].(*ssa.Call), ri) {
			c.Fail(rule, construct, InstrPos(in), fmt.Sprintf("argument `%s` is not (only) that result", Term(a)))
			return
		}
	}
	c.OK(rule, construct, fmt.Sprintf("%d site(s)", len(cs)))
}

// c10ServeForwards: the serve loop hands the received bodyReadMsg to noteBodyRead unchanged.
func c10ServeForwards(c *Ctx) {
	rule := "value-is"
	serve := "(*http2.serverConn).serve"
	construct := serve + ": noteBodyRead receives the stream and count of the bodyReadMsg taken from bodyReadCh"
	fn := c.MustFn(serve)
	if fn == nil {
		return
	}
	calls := Calls("(*http2.serverConn).noteBodyRead").F(c.P, fn)
	if len(calls) == 0 {
		c.Undecided(rule, construct, "no call")
		return
	}
	for _, in := range calls {
		st, n := Term(CallArg(in, 1)), Term(CallArg(in, 2))
		// "select#k" is the value received by the k-th case of the loop's select
		if !strings.HasPrefix(st, "select#") || !strings.HasSuffix(st, ".st") || n != strings.TrimSuffix(st, ".st")+".n" {
			c.Fail(rule, construct, InstrPos(in), fmt.Sprintf("arguments are %s, %s", st, n))
			return
		}
	}
	c.OK(rule, construct, fmt.Sprintf("%d call(s)", len(calls)))
}

// c10BodyReadRules: transportResponseBody.Read.
func c10BodyReadRules(c *Ctx, cliRefund Sel) {
	fn := c.MustFn(c10BodyRead)
	if fn == nil {
		return
	}
	rs := Calls(c10PipeRead).F(c.P, fn)
	if len(rs) != 1 {
		c.Undecided("anchor", c10BodyRead+": single bufPipe.Read call", fmt.Sprintf("found %d", len(rs)))
		return
	}
	r := rs[0].(*ssa.Call)
	isCount := func(v ssa.Value) bool { return IsResultOf(v, r, 0) }
	isErr := func(v ssa.Value) bool { return IsResultOf(v, r, 1) }
	excuse := UnionEdges(ZeroEdgeOf("the bufPipe.Read count", isCount), NonNilEdgeOf("the bufPipe.Read error", isErr))
	c.PassThroughUnless(c10BodyRead, Calls(c10PipeRead), cliRefund, excuse)
	c10ArgIsResult(c, c10BodyRead, cliRefund, 1, Calls(c10PipeRead), 0)
	// a stored readErr short-circuits before the pipe is touched (nothing taken, nothing owed)
	c.Reject(c10BodyRead, Calls(c10PipeRead), "$r.cs.readErr != nil")
}

// c10ResultsSent: for every inflow.add call of fn, the result is written as a
// WINDOW_UPDATE increment on every path that a result==0 branch does not excuse.
func c10ResultsSent(c *Ctx, fnName string, floor int) {
	fn := c.MustFn(fnName)
	if fn == nil {
		return
	}
	adds := Calls(c10Add).F(c.P, fn)
	if len(adds) < floor {
		c.Undecided("floor", fnName+": inflow.add calls", fmt.Sprintf("found %d, reviewed %d", len(adds), floor))
	}
	c.ResultUsed(fnName, Calls(c10Add))
	perField := map[string]int{}
	for _, in := range adds {
		a := in.(*ssa.Call)
		field := RecvField(a.Call.Args[0])
		perField[field]++
		name := fmt.Sprintf("add on %s #%d", field, perField[field])
		carries := func(v ssa.Value) bool {
			v = Unwrap(v, "mustUint31")
			if v == ssa.Value(a) {
				return true
			}
			ph, ok := v.(*ssa.Phi)
			if !ok {
				return false
			}
			hit := false
			for _, e := range ph.Edges {
				switch x := e.(type) {
				case *ssa.Const:
					if x.Value != nil && x.Value.ExactString() != "0" {
						return false
					}
				case *ssa.Call:
					if CalleeName(&x.Call) != c10Add {
						return false
					}
					if x == a {
						hit = true
					}
				default:
					return false
				}
			}
			return hit
		}
		isConn := field == c10CliConnFld || field == c10SrvConnFld
		var sinks []ssa.Instruction
		bad := ""
		EachInstr(fn, func(x ssa.Instruction) {
			switch s := x.(type) {
			case *ssa.Call:
				if CalleeName(&s.Call) == c10WWU && carries(s.Call.Args[2]) {
					sinks = append(sinks, x)
					id := Term(s.Call.Args[1])
					if isConn && id != "0" {
						bad = "connection credit written on stream " + id
					}
					if !isConn && id == "0" {
						bad = "stream credit written on stream 0"
					}
				}
			case *ssa.Store:
				if fa, ok := s.Addr.(*ssa.FieldAddr); ok && RecvField(fa) == "http2.writeWindowUpdate.n" && carries(s.Val) {
					sinks = append(sinks, x)
				}
			}
		})
		construct := fmt.Sprintf("%s: result of [%s] is a WINDOW_UPDATE increment", fnName, name)
		if len(sinks) == 0 {
			c.Fail("result-sent", construct, a.Pos(), "no WriteWindowUpdate / writeWindowUpdate.n receives this result")
			continue
		}
		if bad != "" {
			c.Fail("result-sent", construct, a.Pos(), bad)
			continue
		}
		c.OK("result-sent", construct, fmt.Sprintf("%d sink(s)", len(sinks)))
		c.PassThroughUnless(fnName, only(name, in), only("WINDOW_UPDATE carrying it", sinks...), ZeroEdgeOf("its result", carries))
	}
}

// c10ErrMeansZero: every return of fnName either has a zero count or passes on
// the results of the named interface call (via=="" : or has a nil error).
func c10ErrMeansZero(c *Ctx, fnName, via string) {
	rule := "error-implies-zero-count"
	construct := fnName + ": a non-nil error is returned with count 0"
	fn := c.MustFn(fnName)
	if fn == nil {
		return
	}
	// resolve a result through its local slot: all values ever stored there
	vals := func(v ssa.Value) []ssa.Value {
		if u, ok := v.(*ssa.UnOp); ok && u.Op == token.MUL {
			if a, ok := u.X.(*ssa.Alloc); ok {
				var out []ssa.Value
				for _, r := range *a.Referrers() {
					if st, ok := r.(*ssa.Store); ok && st.Addr == ssa.Value(a) {
						out = append(out, st.Val)
					}
				}
				return out
			}
		}
		return []ssa.Value{v}
	}
	n := 0
	for _, in := range NormalReturns().F(c.P, fn) {
		r := in.(*ssa.Return)
		if len(r.Results) != 2 {
			c.Undecided(rule, construct, "unexpected result count")
			return
		}
		errs := vals(r.Results[1])
		allNil := true
		for _, e := range errs {
			if k, ok := e.(*ssa.Const); !ok || k.Value != nil {
				allNil = false
			}
		}
		if allNil && via == "" {
			n++
			continue
		}
		for _, v := range vals(r.Results[0]) {
			n++
			if k, ok := v.(*ssa.Const); ok && Term(k) == "0" {
				continue
			}
			if e, ok := v.(*ssa.Extract); ok && via != "" && e.Index == 0 {
				if call, ok := e.Tuple.(*ssa.Call); ok && CalleeName(&call.Call) == via {
					continue
				}
			}
			c.Fail(rule, construct, InstrPos(in), "count "+Term(v)+" may accompany an error")
			return
		}
	}
	if n == 0 {
		c.Undecided(rule, construct, "no return inspected")
		return
	}
	c.OK(rule, construct, fmt.Sprintf("%d returned value(s)", n))
}
