package props

import (
	"fmt"
	"go/token"
	"sort"
	"strings"

	. "verif/sa/core"

	"golang.org/x/tools/go/ssa"
)

func init() {
	Register(&Property{
		ID:    "C10",
		Floor: 78,
		Clauses: "inflow.avail/unsent written hcOnly by inflow.init/add/take and takeInflows, init/take/add called hcOnly from the connection set-up, DATA-processing, body Read/Close and sendWindowUpdate functions; " +
			"inflow.add: negative and >2^31-1 panic guards dominate both stores, the batching return keeps the amount in unsent, the flush return hands back unsent+n and zeroes unsent; take/takeInflows decrement hcOnly under their capacity tests; " +
			"server and client DATA processing: after every successful take/takeInflows of connection credit every path to a normal return passes a connection-level refund (sendWindowUpdate(nil,…) / cc.inflow.add), discard paths refund exactly the taken frame length, the body-write-error path refunds length−written, padding is refunded as length−len(data); " +
			"server closeStream refunds pipe.Len() before closing the body pipe, and those bytes cannot be refunded a second time through a later handler read (pipe broken, or noteBodyRead skips closed streams); requestBody.Read reports the pipe.Read count through noteBodyReadFromHandler→bodyReadCh→noteBodyRead→sendWindowUpdate(nil,n); " +
			"client transportResponseBody.Read: every path after bufPipe.Read that is not excused by a count==0 / error!=nil branch passes cc.inflow.add with exactly the bufPipe.Read count; Close refunds bufPipe.Len() taken after BreakWithError; " +
			"the result of every inflow.add reaches Framer.WriteWindowUpdate (stream 0 for connection windows) or writeWindowUpdate.n on every path not excused by a result==0 branch; writeWindowUpdate built hcOnly in sendWindowUpdate and written with its own n; " +
			"pipe: Write refuses after close/break (so late DATA takes the refund path), Read/dataBuffer.Read return n==0 with every error, unread is accumulated hcOnly in closeWithError.",
		NotCovered: "that batched (below inflowMinRefresh) credit is eventually flushed; that WINDOW_UPDATE frames queued on the server are eventually written; arithmetic over histories (sum of refunds == sum of DATA); " +
			"client streams torn down without Close (cleanupWriteRequest closes bufPipe without a refund); client DATA rejected before the flow-control take (after END_STREAM, before HEADERS, on HEAD) is not charged to cc.inflow at all; " +
			"stream-level windows beyond the padding refund.",
		Run: c10,
	})
}

const (
	hcC10Add        = "(*http2.inflow).add"
	hcC10Take       = "(*http2.inflow).take"
	hcC10TakeBoth   = "http2.takeInflows"
	hcC10Init       = "(*http2.inflow).init"
	hcC10SWU        = "(*http2.serverConn).sendWindowUpdate"
	hcC10SWU32      = "(*http2.serverConn).sendWindowUpdate32"
	hcC10WWU        = "(*http2.Framer).WriteWindowUpdate"
	hcC10PipeRead   = "(*http2.pipe).Read"
	hcC10PipeWrite  = "(*http2.pipe).Write"
	hcC10PipeLen    = "(*http2.pipe).Len"
	hcC10SrvData    = "(*http2.serverConn).processData"
	hcC10SrvFrame   = "(*http2.serverConn).processFrame"
	hcC10CliData    = "(*http2.clientConnReadLoop).processData"
	hcC10BodyRead   = "(http2.transportResponseBody).Read"
	hcC10BodyClose  = "(http2.transportResponseBody).Close"
	hcC10SrvConnFld = "http2.serverConn.inflow"
	hcC10CliConnFld = "http2.ClientConn.inflow"
)

// hcOnly selects exactly the given instructions.
func hcOnly(name string, ins ...ssa.Instruction) Sel {
	return Sel{Name: name, F: func(p *Prog, fn *ssa.Function) []ssa.Instruction {
		var out []ssa.Instruction
		for _, in := range ins {
			if in.Parent() == fn {
				out = append(out, in)
			}
		}
		return out
	}}
}

// hcRecvIs keeps calls whose argument i points at the named struct field.
func hcRecvIs(s Sel, i int, field string) Sel {
	return s.Where(fmt.Sprintf("arg%d=&%s", i, field), func(in ssa.Instruction) bool {
		return HcRecvField(HcCallArg(in, i)) == field
	})
}

func c10(c *Ctx) {
	// ---- ownership of the counters -------------------------------------
	c.Writers("http2.inflow.avail", hcC10Init, hcC10Add, hcC10Take, hcC10TakeBoth)
	c.Writers("http2.inflow.unsent", hcC10Add)
	c.Callers(hcC10Init, "(*http2.ClientConn).addStreamLocked", "(*http2.Server).serveConn", "(*http2.Transport).newClientConn", "(*http2.serverConn).newStream")
	c.Callers(hcC10Take, hcC10CliData, hcC10SrvData, hcC10SrvFrame)
	c.Callers(hcC10TakeBoth, hcC10CliData, hcC10SrvData)
	c.Callers(hcC10Add, hcC10CliData, hcC10SWU, hcC10BodyClose, hcC10BodyRead)

	// ---- inflow.add / take / takeInflows --------------------------------
	stAvail, stUnsent := Stores("http2.inflow.avail"), Stores("http2.inflow.unsent")
	c.Reject(hcC10Add, Union(stAvail, stUnsent), "$0 < 0")
	c.Reject(hcC10Add, Union(stAvail, stUnsent), "$0+$r.avail+$r.unsent > 2147483647")
	c.NeverAfter(hcC10Add, stAvail, RetConst(0, "0"), false) // the batching return does not advertise
	c.PassThrough(hcC10Add, stAvail, stUnsent.StoredIs("0")) // advertised credit is no longer pending
	hcC10Lin(c, hcC10Add, "value stored to avail", hcStoredVals(c, stAvail), "$r.avail+$r.unsent")
	hcC10Lin(c, hcC10Add, "value stored to unsent before the flush test", hcStoredVals(c, stUnsent.Where("non-zero", func(in ssa.Instruction) bool {
		return Term(in.(*ssa.Store).Val) != "0"
	})), "$r.unsent+$0")
	hcC10Lin(c, hcC10Add, "non-zero return value", func(fn *ssa.Function) []ssa.Value {
		var out []ssa.Value
		for _, in := range Returns().F(c.P, fn) {
			if r := in.(*ssa.Return); len(r.Results) == 1 && Term(r.Results[0]) != "0" {
				out = append(out, r.Results[0])
			}
		}
		return out
	}, "$r.unsent+$0")
	c.Reject(hcC10Take, Union(stAvail, RetConst(0, "true")), "$0 > $r.avail")
	hcC10Lin(c, hcC10Take, "value stored to avail", hcStoredVals(c, stAvail), "$r.avail-$0")
	c.Reject(hcC10TakeBoth, Union(stAvail, RetConst(0, "true")), "$2 > $0.avail")
	c.Reject(hcC10TakeBoth, Union(stAvail, RetConst(0, "true")), "$2 > $1.avail")
	c.Count(hcC10TakeBoth, stAvail, 2, 2)
	hcC10Lin(c, hcC10TakeBoth, "values stored to avail", hcStoredVals(c, stAvail), "$0.avail-$2", "$1.avail-$2")

	// ---- server: DATA that is not delivered to the handler ---------------
	srvRefund := Calls(hcC10SWU, hcC10SWU32).ArgIs(1, "nil")
	for _, fn := range []string{hcC10SrvFrame, hcC10SrvData} {
		discard := hcRecvIs(Calls(hcC10Take), 0, hcC10SrvConnFld)
		c.HcPassThroughUnless(fn, discard, srvRefund, HcFailEdgeOf(discard))
		hcC10RefundEqualsTaken(c, fn, discard, srvRefund, 2)
	}
	c.Count(hcC10SrvData, hcRecvIs(Calls(hcC10Take), 0, hcC10SrvConnFld), 2, -1)
	// server: DATA delivered to the body pipe
	srvBoth := hcRecvIs(Calls(hcC10TakeBoth), 0, hcC10SrvConnFld)
	c.HcPassThroughUnless(hcC10SrvData, srvBoth, srvRefund, HcFailEdgeOf(srvBoth))
	hcC10DeliveredRefund(c, hcC10SrvData, srvBoth, srvRefund, 2)
	// padding also returned to the stream window with the same amount
	hcC10PadToStream(c)
	c.Has(hcC10SWU32, Calls(hcC10SWU).ArgIs(0, "$r").ArgIs(1, "$0").ArgIs(2, "$1"))

	// server: closeStream returns what is still buffered, before the pipe is closed
	closeStream := "(*http2.serverConn).closeStream"
	bufRefund := Calls(hcC10SWU).ArgIs(1, "nil").ArgIs(2, "Len($0.body)")
	c.PassThroughIncl(closeStream, c.Edge("$0.body != nil"), bufRefund)
	c.Before(closeStream, bufRefund, Calls("(*http2.pipe).CloseWithError", "(*http2.pipe).BreakWithError", "(*http2.pipe).closeWithErrorAndCode"))

	hcC10NoDoubleRefund(c, closeStream)

	// server: bytes read by the handler
	reqRead := "(*http2.requestBody).Read"
	note := "(*http2.serverConn).noteBodyReadFromHandler"
	c.HcPassThroughUnless(reqRead, Calls(hcC10PipeRead), Calls(note), HcEdgeWhere("$r.conn == nil"))
	hcC10ArgIsResult(c, reqRead, Calls(note), 2, Calls(hcC10PipeRead), 0)
	c.Has(note, Stores("http2.bodyReadMsg.n").StoredIs("$1"))
	c.Has(note, Stores("http2.bodyReadMsg.st").StoredIs("$0"))
	c.PassThroughIncl(note, c.Edge("$1 > 0"), HcSends("$r.bodyReadCh")) // every positive count is offered to the serve loop
	c.Callers("(*http2.serverConn).noteBodyRead", "(*http2.serverConn).serve")
	hcC10ServeForwards(c)
	c.Before("(*http2.serverConn).noteBodyRead", Calls(hcC10SWU).ArgIs(1, "nil").ArgIs(2, "$1"), Returns())

	// server: sendWindowUpdate turns the add result into a queued WINDOW_UPDATE
	// On every path n is added to exactly one window: the connection's when st == nil, that stream's otherwise.
	// The receiver may be chosen per branch (one add call in each) or be a merge of the two windows (one call):
	// the merge is expanded per incoming edge with the facts of that edge.
	swuAdds := Calls(hcC10Add)
	c.HsArgUnder(hcC10SWU, swuAdds, 0, map[string]string{"&$r.inflow": "$0 == nil", "&$0.inflow": "$0 != nil"})
	c.Count(hcC10SWU, swuAdds.Where("amount is not the parameter n", func(in ssa.Instruction) bool { return Term(HcCallArg(in, 1)) != "$1" }), 0, 0)
	c.PassThroughIncl(hcC10SWU, Entry(), swuAdds)   // at least once on every path ...
	c.NeverAfter(hcC10SWU, swuAdds, swuAdds, false) // ... and never twice
	c.StoredUnder(hcC10SWU, Stores("http2.writeWindowUpdate.streamID"), map[string]string{"$0.id": "$0 != nil", "0": "$0 == nil"})
	c.CallAfter(hcC10SWU, Stores("http2.writeWindowUpdate.n"), "(*http2.serverConn).writeFrame")
	c.Writers("http2.writeWindowUpdate.n", hcC10SWU)
	c.Has("(http2.writeWindowUpdate).writeFrame", Calls(hcC10WWU).ArgIs(1, "$r.streamID").ArgIs(2, "$r.n"))

	// ---- client: DATA processing ------------------------------------------
	cliRefund := hcRecvIs(Calls(hcC10Add), 0, hcC10CliConnFld)
	cliDiscard := hcRecvIs(Calls(hcC10Take), 0, hcC10CliConnFld)
	c.HcPassThroughUnless(hcC10CliData, cliDiscard, cliRefund, HcFailEdgeOf(cliDiscard))
	hcC10RefundEqualsTaken(c, hcC10CliData, cliDiscard, cliRefund, 1)
	cliBoth := hcRecvIs(Calls(hcC10TakeBoth), 0, hcC10CliConnFld)
	c.HcPassThroughUnless(hcC10CliData, cliBoth, cliRefund, HcFailEdgeOf(cliBoth))
	hcC10ClientDeliveredRefund(c, cliBoth, cliRefund)

	// ---- client: body Read / Close ----------------------------------------
	hcC10BodyReadRules(c, cliRefund)
	c.Before(hcC10BodyClose, Calls("(*http2.pipe).BreakWithError"), Calls(hcC10PipeLen))
	c.PassThroughIncl(hcC10BodyClose, c.Edge("Len(&$r.cs.bufPipe) > 0"), cliRefund.ArgIs(1, "Len(&$r.cs.bufPipe)"))

	// ---- every add result becomes a WINDOW_UPDATE ---------------------------
	hcC10ResultsSent(c, hcC10SWU, 2)
	hcC10ResultsSent(c, hcC10CliData, 3)
	hcC10ResultsSent(c, hcC10BodyRead, 2)
	hcC10ResultsSent(c, hcC10BodyClose, 1)

	// ---- pipe contract the refund rules rely on -----------------------------
	c.Reject(hcC10PipeWrite, Calls(".Write"), "$r.err != nil")
	c.Reject(hcC10PipeWrite, Calls(".Write"), "$r.breakErr != nil")
	c.Writers("http2.pipe.unread", "(*http2.pipe).closeWithError")
	c.Has("(*http2.pipe).closeWithError", Stores("http2.pipe.unread").StoredIs("($r.unread+.Len($r.b))"))
	c.Guard(hcC10PipeLen, Loads("http2.pipe.unread"), "$r.b == nil") // after a break Len reports what was dropped unread
	c.Guard(hcC10PipeLen, Calls(".Len"), "$r.b != nil")
	hcC10ErrMeansZero(c, hcC10PipeRead, ".Read")
	hcC10ErrMeansZero(c, "(*http2.dataBuffer).Read", "")
}

func hcStoredVals(c *Ctx, s Sel) func(fn *ssa.Function) []ssa.Value {
	return func(fn *ssa.Function) []ssa.Value {
		var out []ssa.Value
		for _, in := range s.F(c.P, fn) {
			if st, ok := in.(*ssa.Store); ok {
				out = append(out, st.Val)
			}
		}
		return out
	}
}

// hcC10Lin: the values have exactly the listed linear forms (as a set).
func hcC10Lin(c *Ctx, fnName, desc string, get func(fn *ssa.Function) []ssa.Value, specs ...string) {
	rule := "linear-form"
	construct := fmt.Sprintf("%s: %s = {%s}", fnName, desc, strings.Join(specs, " , "))
	fn := c.MustFn(fnName)
	if fn == nil {
		return
	}
	want := map[string]bool{}
	for _, s := range specs {
		l, err := c.P.HcLinSpec(s)
		if err != nil {
			c.Undecided(rule, construct, err.Error())
			return
		}
		want[l] = true
	}
	vals := get(fn)
	if len(vals) == 0 {
		c.Undecided(rule, construct, "no such value in this function")
		return
	}
	got := map[string]bool{}
	for _, v := range vals {
		got[HcLinOf(v)] = true
	}
	for g := range got {
		if !want[g] {
			c.Fail(rule, construct, fn.Pos(), "found value "+g)
			return
		}
	}
	for w := range want {
		if !got[w] {
			c.Fail(rule, construct, fn.Pos(), "no value "+w+" found")
			return
		}
	}
	c.OK(rule, construct, fmt.Sprintf("%d value(s)", len(vals)))
}

// hcC10RefundEqualsTaken: the refund sites reached first after each discard
// take return exactly the amount that was taken.
func hcC10RefundEqualsTaken(c *Ctx, fnName string, takes, refunds Sel, amountIdx int) {
	rule := "refund-amount"
	construct := fnName + ": refund after [" + takes.Name + "] is the taken amount"
	fn := c.MustFn(fnName)
	if fn == nil {
		return
	}
	ts := takes.F(c.P, fn)
	rs := refunds.F(c.P, fn)
	if len(ts) == 0 || len(rs) == 0 {
		c.Undecided(rule, construct, "no take or no refund site")
		return
	}
	n := 0
	for _, t := range ts {
		first := HcFirstReached(t, rs)
		if len(first) == 0 {
			c.Fail(rule, construct, InstrPos(t), "no refund site reachable after `"+DescribeInstr(t)+"`")
			return
		}
		for _, r := range first {
			n++
			if HcLinOf(HcCallArg(r, amountIdx)) != HcLinOf(HcCallArg(t, 1)) {
				c.Fail(rule, construct, InstrPos(r), fmt.Sprintf("`%s` refunds %s but %s was taken", DescribeInstr(r), Term(HcCallArg(r, amountIdx)), Term(HcCallArg(t, 1))))
				return
			}
		}
	}
	c.OK(rule, construct, fmt.Sprintf("%d take(s), %d refund site(s)", len(ts), n))
}

// hcPipeWriteIn returns the single (*pipe).Write call of fn.
func hcPipeWriteIn(c *Ctx, fn *ssa.Function) *ssa.Call {
	ws := Calls(hcC10PipeWrite).F(c.P, fn)
	if len(ws) != 1 {
		return nil
	}
	return ws[0].(*ssa.Call)
}

// hcC10DeliveredRefund (server): after takeInflows the first conn-level refund
// is length−written (or the whole length) on the body-write-error edge and
// length−len(data) otherwise.
func hcC10DeliveredRefund(c *Ctx, fnName string, takes, refunds Sel, amountIdx int) {
	rule := "refund-amount"
	fn := c.MustFn(fnName)
	if fn == nil {
		return
	}
	w := hcPipeWriteIn(c, fn)
	ts := takes.F(c.P, fn)
	if w == nil || len(ts) != 1 {
		c.Undecided(rule, fnName+": delivered DATA refund", "expected one takeInflows and one pipe.Write")
		return
	}
	n := Term(HcCallArg(ts[0], 2))
	data := Term(BaselineArgs(&w.Call)[1])
	wrote := Term(w) + "#0"
	lin := func(s string) string { l, _ := c.P.HcLinSpec(s); return l }
	errFact := HcTermAtom(Term(w)+"#1", false)
	first := HcFirstReached(ts[0], refunds.F(c.P, fn))
	var onErr, onOK int
	for _, r := range first {
		got := HcLinOf(HcCallArg(r, amountIdx))
		if HcFactIs(r, errFact) {
			onErr++
			construct := fnName + ": refund on the body-write-error path = taken − written"
			if got == lin(n+"-"+wrote) || got == lin(n) {
				c.OK(rule, construct, got)
			} else {
				c.Fail(rule, construct, InstrPos(r), "refund amount is "+got)
			}
		} else {
			onOK++
			construct := fnName + ": padding refund = taken − len(data)"
			if got == lin(n+"-len("+data+")") {
				c.OK(rule, construct, got)
			} else {
				c.Fail(rule, construct, InstrPos(r), "refund amount is "+got)
			}
		}
	}
	if onErr == 0 {
		c.Fail(rule, fnName+": refund on the body-write-error path = taken − written", w.Pos(), "no connection-level refund under "+errFact.String())
	}
	if onOK == 0 {
		c.Fail(rule, fnName+": padding refund = taken − len(data)", w.Pos(), "no connection-level padding refund")
	}
}

// hcC10PadToStream: the server returns the padding to the stream window too.
func hcC10PadToStream(c *Ctx) {
	rule := "refund-amount"
	construct := hcC10SrvData + ": padding returned to the stream window with the same amount"
	fn := c.MustFn(hcC10SrvData)
	if fn == nil {
		return
	}
	var conn, strm []string
	for _, in := range Calls(hcC10SWU32).F(c.P, fn) {
		if Term(HcCallArg(in, 1)) == "nil" {
			conn = append(conn, HcLinOf(HcCallArg(in, 2)))
		} else {
			strm = append(strm, HcLinOf(HcCallArg(in, 2)))
		}
	}
	sort.Strings(conn)
	sort.Strings(strm)
	if len(strm) == 0 || strings.Join(conn, "|") != strings.Join(strm, "|") {
		c.Fail(rule, construct, fn.Pos(), fmt.Sprintf("conn-level amounts %v, stream-level amounts %v", conn, strm))
		return
	}
	c.OK(rule, construct, strings.Join(strm, "|"))
}

// hcC10ClientDeliveredRefund: the amount given back after takeInflows is, on
// every incoming edge of its merge, the whole frame / the data length where
// bufPipe.Write failed, and the padding (or nothing) where it did not.
//
// The amounts are compared as clamp-normalised linear forms (H10Forms): the
// padding refund max(length−len(data), 0) is one quantity whether it is written
// as `if pad > 0 { refund += pad }` or as max(pad, 0); a merge of pad and 0 whose
// branch facts are the inverse of the clamp (pad where pad < 0) is no padding refund.
func hcC10ClientDeliveredRefund(c *Ctx, takes, refunds Sel) {
	rule := "refund-amount"
	construct := hcC10CliData + ": refund after takeInflows = padding, plus len(data) exactly where bufPipe.Write failed"
	fn := c.MustFn(hcC10CliData)
	if fn == nil {
		return
	}
	w := hcPipeWriteIn(c, fn)
	ts := takes.F(c.P, fn)
	if w == nil || len(ts) != 1 {
		c.Undecided(rule, construct, "expected one takeInflows and one pipe.Write")
		return
	}
	n := Term(HcCallArg(ts[0], 2))
	data := Term(BaselineArgs(&w.Call)[1])
	wholeL, err1 := H10ParseLin(c.P, n)
	dlenL, err2 := H10ParseLin(c.P, "len("+data+")")
	if err1 != nil || err2 != nil {
		c.Undecided(rule, construct, "cannot express the frame length / data length as linear forms")
		return
	}
	padL := wholeL.Sub(dlenL)
	clampL := H10Max0(padL) // max(length − len(data), 0)
	clamps := map[string]Lin{}
	for t := range clampL.Coef {
		clamps[t] = padL
	}
	// the plain values behind a form: a recognised clamp of the padding stands for "the padding, or 0"
	plain := func(fs []Lin) []string {
		set := map[string]bool{}
		for _, f := range fs {
			for _, e := range H10Expand(f, clamps) {
				set[e.String()] = true
			}
		}
		var out []string
		for s := range set {
			out = append(out, s)
		}
		sort.Strings(out)
		return out
	}
	whole, pad, dlen, zero := wholeL.String(), padL.String(), dlenL.String(), "0"
	errFact := HcTermAtom(Term(w)+"#1", false)
	first := HcFirstReached(ts[0], refunds.F(c.P, fn))
	if len(first) == 0 {
		c.Fail(rule, construct, InstrPos(ts[0]), "no connection-level refund after takeInflows")
		return
	}
	for _, r := range first {
		amount := HcUnwrap(HcCallArg(r, 1))
		forms := H10Forms(amount)
		all := map[string]bool{}
		for _, s := range plain(forms) {
			all[s] = true
		}
		if !all[whole] || !all[pad] {
			c.Fail(rule, construct, InstrPos(r), fmt.Sprintf("possible refunds %v lack the whole frame or the padding", H10FormStrings(forms)))
			return
		}
		ph, ok := amount.(*ssa.Phi)
		if !ok {
			c.Undecided(rule, construct, "refund amount is not a merge of the failed-write and delivered cases; review the rule")
			return
		}
		for i, e := range ph.Edges {
			failed := false
			for _, f := range HcEdgeFacts(ph.Block().Preds[i], ph.Block()) {
				if SameAtom(f, errFact) {
					failed = true
				}
			}
			for _, s := range plain(H10Forms(e)) {
				okv := s == pad || s == zero
				if failed {
					okv = s == whole || s == dlen
				}
				if !okv {
					c.Fail(rule, construct, InstrPos(r), fmt.Sprintf("refund can be %s on the path where the body write %s", s, map[bool]string{true: "failed", false: "did not fail"}[failed]))
					return
				}
			}
		}
	}
	c.OK(rule, construct, fmt.Sprintf("%d refund site(s)", len(first)))
}

// hcC10ArgIsResult: argument idx of every selected call is exactly result ri of
// the single selected source call.
func hcC10ArgIsResult(c *Ctx, fnName string, calls Sel, idx int, src Sel, ri int) {
	rule := "value-is"
	construct := fmt.Sprintf("%s: arg%d of [%s] is result %d of [%s]", fnName, idx, calls.Name, ri, src.Name)
	fn := c.MustFn(fnName)
	if fn == nil {
		return
	}
	ss := src.F(c.P, fn)
	cs := calls.F(c.P, fn)
	if len(ss) != 1 || len(cs) == 0 {
		c.Undecided(rule, construct, fmt.Sprintf("%d source call(s), %d use site(s)", len(ss), len(cs)))
		return
	}
	for _, in := range cs {
		if a := HcCallArg(in, idx); a == nil || !HcIsResultOf(a, ss[0].(*ssa.Call), ri) {
			c.Fail(rule, construct, InstrPos(in), fmt.Sprintf("argument `%s` is not (hcOnly) that result", Term(a)))
			return
		}
	}
	c.OK(rule, construct, fmt.Sprintf("%d site(s)", len(cs)))
}

// hcC10ServeForwards: the serve loop hands the received bodyReadMsg to noteBodyRead unchanged.
func hcC10ServeForwards(c *Ctx) {
	rule := "value-is"
	serve := "(*http2.serverConn).serve"
	construct := serve + ": noteBodyRead receives the stream and count of the bodyReadMsg taken from bodyReadCh"
	fn := c.MustFn(serve)
	if fn == nil {
		return
	}
	calls := Calls("(*http2.serverConn).noteBodyRead").F(c.P, fn)
	if len(calls) == 0 {
		c.Undecided(rule, construct, "no call")
		return
	}
	for _, in := range calls {
		st, n := Term(HcCallArg(in, 1)), Term(HcCallArg(in, 2))
		// "select#k" is the value received by the k-th case of the loop's select
		if !strings.HasPrefix(st, "select#") || !strings.HasSuffix(st, ".st") || n != strings.TrimSuffix(st, ".st")+".n" {
			c.Fail(rule, construct, InstrPos(in), fmt.Sprintf("arguments are %s, %s", st, n))
			return
		}
	}
	c.OK(rule, construct, fmt.Sprintf("%d call(s)", len(calls)))
}

// hcC10BodyReadRules: transportResponseBody.Read.
func hcC10BodyReadRules(c *Ctx, cliRefund Sel) {
	fn := c.MustFn(hcC10BodyRead)
	if fn == nil {
		return
	}
	rs := Calls(hcC10PipeRead).F(c.P, fn)
	if len(rs) != 1 {
		c.Undecided("anchor", hcC10BodyRead+": single bufPipe.Read call", fmt.Sprintf("found %d", len(rs)))
		return
	}
	r := rs[0].(*ssa.Call)
	isCount := func(v ssa.Value) bool { return HcIsResultOf(v, r, 0) }
	isErr := func(v ssa.Value) bool { return HcIsResultOf(v, r, 1) }
	excuse := HcUnionEdges(HcZeroEdgeOf("the bufPipe.Read count", isCount), HcNonNilEdgeOf("the bufPipe.Read error", isErr))
	c.HcPassThroughUnless(hcC10BodyRead, Calls(hcC10PipeRead), cliRefund, excuse)
	hcC10ArgIsResult(c, hcC10BodyRead, cliRefund, 1, Calls(hcC10PipeRead), 0)
	// a stored readErr short-circuits before the pipe is touched (nothing taken, nothing owed)
	c.Reject(hcC10BodyRead, Calls(hcC10PipeRead), "$r.cs.readErr != nil")
}

// hcC10ResultsSent: for every inflow.add call of fn, the result is written as a
// WINDOW_UPDATE increment on every path that a result==0 branch does not excuse.
func hcC10ResultsSent(c *Ctx, fnName string, floor int) {
	fn := c.MustFn(fnName)
	if fn == nil {
		return
	}
	adds := Calls(hcC10Add).F(c.P, fn)
	// the reviewed count is a count of (call, window) pairs: one call on a window chosen
	// by a preceding branch stands for one call per incoming window
	if n := len(HsArgLeaves(c.P, fn, Calls(hcC10Add), 0)); n < floor {
		c.Undecided("floor", fnName+": inflow.add calls", fmt.Sprintf("found %d, reviewed %d", n, floor))
	}
	c.ResultUsed(fnName, Calls(hcC10Add))
	perField := map[string]int{}
	for _, in := range adds {
		a := in.(*ssa.Call)
		var fields []string
		nConn := 0
		for _, l := range HsArgLeaves(c.P, fn, hcOnly("this add", in), 0) {
			f := HcRecvField(l.Val)
			if f == hcC10CliConnFld || f == hcC10SrvConnFld {
				nConn++
			}
			dup := false
			for _, g := range fields {
				dup = dup || g == f
			}
			if !dup {
				fields = append(fields, f)
			}
		}
		sort.Strings(fields)
		field := strings.Join(fields, "|")
		mixed := nConn > 0 && len(fields) > 1 // connection window on some paths, a stream window on others
		perField[field]++
		name := fmt.Sprintf("add on %s #%d", field, perField[field])
		carries := func(v ssa.Value) bool {
			v = HcUnwrap(v, "mustUint31")
			if v == ssa.Value(a) {
				return true
			}
			ph, ok := v.(*ssa.Phi)
			if !ok {
				return false
			}
			hit := false
			for _, e := range ph.Edges {
				switch x := e.(type) {
				case *ssa.Const:
					if x.Value != nil && x.Value.ExactString() != "0" {
						return false
					}
				case *ssa.Call:
					if CalleeName(&x.Call) != hcC10Add {
						return false
					}
					if x == a {
						hit = true
					}
				default:
					return false
				}
			}
			return hit
		}
		isConn := nConn > 0 && !mixed
		var sinks []ssa.Instruction
		bad := ""
		HcEachInstr(fn, func(x ssa.Instruction) {
			switch s := x.(type) {
			case *ssa.Call:
				if CalleeName(&s.Call) == hcC10WWU && carries(BaselineArgs(&s.Call)[2]) {
					sinks = append(sinks, x)
					id := Term(BaselineArgs(&s.Call)[1])
					if mixed {
						bad = "credit of a window chosen at run time is written directly with stream id " + id + "; which id goes with which window is not evaluated here"
					}
					if isConn && id != "0" {
						bad = "connection credit written on stream " + id
					}
					if !isConn && id == "0" {
						bad = "stream credit written on stream 0"
					}
				}
			case *ssa.Store:
				if fa, ok := s.Addr.(*ssa.FieldAddr); ok && HcRecvField(fa) == "http2.writeWindowUpdate.n" && carries(s.Val) {
					sinks = append(sinks, x)
				}
			}
		})
		construct := fmt.Sprintf("%s: result of [%s] is a WINDOW_UPDATE increment", fnName, name)
		if len(sinks) == 0 {
			c.Fail("result-sent", construct, a.Pos(), "no WriteWindowUpdate / writeWindowUpdate.n receives this result")
			continue
		}
		if bad != "" {
			c.Fail("result-sent", construct, a.Pos(), bad)
			continue
		}
		c.OK("result-sent", construct, fmt.Sprintf("%d sink(s)", len(sinks)))
		c.HcPassThroughUnless(fnName, hcOnly(name, in), hcOnly("WINDOW_UPDATE carrying it", sinks...), HcZeroEdgeOf("its result", carries))
	}
}

// hcC10ErrMeansZero: every return of fnName either has a zero count or passes on
// the results of the named interface call (via=="" : or has a nil error).
func hcC10ErrMeansZero(c *Ctx, fnName, via string) {
	rule := "error-implies-zero-count"
	construct := fnName + ": a non-nil error is returned with count 0"
	fn := c.MustFn(fnName)
	if fn == nil {
		return
	}
	// resolve a result through its local slot: all values ever stored there
	vals := func(v ssa.Value) []ssa.Value {
		if u, ok := v.(*ssa.UnOp); ok && u.Op == token.MUL {
			if a, ok := u.X.(*ssa.Alloc); ok {
				var out []ssa.Value
				for _, r := range *a.Referrers() {
					if st, ok := r.(*ssa.Store); ok && st.Addr == ssa.Value(a) {
						out = append(out, st.Val)
					}
				}
				return out
			}
		}
		return []ssa.Value{v}
	}
	n := 0
	for _, in := range HcNormalReturns().F(c.P, fn) {
		r := in.(*ssa.Return)
		if len(r.Results) != 2 {
			c.Undecided(rule, construct, "unexpected result count")
			return
		}
		errs := vals(r.Results[1])
		allNil := true
		for _, e := range errs {
			if k, ok := e.(*ssa.Const); !ok || k.Value != nil {
				allNil = false
			}
		}
		if allNil && via == "" {
			n++
			continue
		}
		for _, v := range vals(r.Results[0]) {
			n++
			if k, ok := v.(*ssa.Const); ok && Term(k) == "0" {
				continue
			}
			if e, ok := v.(*ssa.Extract); ok && via != "" && e.Index == 0 {
				if call, ok := e.Tuple.(*ssa.Call); ok && CalleeName(&call.Call) == via {
					continue
				}
			}
			c.Fail(rule, construct, InstrPos(in), "count "+Term(v)+" may accompany an error")
			return
		}
	}
	if n == 0 {
		c.Undecided(rule, construct, "no return inspected")
		return
	}
	c.OK(rule, construct, fmt.Sprintf("%d returned value(s)", n))
}

// hcC10NoDoubleRefund: the bytes closeStream returns to the connection window
// (p.Len()) must not be returned a second time when the handler reads them:
// either the pipe is broken (unread bytes dropped, BreakWithError), or
// noteBodyRead skips the connection-level refund for a closed stream.
func hcC10NoDoubleRefund(c *Ctx, closeStream string) {
	rule := "no-double-refund"
	construct := closeStream + ": bytes refunded at close are not refunded again when the handler reads them"
	fn := c.MustFn(closeStream)
	nbr := c.MustFn("(*http2.serverConn).noteBodyRead")
	if fn == nil || nbr == nil {
		return
	}
	refunds := Calls(hcC10SWU).ArgIs(1, "nil").ArgIs(2, "Len($0.body)").F(c.P, fn)
	if len(refunds) == 0 {
		c.Undecided(rule, construct, "no refund of the buffered bytes in closeStream")
		return
	}
	// (a) the body pipe is broken after the refund: buffered bytes become unreadable
	broken := len(Calls("(*http2.pipe).BreakWithError").ArgIs(0, "$0.body").F(c.P, fn)) > 0 &&
		len(Calls("(*http2.pipe).CloseWithError", "(*http2.pipe).closeWithErrorAndCode").ArgIs(0, "$0.body").F(c.P, fn)) == 0
	// (b) noteBodyRead does not return connection credit for a closed stream
	guarded := true
	conn := Calls(hcC10SWU).ArgIs(1, "nil").F(c.P, nbr)
	for _, in := range conn {
		if !c.HcFactsHold(in, "$0.state != 4") {
			guarded = false
		}
	}
	if broken || guarded && len(conn) > 0 {
		c.OK(rule, construct, fmt.Sprintf("broken=%v guarded=%v", broken, guarded))
		return
	}
	c.Fail(rule, construct, InstrPos(refunds[0]), "closeStream refunds pipe.Len() and then closes the pipe with CloseWithError, which leaves those bytes readable; a handler that reads them afterwards reaches noteBodyRead, whose sendWindowUpdate(nil, n) is unconditional: the same bytes are credited to the connection window twice")
}
