package props

import (
	"fmt"
	"go/token"
	"go/types"
	"sort"
	"strings"

	"golang.org/x/tools/go/ssa"

	. "verif/sa/core"
)

func init() {
	Register(&Property{
		ID:    "C48",
		Floor: 125,
		Clauses: "bpf assembler/disassembler agreement, decided by abstract evaluation of the SSA (opcode fixed, K/Jt/Jf unknown; enum-typed fields split over their exported constants): " +
			"every Instruction implementer except RawInstruction is returned by RawInstruction.Disassemble and vice versa; Disassemble never panics for any of the 2^16 opcodes; " +
			"per type, every opcode its Assemble can emit without error disassembles to that type, and every opcode Disassemble maps to the type is one its Assemble emits; " +
			"payload fields travel K<->field unchanged in both directions; jumpToRaw/jumpOpToTest agree for each JumpTest constant (condition, operand flip, Jt/Jf permutation) and form a bijection; " +
			"scratch-slot, register, load-size and JumpTest rejections in Assemble/assembleLoad/jumpToRaw; K>15 and extension-range tests in Disassemble; bpf.Assemble returns an element's error; bpf.Disassemble reports undecoded elements.",
		NotCovered: "round trip for field values outside the declared enumerators (e.g. ALUOpX{Op: 5}); non-canonical conditional jumps (SkipTrue==0 or a flipped test with SkipFalse!=0) and LoadAbsolute offsets in the extension range, which do not round-trip by design; " +
			"raw Jt/Jf/K bits that Disassemble ignores for types without such a field; the String methods.",
		Run: c48,
	})
}

// m1RetOfType selects returns whose first result is an interface made from the named concrete type.
func m1RetOfType(short string) Sel {
	return Returns().Where("result type "+short, func(in ssa.Instruction) bool {
		r := in.(*ssa.Return)
		if len(r.Results) == 0 {
			return false
		}
		mi, ok := r.Results[0].(*ssa.MakeInterface)
		return ok && Short(types.TypeString(mi.X.Type(), nil)) == short
	})
}

// m1ErrBranchOf selects the first instruction of the branch taken when the error
// result of a call to one of the named callees is non-nil.
func m1ErrBranchOf(callees ...string) Sel {
	return Sel{Name: "branch err!=nil of " + strings.Join(callees, "|"), F: func(p *Prog, fn *ssa.Function) []ssa.Instruction {
		calls := map[ssa.Value]bool{}
		for _, in := range Calls(callees...).F(p, fn) {
			calls[in.(ssa.Value)] = true
		}
		var out []ssa.Instruction
		for _, b := range fn.Blocks {
			if len(b.Instrs) == 0 {
				continue
			}
			ifi, ok := b.Instrs[len(b.Instrs)-1].(*ssa.If)
			if !ok {
				continue
			}
			bo, ok := ifi.Cond.(*ssa.BinOp)
			if !ok || bo.Op != token.NEQ && bo.Op != token.EQL {
				continue
			}
			isErrOf := func(v ssa.Value) bool {
				if calls[v] {
					return types.Identical(v.Type(), types.Universe.Lookup("error").Type())
				}
				ex, ok := v.(*ssa.Extract)
				return ok && calls[ex.Tuple] && types.Identical(ex.Type(), types.Universe.Lookup("error").Type())
			}
			isNil := func(v ssa.Value) bool { k, ok := v.(*ssa.Const); return ok && k.Value == nil }
			if !(isErrOf(bo.X) && isNil(bo.Y) || isErrOf(bo.Y) && isNil(bo.X)) {
				continue
			}
			succ := b.Succs[0]
			if bo.Op == token.EQL {
				succ = b.Succs[1]
			}
			if len(succ.Instrs) > 0 {
				out = append(out, succ.Instrs[0])
			}
		}
		return out
	}}
}

func m1TypeShort(t types.Type) string { return Short(types.TypeString(t, nil)) }

// m1EnumConsts lists the exported package-level constants of a named type, sorted by name.
func m1EnumConsts(p *Prog, t types.Type) []*types.Const {
	nt, ok := t.(*types.Named)
	if !ok || nt.Obj().Pkg() == nil {
		return nil
	}
	var out []*types.Const
	sc := nt.Obj().Pkg().Scope()
	for _, n := range sc.Names() {
		if c, ok := sc.Lookup(n).(*types.Const); ok && c.Exported() && types.Identical(c.Type(), t) {
			out = append(out, c)
		}
	}
	return out
}

func m1OpSetString(s map[int]bool) string {
	var ks []int
	for k := range s {
		ks = append(ks, k)
	}
	sort.Ints(ks)
	var parts []string
	for i, k := range ks {
		if i == 12 {
			parts = append(parts, fmt.Sprintf("… (%d total)", len(ks)))
			break
		}
		parts = append(parts, fmt.Sprintf("%#x", k))
	}
	return strings.Join(parts, ",")
}

func c48(c *Ctx) {
	const dis = "(bpf.RawInstruction).Disassemble"
	disFn := c.MustFn(dis)
	if disFn == nil {
		return
	}
	rawT := "bpf.RawInstruction"

	// ---- E7: implementers <-> types returned by Disassemble
	impl := map[string]bool{}
	for _, t := range c.P.Implementers("bpf.Instruction") {
		if t != rawT {
			impl[t] = true
		}
	}
	returned := map[string]bool{}
	for _, in := range Returns().F(c.P, disFn) {
		r := in.(*ssa.Return)
		seen := map[ssa.Value]bool{}
		var walk func(v ssa.Value)
		walk = func(v ssa.Value) {
			if seen[v] {
				return
			}
			seen[v] = true
			switch x := v.(type) {
			case *ssa.Phi:
				for _, e := range x.Edges {
					walk(e)
				}
			case *ssa.MakeInterface:
				returned[m1TypeShort(x.X.Type())] = true
			}
		}
		walk(r.Results[0])
	}
	if len(impl) < 10 {
		c.Undecided("implementers", "bpf.Instruction", fmt.Sprintf("only %d implementers found", len(impl)))
	}
	var types_ []string
	for t := range impl {
		types_ = append(types_, t)
	}
	sort.Strings(types_)
	for _, t := range types_ {
		c.Check(returned[t], "disassemble-produces", t, disFn.Pos(), "a return of Disassemble yields this type", "type has an Assemble method but no return of Disassemble produces it")
	}
	for t := range returned {
		if t != rawT && !impl[t] {
			c.Fail("disassemble-produces", "reverse "+t, disFn.Pos(), "Disassemble returns a type that does not implement Instruction with a value receiver")
		}
	}
	c.Check(returned[rawT], "disassemble-produces", "fallback "+rawT, disFn.Pos(), "unknown encodings are returned unchanged", "no return of the raw instruction")

	// ---- opcode sets by abstract evaluation
	disOps := map[string]map[int]bool{}
	payloadBad := map[string]string{}
	panics := 0
	var evalErr error
	for op := 0; op < 1<<16 && evalErr == nil; op++ {
		recv := M1Struct{F: []M1Val{M1Int{Bits: uint64(op)}, M1Sym{Name: "Jt"}, M1Sym{Name: "Jf"}, M1Sym{Name: "K"}}}
		outs, err := c.P.AbsRun(disFn, []M1Val{recv})
		if err != nil {
			evalErr = err
			break
		}
		for _, o := range outs {
			if o.Panic {
				panics++
				continue
			}
			if len(o.Results) != 1 {
				continue
			}
			ifc, ok := o.Results[0].(M1Iface)
			if !ok {
				evalErr = fmt.Errorf("opcode %#x: result is not a concrete instruction value", op)
				break
			}
			tn := m1TypeShort(ifc.T)
			if disOps[tn] == nil {
				disOps[tn] = map[int]bool{}
			}
			disOps[tn][op] = true
			// payload provenance: uint32/int fields named Val/Off/Skip/N carry K
			if st, ok := ifc.T.Underlying().(*types.Struct); ok && tn != rawT {
				sv, _ := ifc.V.(M1Struct)
				for i := 0; i < st.NumFields(); i++ {
					switch st.Field(i).Name() {
					case "Val", "Off", "Skip", "N":
						if sv.F == nil || i >= len(sv.F) || sv.F[i] != (M1Sym{Name: "K"}) {
							payloadBad[tn] = st.Field(i).Name()
						}
					}
				}
			}
		}
	}
	if evalErr != nil {
		c.Undecided("opcode-space", dis, "abstract evaluation abandoned: "+evalErr.Error())
		return
	}
	c.Stats["opcodes_evaluated"] = 1 << 16
	c.Check(panics == 0, "opcode-space", dis+": no opcode reaches panic", disFn.Pos(), "65536 opcodes, every path returns", fmt.Sprintf("%d path(s) reach a panic", panics))
	total := 0
	for _, s := range disOps {
		total += len(s)
	}
	c.Check(len(disOps[rawT]) > 0 && total >= 1<<16, "opcode-space", dis+": total function", disFn.Pos(), "every opcode yields a result", "some opcode yields no result")

	asmOps := map[string]map[int]bool{}
	for _, t := range types_ {
		fn := c.MustFn("(" + t + ").Assemble")
		if fn == nil {
			continue
		}
		obj := c.P.Object(t)
		st, ok := obj.Type().Underlying().(*types.Struct)
		if !ok {
			c.Undecided("assemble-opcodes", t, "not a struct type")
			continue
		}
		// enumerate enum-typed fields over their exported constants; other fields are opaque symbols
		recvs := []M1Struct{{F: make([]M1Val, st.NumFields())}}
		for i := 0; i < st.NumFields(); i++ {
			ft := st.Field(i).Type()
			cs := m1EnumConsts(c.P, ft)
			var alts []M1Val
			if len(cs) > 0 {
				for _, k := range cs {
					v, _ := c.P.ConstInt(Short(k.Pkg().Path()) + "." + k.Name())
					alts = append(alts, M1Norm(uint64(v), ft))
				}
			} else {
				alts = []M1Val{M1Sym{Name: st.Field(i).Name()}}
			}
			var next []M1Struct
			for _, r := range recvs {
				for _, a := range alts {
					f := append([]M1Val{}, r.F...)
					f[i] = a
					next = append(next, M1Struct{F: f})
				}
			}
			recvs = next
		}
		set := map[int]bool{}
		okPaths, bad := 0, ""
		for _, r := range recvs {
			outs, err := c.P.AbsRun(fn, []M1Val{r})
			if err != nil {
				bad = err.Error()
				break
			}
			for _, o := range outs {
				if o.Panic || len(o.Results) != 2 {
					bad = "path without (RawInstruction, error) result"
					continue
				}
				switch o.Results[1].(type) {
				case M1NonNil:
					continue
				case M1Nil:
				default:
					bad = "error result neither nil nor a constructed error"
					continue
				}
				raw, _ := o.Results[0].(M1Struct)
				if len(raw.F) != 4 {
					bad = "result is not a RawInstruction value"
					continue
				}
				opv, ok := raw.F[0].(M1Int)
				if !ok {
					bad = "opcode of an accepted value is not determined by the enumerated fields"
					continue
				}
				okPaths++
				set[int(opv.Bits)] = true
				// payload provenance towards K
				for i := 0; i < st.NumFields(); i++ {
					switch st.Field(i).Name() {
					case "Val", "Off", "Skip":
						if raw.F[3] != (M1Sym{Name: st.Field(i).Name()}) {
							payloadBad[t+" (Assemble)"] = st.Field(i).Name()
						}
					}
				}
			}
		}
		if bad != "" || okPaths == 0 {
			c.Undecided("assemble-opcodes", t, "cannot enumerate: "+bad)
			continue
		}
		asmOps[t] = set
		c.Stats["assemble_valuations"] += len(recvs)
	}
	high := map[string]int{}
	for _, t := range types_ {
		a, d := asmOps[t], disOps[t]
		if a == nil {
			continue
		}
		miss := map[int]bool{}
		for op := range a {
			if !d[op] {
				miss[op] = true
			}
		}
		c.Check(len(miss) == 0, "assembled-opcodes-disassemble-to-type", t, c.P.Fn("("+t+").Assemble").Pos(),
			fmt.Sprintf("%d opcode(s) {%s}", len(a), m1OpSetString(a)),
			fmt.Sprintf("Assemble emits opcode(s) {%s} that Disassemble does not map back to %s", m1OpSetString(miss), t))
		extra := map[int]bool{}
		for op := range d {
			if !a[op] && op <= 0xff {
				extra[op] = true
			}
			if op > 0xff {
				high[t]++
			}
		}
		c.Check(len(extra) == 0, "disassembled-opcodes-reassemble", t, disFn.Pos(),
			fmt.Sprintf("opcodes <= 0xff mapped to the type: all among the %d emitted by its Assemble", len(a)),
			fmt.Sprintf("Disassemble maps opcode(s) {%s} to %s but %s.Assemble only emits {%s}: re-assembling does not reproduce the raw instruction", m1OpSetString(extra), t, t, m1OpSetString(a)))
	}
	{
		var ts []string
		n := 0
		for t, k := range high {
			ts = append(ts, t)
			n += k
		}
		sort.Strings(ts)
		c.Check(n == 0, "disassembled-opcodes-reassemble", "opcodes above 0xff stay raw", disFn.Pos(),
			"no opcode with bits 8..15 set is mapped to a typed instruction",
			fmt.Sprintf("%d opcodes with bits 8..15 set are mapped to typed instructions (%s) although no Assemble emits such an opcode: e.g. RawInstruction{Op: 0x100} -> LoadConstant -> Op 0x0", n, strings.Join(ts, ", ")))
	}
	// payload provenance
	for _, t := range types_ {
		obj := c.P.Object(t)
		st, ok := obj.Type().Underlying().(*types.Struct)
		if !ok {
			continue
		}
		has := false
		for i := 0; i < st.NumFields(); i++ {
			switch st.Field(i).Name() {
			case "Val", "Off", "Skip", "N":
				has = true
			}
		}
		if !has {
			continue
		}
		f, bad := payloadBad[t]
		c.Check(!bad, "payload-from-K", t, disFn.Pos(), "Disassemble fills the payload field from K unchanged", "field "+f+" is not K on some path")
		if t == "bpf.LoadScratch" || t == "bpf.StoreScratch" {
			continue // N is range-checked and narrowed; guarded below
		}
		f, bad = payloadBad[t+" (Assemble)"]
		c.Check(!bad, "K-from-payload", t, c.P.Fn("("+t+").Assemble").Pos(), "Assemble stores the payload field in K unchanged", "K is not field "+f+" on some accepted path")
	}
	c.Has("(bpf.LoadScratch).Assemble", Calls("bpf.assembleLoad").ArgIs(3, "$r.N"))
	c.Has("(bpf.StoreScratch).Assemble", Stores("bpf.RawInstruction.K").StoredIs("$r.N"))

	// ---- conditional-jump table agreement
	c48jumps(c)

	// ---- argument guards (E1)
	al := "bpf.assembleLoad"
	c.Reject("(bpf.LoadScratch).Assemble", Calls(al), "$r.N > 15")
	c.Reject("(bpf.LoadScratch).Assemble", Calls(al), "$r.N < 0")
	c.Reject("(bpf.StoreScratch).Assemble", RetOK(), "$r.N > 15")
	c.Reject("(bpf.StoreScratch).Assemble", RetOK(), "$r.N < 0")
	c.Reject("(bpf.StoreScratch).Assemble", RetOK(), "$r.Src != 0", "$r.Src != 1")
	c.Reject(al, RetOK(), "$0 != 0", "$0 != 1")
	c.Reject(al, RetOK(), "$1 != 1", "$1 != 2", "$1 != 4")
	c.Has(al, Stores("bpf.RawInstruction.K").StoredIs("$3"))
	// Disassemble: slots above 15 and the extension window stay raw / become extensions
	c.Reject(dis, m1RetOfType("bpf.LoadScratch"), "$r.K > 15")
	c.Reject(dis, m1RetOfType("bpf.StoreScratch"), "$r.K > 15")
	c.Count(dis, m1RetOfType("bpf.StoreScratch"), 2, 2)
	c.Reject(dis, m1RetOfType("bpf.LoadAbsolute"), "$r.K > 4294963199")
	if v, ok := c.P.ConstInt("bpf.extOffset"); ok {
		c.Check(v == -0x1000, "constant", "bpf.extOffset == -0x1000", token.NoPos, "extension window is the top 4096 offsets", fmt.Sprintf("extOffset is %d", v))
	} else {
		c.Undecided("constant", "bpf.extOffset", "constant not found")
	}
	// slice-level wrappers
	c.NeverAfter("bpf.Assemble", m1ErrBranchOf(".Assemble"), RetOK(), true)
	c.Has("bpf.Assemble", Calls(".Assemble"))
	c.Has("bpf.Disassemble", Calls(dis))
}

// c48jumps checks jumpToRaw against jumpOpToTest for every JumpTest constant.
func c48jumps(c *Ctx) {
	j2r := c.MustFn("bpf.jumpToRaw")
	o2t := c.MustFn("bpf.jumpOpToTest")
	if j2r == nil || o2t == nil {
		return
	}
	maskOperator, ok1 := c.P.ConstInt("bpf.opMaskOperator")
	maskOperand, ok2 := c.P.ConstInt("bpf.opMaskOperand")
	cls, ok3 := c.P.ConstInt("bpf.opClsJump")
	if !ok1 || !ok2 || !ok3 {
		c.Undecided("jump-table", "constants", "opMaskOperator/opMaskOperand/opClsJump not found")
		return
	}
	tests := c.P.ConstsOfType("bpf.JumpTest")
	if len(tests) < 8 {
		c.Undecided("jump-table", "bpf.JumpTest", fmt.Sprintf("only %d constants", len(tests)))
		return
	}
	var names []string
	for n := range tests {
		names = append(names, n)
	}
	sort.Strings(names)
	symT, symF, symK := M1Sym{Name: "skipTrue"}, M1Sym{Name: "skipFalse"}, M1Sym{Name: "k"}
	seenEnc := map[string]string{}
	for _, n := range names {
		tv, _ := c.P.ConstInt("bpf." + n)
		construct := "bpf." + n
		for _, operand := range []int64{0, maskOperand} {
			outs, err := c.P.AbsRun(j2r, []M1Val{M1Int{Bits: uint64(tv)}, M1Int{Bits: uint64(operand)}, symK, symT, symF})
			if err != nil || len(outs) != 1 || outs[0].Panic || len(outs[0].Results) != 2 {
				c.Undecided("jump-table", construct, "jumpToRaw is not a single-path function of the test")
				return
			}
			if _, isNil := outs[0].Results[1].(M1Nil); !isNil {
				c.Fail("jump-table", construct, j2r.Pos(), "jumpToRaw rejects a declared JumpTest constant")
				return
			}
			raw, _ := outs[0].Results[0].(M1Struct)
			if len(raw.F) != 4 {
				c.Undecided("jump-table", construct, "jumpToRaw result is not a RawInstruction")
				return
			}
			opv, isInt := raw.F[0].(M1Int)
			if !isInt {
				c.Undecided("jump-table", construct, "opcode not constant")
				return
			}
			op := int64(opv.Bits)
			flip := raw.F[1] == symF && raw.F[2] == symT
			straight := raw.F[1] == symT && raw.F[2] == symF
			if !c.Check(flip || straight, "jump-table", fmt.Sprintf("%s operand=%d: Jt/Jf are a permutation of SkipTrue/SkipFalse", construct, operand), j2r.Pos(), fmt.Sprintf("flip=%v", flip), "Jt/Jf are not the two skip arguments") {
				continue
			}
			c.Check(op&7 == cls && op&maskOperand == operand && raw.F[3] == symK, "jump-table", fmt.Sprintf("%s operand=%d: class, operand bit and K", construct, operand), j2r.Pos(),
				fmt.Sprintf("opcode %#x", op), fmt.Sprintf("opcode %#x does not carry the jump class/operand bit, or K is not the k argument", op))
			if operand != 0 {
				continue
			}
			// decode side: both shapes of jumpOpToTest for this operator
			jt, jf := M1Sym{Name: "jt"}, M1Sym{Name: "jf"}
			douts, err := c.P.AbsRun(o2t, []M1Val{M1Int{Bits: uint64(op & maskOperator)}, jt, jf})
			if err != nil {
				c.Undecided("jump-table", construct, "jumpOpToTest: "+err.Error())
				continue
			}
			var gotStraight, gotFlip []int64
			for _, o := range douts {
				if o.Panic || len(o.Results) != 3 {
					continue
				}
				t, isInt := o.Results[0].(M1Int)
				if !isInt {
					continue
				}
				switch {
				case o.Results[1] == jt && o.Results[2] == jf:
					gotStraight = append(gotStraight, int64(t.Bits))
				case o.Results[1] == jf && o.Results[2] == (M1Int{Bits: 0}):
					gotFlip = append(gotFlip, int64(t.Bits))
				}
			}
			want := gotStraight
			shape := "Jt!=0 (skips kept)"
			if flip {
				want, shape = gotFlip, "Jt==0 (skipFalse becomes SkipTrue)"
			}
			c.Check(len(want) == 1 && want[0] == tv, "jump-table", construct+": jumpOpToTest inverts jumpToRaw", o2t.Pos(),
				fmt.Sprintf("operator %#x, %s", op&maskOperator, shape),
				fmt.Sprintf("operator %#x decodes (%s) to test value(s) %v, want %d", op&maskOperator, shape, want, tv))
			key := fmt.Sprintf("%#x/%v", op&maskOperator, flip)
			if prev, dup := seenEnc[key]; dup {
				c.Fail("jump-table", construct+": distinct encoding", j2r.Pos(), "same (operator, flip) as "+prev)
			} else {
				seenEnc[key] = n
			}
		}
	}
	c.Check(len(seenEnc) == len(names), "jump-table", "bijection JumpTest <-> (operator, flip)", j2r.Pos(), fmt.Sprintf("%d encodings", len(seenEnc)), "encodings collide")
	c.Reject("bpf.jumpToRaw", RetOK(), "$0 != 0", "$0 != 1", "$0 != 2", "$0 != 3", "$0 != 4", "$0 != 5", "$0 != 6", "$0 != 7")
}
