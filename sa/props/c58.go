package props

import (
	"fmt"
	"sort"
	"strings"

	"golang.org/x/tools/go/ssa"

	. "verif/sa/core"
)

func init() {
	Register(&Property{
		ID:    "C58",
		Floor: 40,
		Clauses: "netutil.LimitListener: sem is made with capacity n and done unbuffered, both written only by the constructor; program-wide the only send on sem is the select case in acquire, " +
			"the only receive from sem is the single one in release, sem is never closed and done is closed only inside the closure handed to closeOnce.Do; acquire is one blocking select over {<-done, sem<-} returning true exactly on the send case; " +
			"Accept: a connection is returned only after acquire()==true and never after release; every other return after a successful acquire passes exactly one release; the not-acquired path never returns a connection, never releases and closes each spurious connection before accepting again; " +
			"the returned value is a *limitListenerConn wrapping the accepted conn whose release field is the listener's own release method; that field is written only in Accept and used only as the argument of releaseOnce.Do, " +
			"which limitListenerConn.Close executes once on every path; Listener.Close runs closeOnce.Do on every path; acquire/release are referenced only from Accept.",
		NotCovered: "the arithmetic over concurrent histories itself (that these facts imply at most n open connections), sync.Once and channel semantics, behaviour of the wrapped Listener, fairness/liveness of blocked Accept calls.",
		Run:        c58,
	})
}

func c58(c *Ctx) {
	const L = "(*netutil.limitListener)."
	const LC = "(*netutil.limitListenerConn)."
	const sem = "netutil.limitListener.sem"
	const done = "netutil.limitListener.done"
	const relF = "netutil.limitListenerConn.release"

	// constructor
	c.Has("netutil.LimitListener", Stores(sem).StoredIs("makechan($1)"))
	c.Has("netutil.LimitListener", Stores(done).StoredIs("makechan(0)"))
	c.Has("netutil.LimitListener", Stores("netutil.limitListener.Listener").StoredIs("$0"))
	c.Writers(sem, "netutil.LimitListener")
	c.Writers(done, "netutil.LimitListener")

	// channel operations, program-wide
	ops := map[string][]string{} // "kind field" -> functions
	var acqSel []ChanOp
	for _, fn := range c.P.All {
		if !strings.HasPrefix(FnName(fn), "netutil.") && !strings.Contains(FnName(fn), "netutil.") {
			continue
		}
		for _, op := range ChanOps(fn) {
			f := op.ChanField()
			key := op.Kind + " " + f
			ops[key] = append(ops[key], FnName(fn))
			if FnName(fn) == L+"acquire" && strings.HasPrefix(op.Kind, "select") {
				acqSel = append(acqSel, op)
			}
		}
	}
	expect := func(key string, want ...string) {
		got := ops[key]
		sort.Strings(got)
		c.Check(strings.Join(got, ",") == strings.Join(want, ","), "chan-ops", "netutil: ["+key+"] occurs exactly in {"+strings.Join(want, ",")+"}", 0,
			fmt.Sprintf("%d site(s)", len(got)), "found in {"+strings.Join(got, ",")+"}")
	}
	expect("select-send "+sem, L+"acquire")
	expect("send " + sem)
	expect("recv "+sem, L+"release")
	expect("select-recv " + sem)
	expect("close " + sem)
	expect("close "+done, L+"Close$1")
	expect("select-recv "+done, L+"acquire")
	expect("send " + done)
	expect("select-send " + done)
	known := map[string]bool{}
	for _, k := range []string{"select-send " + sem, "recv " + sem, "close " + done, "select-recv " + done} {
		known[k] = true
	}
	var other []string
	for k, fns := range ops {
		// operations on other channels matter only inside the listener's own methods (aliases of sem/done)
		for _, f := range fns {
			if !known[k] && strings.Contains(f, "netutil.limitListener") {
				other = append(other, k+" in "+f)
			}
		}
	}
	sort.Strings(other)
	c.Check(len(other) == 0, "chan-ops", "netutil: limitListener/limitListenerConn methods perform no other channel operation", 0, "", "unexpected: "+strings.Join(other, "; "))

	// acquire: one blocking select; true exactly on the send case
	if fn := c.MustFn(L + "acquire"); fn != nil {
		sendIdx, recvIdx := -1, -1
		blocking := len(acqSel) == 2
		for _, op := range acqSel {
			blocking = blocking && op.Block && op.In == acqSel[0].In
			if op.Kind == "select-send" && op.ChanField() == sem && strings.HasPrefix(op.Chan, "$r.") {
				sendIdx = op.Index
			}
			if op.Kind == "select-recv" && op.ChanField() == done && strings.HasPrefix(op.Chan, "$r.") {
				recvIdx = op.Index
			}
		}
		c.Check(blocking && sendIdx >= 0 && recvIdx >= 0, "chan-ops", L+"acquire: one blocking select over {<-$r.done, $r.sem<-}", fn.Pos(),
			"", fmt.Sprintf("%d select states, blocking=%v, send index %d, recv index %d", len(acqSel), blocking, sendIdx, recvIdx))
		if sendIdx >= 0 && recvIdx >= 0 {
			c.Guard(L+"acquire", RetConst(0, "true"), fmt.Sprintf("select#0 == %d", sendIdx))
			c.Guard(L+"acquire", RetConst(0, "false"), fmt.Sprintf("select#0 == %d", recvIdx))
		}
		c.Check(len(Returns().F(c.P, fn)) == len(RetConst(0, "true").F(c.P, fn))+len(RetConst(0, "false").F(c.P, fn)), "return-shape", L+"acquire: every return is a constant", fn.Pos(), "", "a return yields a non-constant")
	}
	// release: exactly one receive on every path
	c.CountOnPaths(L+"release", InstrsWhere("<-$r.sem", func(in ssa.Instruction) bool {
		for _, op := range ChanOps(in.Parent()) {
			if op.In == in && op.Kind == "recv" && op.ChanField() == sem && strings.HasPrefix(op.Chan, "$r.") {
				return true
			}
		}
		return false
	}), 1)

	// Accept
	acc := L + "Accept"
	rel := Calls(L + "release")
	c.Guard(acc, RetOK(), "acquire($r)")
	c.NeverAfter(acc, rel, RetOK(), false)
	c.NeverAfter(acc, rel, rel, false)
	c.PassThroughIncl(acc, c.Edge("acquire($r)"), Union(rel, RetOK()))
	c.NeverAfter(acc, c.Edge("!acquire($r)"), Union(RetOK(), rel), true)
	c.Guard(acc, rel, "acquire($r)")
	spurious := c.UnderFact(c.Edge(".Accept($r.Listener)#1 == nil"), "acquire($r)", false)
	c.BetweenVia(acc, spurious, Calls(".Accept"), Calls(".Close").RecvIs(".Accept($r.Listener)#0"), true)
	c.Has(acc, Calls(L+"release").ArgIs(0, "$r"))
	c.Has(acc, Calls(L+"acquire").ArgIs(0, "$r"))
	c.Has(acc, RetOK().Where("of a *limitListenerConn", func(in ssa.Instruction) bool {
		return strings.HasSuffix(StripConv(in.(*ssa.Return).Results[0]).Type().String(), "netutil.limitListenerConn")
	}))
	c.Count(acc, RetOK(), 1, 1)
	c.Has(acc, Stores("netutil.limitListenerConn.Conn").StoredIs(".Accept($r.Listener)#0"))
	c.Has(acc, Stores(relF).Where("with the receiver's own release method", func(in ssa.Instruction) bool {
		m, recv, ok := BoundMethod(in.(*ssa.Store).Val)
		return ok && m == L+"release" && Term(recv) == "$r"
	}))
	c.Count(acc, Stores(relF), 1, 1)
	c.Writers(relF, acc)
	c.Callers(L+"acquire", acc)
	c.Callers(L+"release", acc)

	// limitListenerConn.release is used only as the argument of releaseOnce.Do on the same conn
	uses := c.P.FieldLoadUses(relF)
	okUses := len(uses) > 0
	why := "no use of the release field"
	for _, u := range uses {
		call, isCall := u.(*ssa.Call)
		if !isCall || CalleeName(&call.Call) != "(*sync.Once).Do" || FieldQ(BaselineArgs(&call.Call)[0]) != "netutil.limitListenerConn.releaseOnce" ||
			LoadedField(BaselineArgs(&call.Call)[1]) != relF ||
			BaselineArgs(&call.Call)[0].(*ssa.FieldAddr).X != BaselineArgs(&call.Call)[1].(*ssa.UnOp).X.(*ssa.FieldAddr).X {
			okUses = false
			why = "used by `" + DescribeInstr(u) + "` in " + FnName(u.Parent())
		}
	}
	c.Check(okUses, "callers", "netutil.limitListenerConn.release is only ever passed to the same conn's releaseOnce.Do", 0, fmt.Sprintf("%d use(s)", len(uses)), why)
	for _, f := range []string{"netutil.limitListenerConn.releaseOnce", "netutil.limitListener.closeOnce"} {
		us := c.P.FieldAddrUses(f)
		ok := len(us) > 0
		w := "no use"
		for _, u := range us {
			call, isCall := u.(*ssa.Call)
			if !isCall || CalleeName(&call.Call) != "(*sync.Once).Do" || FieldQ(BaselineArgs(&call.Call)[0]) != f {
				ok = false
				w = "used by `" + DescribeInstr(u) + "` in " + FnName(u.Parent())
			}
		}
		c.Check(ok, "callers", f+" is only the receiver of Once.Do", 0, fmt.Sprintf("%d use(s)", len(us)), w)
	}
	doRel := Calls("(*sync.Once).Do").ArgIs(0, "&$r.releaseOnce").ArgIs(1, "$r.release")
	c.CountOnPaths(LC+"Close", doRel, 1)
	c.Has(LC+"Close", Calls(".Close").RecvIs("$r.Conn"))

	// Listener.Close: done closed through closeOnce on every path
	doClose := Calls("(*sync.Once).Do").ArgIs(0, "&$r.closeOnce").Where("with the closure closing done", func(in ssa.Instruction) bool {
		mc, ok := BaselineArgs(&in.(*ssa.Call).Call)[1].(*ssa.MakeClosure)
		return ok && FnName(mc.Fn.(*ssa.Function)) == L+"Close$1"
	})
	c.CountOnPaths(L+"Close", doClose, 1)
	c.Callers(L+"Close$1", L+"Close")
	c.Has(L+"Close", Calls(".Close").RecvIs("$r.Listener"))
}
