package props

import (
	"fmt"
	"strings"

	. "verif/sa/core"

	"golang.org/x/tools/go/ssa"
)

func init() {
	Register(&Property{
		ID:    "C09",
		Floor: 37,
		Clauses: "Transport DATA frames are written hcOnly by writeRequestBody (and the server's writeData); every non-empty payload is remain[:k] with k the token count returned by a fresh awaitFlowControl call whose error was tested nil; " +
			"awaitFlowControl: the count handed to cs.flow.take and returned is bounded, through guarded merges, by flow.available(), by maxBytes and by cc.maxFrameSize, is taken hcOnly under available()>0 with cc.mu held, and after cond.Wait the window is re-read before it is used; " +
			"outflow: n written hcOnly by take/add, take panics above available() and decrements the stream and (when linked) the connection window by the same amount, available() is min(stream, conn), every client stream is linked to cc.flow and starts at the peer's initial window; " +
			"wake-ups: cond.Broadcast after every successful flow.add in processWindowUpdate and after the SETTINGS_INITIAL_WINDOW_SIZE adjustment (delta = new − old, rejected above 2^31-1, new value stored); cc.maxFrameSize written hcOnly at set-up (16384) and from SETTINGS_MAX_FRAME_SIZE; flow fields touched under cc.mu.",
		NotCovered: "liveness beyond the presence of the wake-up calls; the arithmetic of outflow.add overflow detection; that bytes in the slice are the request body (hcOnly its length/window relation is decided); races on cc.maxFrameSize between SETTINGS and a frame already cut; server-side DATA (C08).",
		Run:        c09,
	})
}

func c09(c *Ctx) {
	const (
		wrb      = "(*http2.clientStream).writeRequestBody"
		afc      = "(*http2.clientStream).awaitFlowControl"
		wd       = "(*http2.Framer).WriteData"
		oTake    = "(*http2.outflow).take"
		oAdd     = "(*http2.outflow).add"
		oAvail   = "(*http2.outflow).available"
		setConn  = "(*http2.outflow).setConnFlow"
		addStrm  = "(*http2.ClientConn).addStreamLocked"
		pwu      = "(*http2.clientConnReadLoop).processWindowUpdate"
		psnw     = "(*http2.clientConnReadLoop).processSettingsNoWrite"
		psnwEach = psnw + "$1"
		lock     = "(*sync.Mutex).Lock"
		unlock   = "(*sync.Mutex).Unlock"
		wait     = "(*sync.Cond).Wait"
		bcast    = "(*sync.Cond).Broadcast"
	)
	// ---- who writes DATA ---------------------------------------------------
	c.Callers(wd, wrb, "(*http2.writeData).writeFrame")
	c.Callers("(*http2.Framer).WriteDataPadded", wd)
	c.Callers(afc, wrb)
	payload := Calls(wd).Where("non-nil payload", func(in ssa.Instruction) bool { return Term(HcCallArg(in, 3)) != "nil" })
	hcC09PayloadSliced(c, wrb, afc, payload)
	c.HcNoPathWithout(wrb, payload, payload, Calls(afc)) // one awaitFlowControl per frame
	c.Count(wrb, Calls(wd), 2, 2)                        // the reviewed sites: body chunk and empty END_STREAM

	// ---- awaitFlowControl --------------------------------------------------
	tk := hcRecvIs(Calls(oTake), 0, "http2.clientStream.flow")
	c.Count(afc, Calls(oTake), 1, 1)
	c.Count(afc, tk, 1, 1)
	c.Guard(afc, tk, "available(&$r.flow) > 0")
	taken := func(fn *ssa.Function) []ssa.Value {
		var out []ssa.Value
		for _, in := range tk.F(c.P, fn) {
			out = append(out, HcCallArg(in, 1))
		}
		return out
	}
	c.HcClampedBy(afc, "tokens taken", taken, nil, "available(&$r.flow)", "$0", "$r.cc.maxFrameSize")
	hcC09ReturnsTaken(c, afc, tk)
	c.HeldAt(afc, Calls(oTake, oAvail), "$r.cc.mu", []string{lock}, []string{unlock})
	c.HcNoPathWithout(afc, Calls(wait), tk, Calls(oAvail))
	c.Has(afc, Calls(wait).ArgIs(0, "$r.cc.cond"))

	// ---- outflow -------------------------------------------------------------
	stN := Stores("http2.outflow.n")
	c.Writers("http2.outflow.n", oTake, oAdd)
	c.Writers("http2.outflow.conn", setConn, "(*http2.serverConn).newStream")
	c.Reject(oTake, stN, "$0 > available($r)")
	hcC10Lin(c, oTake, "values stored to n", hcStoredVals(c, stN), "$r.n-$0", "$r.conn.n-$0")
	c.PassThroughIncl(oTake, c.Edge("$r.conn != nil"), stN.StoredIs("($r.conn.n-$0)"))
	ret0 := func(fn *ssa.Function) []ssa.Value {
		var out []ssa.Value
		for _, in := range Returns().F(c.P, fn) {
			out = append(out, in.(*ssa.Return).Results[0])
		}
		return out
	}
	c.HcClampedBy(oAvail, "result", ret0, nil, "$r.n")
	c.HcClampedBy(oAvail, "result", ret0, []string{"$r.conn != nil"}, "$r.conn.n")
	c.Callers(setConn, addStrm)
	c.Has(addStrm, Calls(setConn).ArgIs(0, "&$0.flow").ArgIs(1, "&$r.flow"))
	c.Has(addStrm, Calls(oAdd).ArgIs(0, "&$0.flow").ArgIs(1, "$r.initialWindowSize"))

	// ---- the server extends the window ----------------------------------------
	adds := Calls(oAdd)
	c.HcPassThroughUnless(pwu, adds, Calls(bcast).ArgIs(0, "$r.cc.cond"), HcFailEdgeOf(adds))
	c.Has(pwu, adds.ArgIs(1, "$0.Increment"))
	c.HeldAt(pwu, adds, "$r.cc.mu", []string{lock}, []string{unlock})
	c.HeldAt(psnw, Calls("(*http2.SettingsFrame).ForeachSetting"), "$r.cc.mu", []string{lock}, []string{unlock})
	c.CallAfter(psnwEach, adds, bcast)
	c.Reject(psnwEach, adds, "$0.Val > 2147483647")
	hcC09Delta(c, psnwEach, adds)
	stIWS := Stores("http2.ClientConn.initialWindowSize")
	c.Guard(psnwEach, Union(adds, stIWS), "$0.ID == 4")
	c.Has(psnwEach, stIWS.StoredIs("$0.Val"))
	c.Writers("http2.ClientConn.initialWindowSize", "(*http2.Transport).newClientConn", psnw)

	// ---- SETTINGS_MAX_FRAME_SIZE ------------------------------------------------
	stMFS := Stores("http2.ClientConn.maxFrameSize")
	c.Writers("http2.ClientConn.maxFrameSize", "(*http2.Transport).newClientConn", psnw)
	c.Guard(psnwEach, stMFS, "$0.ID == 5")
	c.Has(psnwEach, stMFS.StoredIs("$0.Val"))
	c.Has("(*http2.Transport).newClientConn", stMFS.StoredIs("16384"))
}

// hcC09PayloadSliced: every non-nil DATA payload is x[:k] with k the count
// returned by the awaitFlowControl call, under "its error was nil".
func hcC09PayloadSliced(c *Ctx, fnName, afc string, payload Sel) {
	rule := "payload-sliced-by-tokens"
	construct := fnName + ": DATA payload is remain[:awaitFlowControl()] after err == nil"
	fn := c.MustFn(fnName)
	if fn == nil {
		return
	}
	calls := Calls(afc).F(c.P, fn)
	sites := payload.F(c.P, fn)
	if len(calls) != 1 || len(sites) == 0 {
		c.Undecided(rule, construct, fmt.Sprintf("%d awaitFlowControl call(s), %d payload site(s)", len(calls), len(sites)))
		return
	}
	call := calls[0].(*ssa.Call)
	for _, in := range sites {
		sl, ok := HcCallArg(in, 3).(*ssa.Slice)
		if !ok {
			c.Fail(rule, construct, InstrPos(in), "payload `"+Term(HcCallArg(in, 3))+"` is not a slice expression")
			return
		}
		if sl.Low != nil && Term(sl.Low) != "0" || sl.Max != nil {
			c.Fail(rule, construct, InstrPos(in), "payload slice has a lower bound or capacity bound: "+Term(sl))
			return
		}
		if sl.High == nil || !HcIsResultOf(sl.High, call, 0) {
			c.Fail(rule, construct, InstrPos(in), "upper bound of `"+Term(sl)+"` is not the awaitFlowControl count")
			return
		}
		if !HcDominated(call, in) {
			c.Fail(rule, construct, InstrPos(in), "awaitFlowControl does not precede the write on every path")
			return
		}
		checked := false
		for _, f := range FactsAtInstr(in) {
			bo, ok := f.If.Cond.(*ssa.BinOp)
			if !ok {
				continue
			}
			if (HcIsResultOf(bo.X, call, 1) || HcIsResultOf(bo.Y, call, 1)) && f.Atom.Kind == EQ {
				checked = true
			}
		}
		if !checked {
			c.Fail(rule, construct, InstrPos(in), "the write is not under `awaitFlowControl error == nil`")
			return
		}
	}
	c.OK(rule, construct, fmt.Sprintf("%d site(s)", len(sites)))
}

// hcC09ReturnsTaken: every return of awaitFlowControl yields 0 or exactly the
// amount passed to cs.flow.take earlier on the path.
func hcC09ReturnsTaken(c *Ctx, fnName string, tk Sel) {
	rule := "returns-what-was-taken"
	construct := fnName + ": returned count is 0 or the amount passed to cs.flow.take"
	fn := c.MustFn(fnName)
	if fn == nil {
		return
	}
	takes := tk.F(c.P, fn)
	if len(takes) != 1 {
		c.Undecided(rule, construct, "expected one take")
		return
	}
	amount := HcCallArg(takes[0], 1)
	n, nz := 0, 0
	for _, in := range HcNormalReturns().F(c.P, fn) {
		r := in.(*ssa.Return)
		v := r.Results[0]
		// named result kept in a slot: the value is the last store in the returning block
		if ld, ok := v.(*ssa.UnOp); ok {
			if a, ok := ld.X.(*ssa.Alloc); ok {
				v = nil
				for _, x := range in.Block().Instrs {
					if st, ok := x.(*ssa.Store); ok && st.Addr == ssa.Value(a) {
						v = st.Val
					}
				}
				if v == nil {
					c.Fail(rule, construct, InstrPos(in), "returned count is not assigned in the returning block")
					return
				}
			}
		}
		n++
		if Term(v) == "0" {
			continue
		}
		nz++
		if HcUnwrap(v) != HcUnwrap(amount) || !HcDominated(takes[0], in) {
			c.Fail(rule, construct, InstrPos(in), fmt.Sprintf("returns %s, took %s", Term(v), Term(amount)))
			return
		}
	}
	if nz == 0 {
		c.Fail(rule, construct, fn.Pos(), "no return hands out tokens")
		return
	}
	c.OK(rule, construct, fmt.Sprintf("%d return(s), %d with tokens", n, nz))
}

// hcC09Delta: SETTINGS_INITIAL_WINDOW_SIZE adds (new value − old initial window) to every stream.
func hcC09Delta(c *Ctx, fnName string, adds Sel) {
	rule := "linear-form"
	construct := fnName + ": window adjustment = Setting.Val − cc.initialWindowSize"
	fn := c.MustFn(fnName)
	if fn == nil {
		return
	}
	sites := adds.F(c.P, fn)
	if len(sites) == 0 {
		c.Undecided(rule, construct, "no flow.add in the settings callback")
		return
	}
	for _, in := range sites {
		l := Linearize(HcCallArg(in, 1))
		ok := l.K == 0 && len(l.Coef) == 2 && l.Coef["$0.Val"] == 1
		for t, k := range l.Coef {
			if t != "$0.Val" && !(k == -1 && strings.HasSuffix(t, ".initialWindowSize")) {
				ok = false
			}
		}
		if !ok {
			c.Fail(rule, construct, InstrPos(in), "adjustment is "+l.String())
			return
		}
	}
	c.OK(rule, construct, fmt.Sprintf("%d site(s)", len(sites)))
}
