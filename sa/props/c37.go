package props

import (
	"fmt"
	"go/token"
	"sort"
	"strings"

	"golang.org/x/tools/go/ssa"

	. "verif/sa/core"
)

func init() {
	Register(&Property{
		ID:    "C37",
		Floor: 128,
		Clauses: "dnsmessage parsing safety as structure: reviewed panic-site inventory from Message.Unpack, every exported Parser method and the skip functions (compiler-unproven index sites only in the wire primitives, Name.unpack, skipName, OPT and SVCB unpackers), " +
			"each message index/slice in those primitives dominated by a length test on the same offset; Name.unpack rejection inventory: offset >= len(msg), label end > len(msg), '.' inside a label, accumulated length + label >= nonEncodedNameMax before the label is appended, " +
			"missing pointer byte, more than 10 pointers (no further message access and no success afterwards), reserved 0x40/0x80 prefixes; Name.Length is the length of the assembled name; " +
			"skip/unpack agreement: skipUint16/unpackUint16 and skipUint32/unpackUint32 test and advance by the same width, skipType/skipClass and unpackType/unpackClass delegate to the uint16 pair, skipResource applies the primitive sequence of ResourceHeader.unpack and then " +
			"advances by the length under newOff > len(msg), SkipQuestion applies the sequence of Question, Parser.skipResource's fast path advances by resHeaderLength like every Parser.XResource and refuses newOff > len(msg), skipName mirrors Name.unpack's tests except for pointers; " +
			"section ordering: checkAdvance refuses section < sec and section > sec and advances the section when index == count, every parse/skip path tests checkAdvance before touching the message and bumps index before succeeding, " +
			"the exported methods pass their own section constant, Start unpacks the header before enabling questions, Unpack runs Start, AllQuestions, AllAnswers, AllAuthorities, AllAdditionals in that order testing each error; " +
			"no make sized by a wire-read value wider than 16 bits.",
		NotCovered: "agreement of the values decoded by Parser and Message.Unpack; that re-packing an accepted message yields an equal message; arithmetic facts behind two inventory entries " +
			"(OPT/SVCB slices start at an offset returned by a successful unpackUint16; SVCB value buffer sized by the first pass); a label crossing the end of a resource (offsets are bounded by the message, not the record); " +
			"Parser.XResource does not compare resHeaderLength with the bytes its unpacker consumed; integer overflow of offsets (needs messages > 2^62 bytes).",
		Run: c37,
	})
}

func c37(c *Ctx) {
	P := "(*" + dm + "Parser)."
	un := "(*" + dm + "Name).unpack"
	sections := map[string]string{}
	for _, s := range []string{"Questions", "Answers", "Authorities", "Additionals"} {
		k, ok := c.P.ConstInt(dm + "section" + s)
		if !ok {
			c.Undecided("anchor", dm+"section"+s, "constant not found")
			return
		}
		sections[s] = fmt.Sprint(k)
	}

	// ---- entries: Message.Unpack, every exported Parser method, the skip functions
	entries := []string{"(*" + dm + "Message).Unpack", dm + "skipName", dm + "skipResource", dm + "skipUint16", dm + "skipUint32", dm + "skipType", dm + "skipClass"}
	for _, fn := range c.P.All {
		n := FnName(fn)
		if strings.HasPrefix(n, P) && !strings.Contains(n, "$") && token.IsExported(fn.Name()) {
			entries = append(entries, n)
		}
	}
	sort.Strings(entries)
	c.Check(len(entries) >= 36, "anchor", "exported Parser methods found", token.NoPos, fmt.Sprintf("%d entry points", len(entries)), fmt.Sprintf("only %d entry points", len(entries)))
	c.PanicInventory(entries, nil, map[string]Inv{
		un:                        {Sites: "idx=2", Why: "msg[currOff] under currOff < len(msg); msg[currOff:endOff] under endOff <= len(msg) (index-guarded obligations below)"},
		dm + "skipName":           {Sites: "idx=1", Why: "msg[newOff] under newOff < len(msg) (index-guarded obligation below)"},
		dm + "unpackBytes":        {Sites: "idx=1", Why: "msg[off:newOff] under newOff <= len(msg) (index-guarded obligation below)"},
		dm + "unpackText":         {Sites: "idx=2", Why: "msg[off] under off < len(msg); msg[beginOff:endOff] under endOff <= len(msg) (index-guarded obligation below)"},
		dm + "unpackUint16":       {Sites: "idx=2", Why: "msg[off], msg[off+1] under off+2 <= len(msg) (index-guarded obligation below); offsets are sums of non-negative values"},
		dm + "unpackUint32":       {Sites: "idx=4", Why: "msg[off..off+3] under off+4 <= len(msg) (index-guarded obligation below)"},
		dm + "unpackOPTResource":  {Sites: "idx=1", Why: "msg[off:] with off returned by a successful unpackUint16, hence <= len(msg) (error-checked obligation below; the arithmetic is reviewed, not decided)"},
		dm + "unpackSVCBResource": {Sites: "idx=2", Why: "msg[off:] as for OPT; valuesBuf[:size:size] sized by the first pass over the same bytes (reviewed, not decided); msg[off:][:size] under len(msg[off:]) >= size (obligation below)"},
	})
	for _, f := range []string{un, dm + "skipName", dm + "unpackBytes", dm + "unpackText", dm + "unpackUint16", dm + "unpackUint32"} {
		c.IndexGuarded(f, "$0")
	}
	c.ErrChecked(dm+"unpackOPTResource", Calls(dm+"unpackUint16"), 2, Union(Indexing("$0"), RetOK()))
	c.ErrChecked(dm+"unpackSVCBResource", Calls(dm+"unpackUint16"), 2, Union(Indexing("$0"), RetOK()))
	if fn := c.MustFn(dm + "unpackSVCBResource"); fn != nil {
		// msg[off:][:size] only when len(msg[off:]) >= size
		var inner *ssa.Slice
		ForEachInstr(fn, func(in ssa.Instruction) {
			if s, ok := in.(*ssa.Slice); ok {
				if _, nested := s.X.(*ssa.Slice); nested && s.High != nil {
					inner = s
				}
			}
		})
		if inner == nil {
			c.Undecided("anchor", dm+"unpackSVCBResource: value slice", "msg[off:][:size] not found")
		} else {
			// a dominating test compares len(msg[off:]) (same msg, same off) with the same size value
			outer := inner.X.(*ssa.Slice)
			okFact := false
			ForEachInstr(fn, func(in ssa.Instruction) {
				ifi, ok := in.(*ssa.If)
				if !ok {
					return
				}
				bo, ok := ifi.Cond.(*ssa.BinOp)
				if !ok || bo.Op != token.LSS {
					return
				}
				lc, ok := bo.X.(*ssa.Call)
				if !ok || CalleeName(&lc.Call) != "builtin:len" {
					return
				}
				sl, ok := BaselineArgs(&lc.Call)[0].(*ssa.Slice)
				if !ok || sl.X != outer.X || sl.Low != outer.Low || sl.High != nil {
					return
				}
				if stripConv(bo.Y) != stripConv(inner.High) {
					return
				}
				// the slice is only reached on the false edge
				if ifi.Block().Succs[1].Dominates(inner.Block()) && len(ifi.Block().Succs[1].Preds) == 1 {
					okFact = true
				}
			})
			c.Check(okFact, "guard-before", dm+"unpackSVCBResource: msg[off:][:size] under len(msg[off:]) >= size", inner.Pos(), "", "facts here: {"+FactsText(inner)+"}")
		}
	}
	if fn := c.MustFn(dm + "unpackOPTResource"); fn != nil {
		// a short copy (option data crossing the end of the message) is refused
		spec := ""
		ForEachInstr(fn, func(in ssa.Instruction) {
			if ifi, ok := in.(*ssa.If); ok {
				a := CondAtom(ifi.Cond)
				for t := range a.L.Coef {
					if strings.HasPrefix(t, "copy(") && (a.Kind == EQ || a.Kind == NE) {
						if a.Kind == EQ {
							a = a.Negate()
						}
						spec = a.String()
					}
				}
			}
		})
		if spec == "" {
			c.Fail("reject-before", dm+"unpackOPTResource: short option data", fn.Pos(), "the count returned by copy is not compared with the announced length")
		} else {
			c.NeverAfter(dm+"unpackOPTResource", c.Edge(spec), Union(RetOK(), Calls("builtin:append")), true)
		}
	}

	// ---- Name.unpack rejection inventory (roles bound from the code, not from local names)
	if fn := c.MustFn(un); fn != nil {
		var cur, name, ptr string
		var labelAppend ssa.Instruction
		ForEachInstr(fn, func(in ssa.Instruction) {
			switch x := in.(type) {
			case *ssa.IndexAddr:
				if cur == "" && Term(x.X) == "$0" {
					cur = Linearize(x.Index).String()
				}
			case *ssa.Call:
				if CalleeName(&x.Call) == "builtin:append" && labelAppend == nil {
					if _, isSlice := BaselineArgs(&x.Call)[1].(*ssa.Slice); isSlice {
						labelAppend = in
						name = Term(BaselineArgs(&x.Call)[0])
					}
				}
			}
		})
		ptrLimit := int64(0)
		if cur != "" {
			// pointer counter: the loop-carried value compared with a positive constant inside the pointer case
			ForEachInstr(fn, func(in ssa.Instruction) {
				ifi, ok := in.(*ssa.If)
				if !ok || !c.P.HoldsAt(in, "($0["+cur+"]&192) == 192", true) {
					return
				}
				a := CondAtom(ifi.Cond)
				if a.Kind == LE && len(a.L.Coef) == 1 && a.L.K > 0 {
					for t, k := range a.L.Coef {
						if k == -1 && strings.HasPrefix(t, "φ") {
							ptr, ptrLimit = t, a.L.K
						}
					}
				}
			})
		}
		if cur != "" && name != "" && ptr == "" {
			c.Fail("reject-before", un+": compression-pointer chains are bounded", fn.Pos(), "inside the pointer case no loop-carried counter is compared with a constant limit")
		} else if cur == "" || name == "" {
			c.Undecided("anchor", un+": roles", fmt.Sprintf("offset %q, name %q, pointer counter %q", cur, name, ptr))
		} else {
			L := "$0[" + cur + "]"
			nmax, _ := c.P.ConstInt(dm + "nonEncodedNameMax")
			app := Sel{Name: "append of the label", F: func(*Prog, *ssa.Function) []ssa.Instruction { return []ssa.Instruction{labelAppend} }}
			accept := Union(RetOK(), app)
			c.Reject(un, Union(RetOK(), Indexing("$0")), cur+" >= len($0)")
			c.Reject(un, app, cur+"+"+L+" >= len($0)")
			c.Reject(un, app, fmt.Sprintf("len(%s)+%s >= %d", name, L, nmax))
			c.Guard(un, app, "("+L+"&192) == 0", L+" != 0")
			// '.' inside a label
			dot := ""
			ForEachInstr(fn, func(in ssa.Instruction) {
				if ifi, ok := in.(*ssa.If); ok {
					a := CondAtom(ifi.Cond)
					if (a.Kind == EQ || a.Kind == NE) && (a.L.K == -46 || a.L.K == 46) && len(a.L.Coef) == 1 {
						for t := range a.L.Coef {
							if strings.HasPrefix(t, "$0[") {
								dot = t
							}
						}
					}
				}
			})
			if dot == "" {
				// the same scan written with a library search: slices.Contains(msg[a:b], '.') / bytes.IndexByte(msg[a:b], '.') >= 0
				if found := containsByteEdge(fn, "$0", 46); found.F != nil {
					c.NeverAfter(un, found, accept, true)
				} else {
					c.Fail("reject-before", un+": '.' inside a label", fn.Pos(), "no comparison of a message byte with '.'")
				}
			} else {
				c.NeverAfter(un, c.Edge(dot+" == 46"), accept, true)
			}
			// pointers
			c.NeverAfter(un, c.Edge(fmt.Sprintf("%s >= %d", ptr, ptrLimit)), Union(RetOK(), Indexing("$0")), true)
			c.Reject(un, RetOK(), "("+L+"&192) != 0", "("+L+"&192) != 192")
			c.NeverAfter(un, c.EdgeWhere(cur+"+1 >= len($0)", "("+L+"&192) == 192"), Union(RetOK(), Indexing("$0")), true)
			c.Count(un, c.EdgeWhere(cur+"+1 >= len($0)", "("+L+"&192) == 192"), 1, 1)
			c.PassBetween(un, c.Edge("("+L+"&192) == 192"), Union(RetOK(), Indexing("$0").Where("next label byte", func(in ssa.Instruction) bool {
				ia, ok := in.(*ssa.IndexAddr)
				return ok && Linearize(ia.Index).String() == cur
			})), c.TestOf(fmt.Sprintf("%s >= %d", ptr, ptrLimit)), false)
			// the stored length is the assembled name's length
			c.StoredFrom(un, Stores(dm+"Name.Length"), "len() of the assembled name", IsCallTo("builtin:len"))
			c.Before(un, Stores(dm+"Name.Length"), RetOK())
		}
	}

	// ---- skip vs unpack
	for _, p := range []struct {
		skip, unpack string
		w            int
		okIdx        int
	}{{"skipUint16", "unpackUint16", 2, 1}, {"skipUint32", "unpackUint32", 4, 1}} {
		for _, f := range []string{p.skip, p.unpack} {
			c.Reject(dm+f, RetOK(), fmt.Sprintf("$1+%d > len($0)", p.w))
		}
		c.Count(dm+p.skip, RetTerm(0, fmt.Sprintf("($1+%d)", p.w)), 1, 1)
		c.Count(dm+p.unpack, RetTerm(1, fmt.Sprintf("($1+%d)", p.w)), 1, 1)
	}
	for _, t := range []string{"Type", "Class"} {
		c.Count(dm+"skip"+t, Calls(dm+"skipUint16").ArgIs(0, "$0").ArgIs(1, "$1"), 1, 1)
		c.Count(dm+"unpack"+t, Calls(dm+"unpackUint16").ArgIs(0, "$0").ArgIs(1, "$1"), 1, 1)
		c.Count(dm+"unpack"+t, RetTerm(1, "unpackUint16($0,$1)#1"), 1, 1)
	}
	skipV := map[string]SeqTok{
		dm + "skipName":     {Tok: "name", ConstArg: -1, FieldArg: -1},
		dm + "skipType":     {Tok: "type", ConstArg: -1, FieldArg: -1},
		dm + "skipClass":    {Tok: "class", ConstArg: -1, FieldArg: -1},
		dm + "skipUint32":   {Tok: "u32", ConstArg: -1, FieldArg: -1},
		dm + "skipUint16":   {Tok: "u16", ConstArg: -1, FieldArg: -1},
		dm + "unpackUint16": {Tok: "u16", ConstArg: -1, FieldArg: -1},
	}
	rv := dnsReaderVocab()
	c.TokSeqAgree("(*"+dm+"ResourceHeader).unpack", dm+"skipResource", rv, skipV)
	c.TokSeqAgree(P+"Question", P+"SkipQuestion", rv, skipV)
	sr := dm + "skipResource"
	for callee, idx := range map[string]int{dm + "skipName": 1, dm + "skipType": 1, dm + "skipClass": 1, dm + "skipUint32": 1, dm + "unpackUint16": 2} {
		c.ErrChecked(sr, Calls(callee), idx, RetOK())
	}
	if fn := c.MustFn(sr); fn != nil {
		if oks := RetOK().F(c.P, fn); len(oks) == 1 {
			end := Linearize(oks[0].(*ssa.Return).Results[0]).String()
			c.Reject(sr, RetOK(), end+" > len($0)")
			c.Check(DependsOn(oks[0].(*ssa.Return).Results[0], IsCallTo(dm+"unpackUint16")), "derives-from", sr+": returned offset derives from the unpacked length", oks[0].Pos(), end, "returned offset is "+end)
		} else {
			c.Undecided("anchor", sr+": success return", fmt.Sprintf("%d nil-error returns", len(oks)))
		}
	}
	// skipName mirrors Name.unpack's tests
	if fn := c.MustFn(dm + "skipName"); fn != nil {
		cur := ""
		ForEachInstr(fn, func(in ssa.Instruction) {
			if x, ok := in.(*ssa.IndexAddr); ok && cur == "" && Term(x.X) == "$0" {
				cur = Linearize(x.Index).String()
			}
		})
		if cur == "" {
			c.Undecided("anchor", dm+"skipName: offset", "no index into the message")
		} else {
			L := "$0[" + cur + "]"
			c.Reject(dm+"skipName", Union(RetOK(), Indexing("$0")), cur+" >= len($0)")
			c.NeverAfter(dm+"skipName", c.Edge(cur+"+"+L+" >= len($0)"), Union(RetOK(), Indexing("$0")), true)
			c.Guard(dm+"skipName", c.Edge(cur+"+"+L+" >= len($0)"), "("+L+"&192) == 0", L+" != 0")
			// reserved prefixes 0x40/0x80: in the iteration whose label byte has a prefix that is neither the
			// literal one (0x00) nor the pointer one (0xC0), skipName never succeeds, then or in a later
			// iteration. Decided over paths from the loop header, so the nesting and order of the prefix
			// tests (switch, if/else-if chain) do not matter; both prefix values must be tested somewhere.
			c.D5RejectPerIteration(dm+"skipName", RetOK(), "("+L+"&192) != 0", "("+L+"&192) != 192")
			// (literal vs pointer: the Guard above keeps the length test, i.e. the use of the byte as a label
			// length, under prefix == 0x00.)
			// a literal label crossing the end of the message is refused (as in Name.unpack): stated over the
			// values, so it fails - rather than having nothing to examine - when the length test disappears.
			c.D5RejectPerIteration(dm+"skipName", RetOK(), "("+L+"&192) == 0", L+" != 0", cur+"+"+L+" >= len($0)")
		}
	}
	// Parser.skipResource fast path
	ps := P + "skipResource"
	c.Reject(ps, Stores(dm+"Parser.off").StoredIs("($r.off+$r.resHeaderLength)"), "$r.off+$r.resHeaderLength > len($r.msg)")
	c.Guard(ps, Stores(dm+"Parser.off").StoredIs("($r.off+$r.resHeaderLength)"), "$r.resHeaderValid", "$r.section == $0")
	c.ErrChecked(ps, Calls(P+"checkAdvance"), -1, Union(Calls(sr), RetOK()))
	c.ErrChecked(ps, Calls(sr), 1, RetOK())
	c.Count(ps, Calls(sr).ArgIs(0, "$r.msg").ArgIs(1, "$r.off"), 1, 1)
	c.Before(ps, Stores(dm+"Parser.index"), RetOK())

	// ---- section ordering
	ca := P + "checkAdvance"
	c.Reject(ca, Union(RetOK(), Stores(dm+"Parser.section"), Stores(dm+"Parser.resHeaderValid")), "$r.section < $0")
	c.Reject(ca, Union(RetOK(), Stores(dm+"Parser.section"), Stores(dm+"Parser.resHeaderValid")), "$r.section > $0")
	c.Reject(ca, RetOK(), "$r.index == count(&$r.header,$0)")
	c.Guard(ca, Stores(dm+"Parser.section"), "$r.index == count(&$r.header,$0)")
	c.Count(ca, Stores(dm+"Parser.section").StoredIs("($r.section+1)"), 1, 1)
	c.Count(ca, Stores(dm+"Parser.index").StoredIs("0"), 1, 1)
	c.Writers(dm+"Parser.section", ca, P+"Start")
	{
		hc := "(*" + dm + "header).count"
		for s, f := range map[string]string{"Questions": "questions", "Answers": "answers", "Authorities": "authorities", "Additionals": "additionals"} {
			c.Guard(hc, RetTerm(0, "$r."+f), "$0 == "+sections[s])
		}
	}
	// every path tests checkAdvance before reading
	c.ErrChecked(P+"Question", Calls(ca), -1, Union(Calls(un), RetOK()))
	c.ErrChecked(P+"SkipQuestion", Calls(ca), -1, Union(Calls(dm+"skipName"), RetOK()))
	c.ErrChecked(P+"resourceHeader", Calls(ca), -1, Union(Calls("(*"+dm+"ResourceHeader).unpack"), RetOK()))
	c.Count(P+"Question", Calls(ca).ArgIs(1, sections["Questions"]), 1, 1)
	c.Count(P+"SkipQuestion", Calls(ca).ArgIs(1, sections["Questions"]), 1, 1)
	for _, f := range []string{"Question", "SkipQuestion"} {
		c.Before(P+f, Stores(dm+"Parser.index"), RetOK())
		c.Before(P+f, Stores(dm+"Parser.off"), RetOK())
	}
	for callee, idx := range map[string]int{un: 1, dm + "unpackType": 2, dm + "unpackClass": 2} {
		c.ErrChecked(P+"Question", Calls(callee), idx, Union(Stores(dm+"Parser.off"), RetOK()))
	}
	for callee, idx := range map[string]int{dm + "skipName": 1, dm + "skipType": 1, dm + "skipClass": 1} {
		c.ErrChecked(P+"SkipQuestion", Calls(callee), idx, Union(Stores(dm+"Parser.off"), RetOK()))
	}
	rh := P + "resourceHeader"
	c.ErrChecked(rh, Calls("(*"+dm+"ResourceHeader).unpack"), 1, Union(Stores(dm+"Parser.resHeaderValid"), RetOK()))
	c.Count(rh, Stores(dm+"Parser.off").Where("value = offset returned by ResourceHeader.unpack", func(in ssa.Instruction) bool {
		return resultOf(in.(*ssa.Store).Val, 0, "(*"+dm+"ResourceHeader).unpack")
	}), 1, 1)
	c.Guard(rh, Stores(dm+"Parser.off").StoredIs("$r.resHeaderOffset"), "$r.resHeaderValid")
	c.Count(rh, Stores(dm+"Parser.resHeaderLength"), 1, 1)
	c.Count(rh, Stores(dm+"Parser.resHeaderType"), 1, 1)
	rs := P + "resource"
	c.ErrChecked(rs, Calls(rh), 1, Union(Calls(dm+"unpackResourceBody"), RetOK()))
	c.ErrChecked(rs, Calls(dm+"unpackResourceBody"), 2, Union(Stores(dm+"Parser.index"), RetOK()))
	c.Count(rs, Stores(dm+"Parser.off").Where("value = offset returned by unpackResourceBody", func(in ssa.Instruction) bool {
		return resultOf(in.(*ssa.Store).Val, 1, dm+"unpackResourceBody")
	}), 1, 1)
	c.Before(rs, Stores(dm+"Parser.index"), RetOK())
	// exported section methods use their own constant
	for s, sing := range map[string]string{"Answers": "Answer", "Authorities": "Authority", "Additionals": "Additional"} {
		k := sections[s]
		c.Count(P+sing+"Header", Calls(rh).ArgIs(1, k), 1, 1)
		c.Count(P+sing, Calls(rs).ArgIs(1, k), 1, 1)
		c.Count(P+"Skip"+sing, Calls(ps).ArgIs(1, k), 1, 1)
		c.Count(P+"All"+s, Calls(P+sing), 1, 1)
		c.Count(P+"SkipAll"+s, Calls(P+"Skip"+sing), 1, 1)
	}
	c.Callers(ca, P+"Question", P+"SkipQuestion", rh, ps)
	// Start and Unpack
	st := P + "Start"
	c.ErrChecked(st, Calls("(*"+dm+"header).unpack"), 1, Union(Stores(dm+"Parser.section"), RetOK()))
	c.Count(st, Stores(dm+"Parser.section").StoredIs(sections["Questions"]), 1, 1)
	c.Count(st, Calls("(*"+dm+"header).unpack").ArgIs(1, "$0").ArgIs(2, "0"), 1, 1)
	mu := "(*" + dm + "Message).Unpack"
	if fn := c.MustFn(mu); fn != nil {
		seq := c.P.PrimSeq(fn, map[string]string{st: "start", P + "AllQuestions": "questions", P + "AllAnswers": "answers", P + "AllAuthorities": "authorities", P + "AllAdditionals": "additionals"})
		c.Check(strings.Join(seq, " ") == "start questions answers authorities additionals", "call-order", mu+": Start, AllQuestions, AllAnswers, AllAuthorities, AllAdditionals", fn.Pos(), "", "order is ["+strings.Join(seq, " ")+"]")
		for callee := range map[string]bool{st: true, P + "AllQuestions": true, P + "AllAnswers": true, P + "AllAuthorities": true, P + "AllAdditionals": true} {
			c.ErrChecked(mu, Calls(callee), 1, RetOK())
		}
	}

	// ---- allocation
	c.BoundedAlloc("dns parser", entries, nil, AllocSources{
		Calls:  []string{dm + "unpackUint16", dm + "unpackUint32", dm + "unpackType", dm + "unpackClass"},
		Fields: []string{dm + "header.questions", dm + "header.answers", dm + "header.authorities", dm + "header.additionals", dm + "Parser.resHeaderLength"},
	}, nil)
}

// containsByteEdge selects the branch edges on which a library search found byte k in a slice of
// the parameter base: slices.Contains(base[a:b], k) true, bytes.IndexByte(base[a:b], k) >= 0 / != -1.
func containsByteEdge(fn *ssa.Function, base string, k int64) Sel {
	var out []ssa.Instruction
	isSearch := func(v ssa.Value) bool {
		call, ok := v.(*ssa.Call)
		if !ok {
			return false
		}
		n := CalleeName(&call.Call)
		if i := strings.Index(n, "["); i > 0 {
			n = n[:i]
		}
		if n != "slices.Contains" && n != "bytes.IndexByte" && n != "slices.Index" {
			return false
		}
		args := call.Call.Args
		if len(args) != 2 {
			return false
		}
		sl, isSl := args[0].(*ssa.Slice)
		kc, isK := args[1].(*ssa.Const)
		if !isSl || !isK || Term(sl.X) != base {
			return false
		}
		kv, ok := IntOf64(kc)
		return ok && kv == k
	}
	ForEachInstr(fn, func(in ssa.Instruction) {
		ifi, ok := in.(*ssa.If)
		if !ok {
			return
		}
		cond, neg := ifi.Cond, false
		for {
			if u, isU := cond.(*ssa.UnOp); isU && u.Op == token.NOT {
				cond, neg = u.X, !neg
				continue
			}
			break
		}
		idx := -1
		if isSearch(cond) && cond.Type().String() == "bool" {
			idx = 0
		} else if bo, isB := cond.(*ssa.BinOp); isB && isSearch(bo.X) {
			if kc, isK := bo.Y.(*ssa.Const); isK {
				kv, _ := IntOf64(kc)
				switch {
				case bo.Op == token.GEQ && kv == 0, bo.Op == token.NEQ && kv == -1, bo.Op == token.GTR && kv == -1:
					idx = 0
				case bo.Op == token.LSS && kv == 0, bo.Op == token.EQL && kv == -1:
					idx = 1
				}
			}
		}
		if idx < 0 {
			return
		}
		if neg {
			idx = 1 - idx
		}
		if s := ifi.Block().Succs[idx]; len(s.Instrs) > 0 {
			out = append(out, s.Instrs[0])
		}
	})
	if len(out) == 0 {
		return Sel{}
	}
	return Sel{Name: fmt.Sprintf("branch: library search finds byte %d in %s[a:b]", k, base), F: func(*Prog, *ssa.Function) []ssa.Instruction { return out }}
}
