package props

import (
	"fmt"
	"go/ast"
	"go/constant"
	"go/token"
	"go/types"
	"sort"
	"strings"

	"golang.org/x/tools/go/ssa"

	. "verif/sa/core"
)

// Specification data: payload layouts of RFC 9113 section 6 (and RFC 9218
// section 7.1 for PRIORITY_UPDATE), the Go frame type ReadFrame yields for
// each frame type, and the Framer method(s) that write it.
//
//	field kinds: u8 u16 u32 (big endian), bytes (variable length)
//	"?K"  present iff flag bit K is set;  "*" repeated;  "pad" trailing padding (removed by the reader)
type c06Field struct {
	kind string // u8 u16 u32 bytes
	flag string // name of the flag constant that makes the field optional ("" = always)
	rep  bool   // repeated group member
	pad  bool   // trailing padding
}

type c06Frame struct {
	konst   string // FrameType constant
	goType  string // concrete type returned by the parser
	writers []string
	layout  []c06Field
}

var c06Frames = []c06Frame{
	{"FrameData", "*http2.DataFrame", []string{"startWriteDataPadded"},
		[]c06Field{{kind: "u8", flag: "FlagDataPadded"}, {kind: "bytes"}, {kind: "bytes", pad: true}}},
	{"FrameHeaders", "*http2.HeadersFrame", []string{"WriteHeaders"},
		[]c06Field{{kind: "u8", flag: "FlagHeadersPadded"}, {kind: "u32", flag: "FlagHeadersPriority"}, {kind: "u8", flag: "FlagHeadersPriority"}, {kind: "bytes"}, {kind: "bytes", pad: true}}},
	{"FramePriority", "*http2.PriorityFrame", []string{"WritePriority"}, []c06Field{{kind: "u32"}, {kind: "u8"}}},
	{"FrameRSTStream", "*http2.RSTStreamFrame", []string{"WriteRSTStream"}, []c06Field{{kind: "u32"}}},
	{"FrameSettings", "*http2.SettingsFrame", []string{"WriteSettings", "WriteSettingsAck"}, []c06Field{{kind: "u16", rep: true}, {kind: "u32", rep: true}}},
	{"FramePushPromise", "*http2.PushPromiseFrame", []string{"WritePushPromise"},
		[]c06Field{{kind: "u8", flag: "FlagPushPromisePadded"}, {kind: "u32"}, {kind: "bytes"}, {kind: "bytes", pad: true}}},
	{"FramePing", "*http2.PingFrame", []string{"WritePing"}, []c06Field{{kind: "bytes"}}},
	{"FrameGoAway", "*http2.GoAwayFrame", []string{"WriteGoAway"}, []c06Field{{kind: "u32"}, {kind: "u32"}, {kind: "bytes"}}},
	{"FrameWindowUpdate", "*http2.WindowUpdateFrame", []string{"WriteWindowUpdate"}, []c06Field{{kind: "u32"}}},
	{"FrameContinuation", "*http2.ContinuationFrame", []string{"WriteContinuation"}, []c06Field{{kind: "bytes"}}},
	{"FramePriorityUpdate", "*http2.PriorityUpdateFrame", []string{"WritePriorityUpdate"}, []c06Field{{kind: "u32"}, {kind: "bytes"}}},
}

// flag bits each writer sets, and the argument condition for each (canonical atom as printed by -facts)
var c06Flags = map[string]map[string]string{
	"startWriteDataPadded": {"FlagDataEndStream": "$1", "FlagDataPadded": "$3 !=0"},
	"WriteHeaders":         {"FlagHeadersPadded": "$0.PadLength !=0", "FlagHeadersEndStream": "$0.EndStream", "FlagHeadersEndHeaders": "$0.EndHeaders", "FlagHeadersPriority": "!IsZero($0.Priority)"},
	"WritePushPromise":     {"FlagPushPromisePadded": "$0.PadLength !=0", "FlagPushPromiseEndHeaders": "$0.EndHeaders"},
	"WriteContinuation":    {"FlagContinuationEndHeaders": "$1"},
	"WritePing":            {"FlagPingAck": "$0"},
	"WriteSettingsAck":     {"FlagSettingsAck": ""},
	"WriteSettings":        {}, "WritePriority": {}, "WriteRSTStream": {}, "WriteGoAway": {}, "WriteWindowUpdate": {}, "WritePriorityUpdate": {},
}

func init() {
	Register(&Property{
		ID:    "C06",
		Floor: 220,
		Clauses: "registry: frameParsers has an entry for every FrameType constant and the entry's success returns yield the Go frame type documented for it; unknown types fall back to parseUnknownFrame; every Write method calls startWrite exactly once with its own FrameType constant (WriteRawFrame: its parameters) and startWrite has no other caller; " +
			"layout: the sequence of wire primitives each writer appends (u8/u16/u32/bytes, optional and repeated parts marked) and the sequence each parser reads (with the constant offsets it reads at) both equal the RFC 9113 payload layout embedded as specification data, trailing padding being written last and not surfaced by the reader; SETTINGS records are read at 6*i+0/+2 with widths 2/4; " +
			"optional parts: the writer sets flag bit K exactly under the condition under which it writes the optional field, and the parser reads that field exactly under Has(flags,K) with the same constant; pad length byte and padding amount derive from the same argument; " +
			"frame header: startWrite/endWrite produce [len24 type flags stream32] big endian with the length back-patched over the first three bytes, readFrameHeader decodes the same positions; writeUint16/32 and readUint32/readByte are big-endian inverses; 31-bit masks: every mask applied by readers is 2^31-1 and every bit the writers set or test is 2^31; " +
			"guards: endWrite refuses length >= 2^24 before writing; DATA padding longer than 255 is refused; padZeros is at least 255 long; nothing is appended before startWrite or after endWrite; wbuf is written only by the Framer's write primitives and Write methods.",
		NotCovered: "value-level equality of the bytes (which argument lands in which field is checked only for pad length, stream id, type and flags); WriteRawFrame or AllowIllegalWrites producing frames the parsers reject; SETTINGS values the reader rejects (INITIAL_WINDOW_SIZE > 2^31-1) although WriteSettings accepts them; arguments whose encoded payload exceeds the peer's frame size.",
		Run:        c06,
	})
}

type c06Tok struct {
	kind string // u8 u16 u32 bytes
	off  string // "@<n>" for reads at a constant offset, "" otherwise
	opt  string // condition (writers) or flag bit (readers) making the token optional
	rep  bool
	arg  string // rendered argument
	pos  token.Pos
}

func c06InLoop(b *ssa.BasicBlock) bool {
	seen := map[*ssa.BasicBlock]bool{}
	var walk func(x *ssa.BasicBlock) bool
	walk = func(x *ssa.BasicBlock) bool {
		for _, s := range x.Succs {
			if s == b {
				return true
			}
			if !seen[s] {
				seen[s] = true
				if walk(s) {
					return true
				}
			}
		}
		return false
	}
	return walk(b)
}

func c06FactSet(b *ssa.BasicBlock) map[string]bool {
	m := map[string]bool{}
	for _, f := range FactsAt(b) {
		m[f.Atom.String()] = true
	}
	return m
}

// c06ExtraFacts: facts holding at b but not at base, sorted and joined.
func c06ExtraFacts(b, base *ssa.BasicBlock) string {
	bs := c06FactSet(base)
	var out []string
	for f := range c06FactSet(b) {
		if !bs[f] {
			out = append(out, f)
		}
	}
	sort.Strings(out)
	return strings.Join(out, " ; ")
}

func c06IsWbufLoad(v ssa.Value) bool {
	t := Term(v)
	return t == "$r.wbuf"
}

// c06WriterTokens lists the wire primitives fn appends after its startWrite call.
func c06WriterTokens(fn *ssa.Function) (toks []c06Tok, start *ssa.Call) {
	for _, b := range fn.Blocks {
		for _, in := range b.Instrs {
			if call, ok := in.(*ssa.Call); ok && CalleeName(&call.Call) == "(*http2.Framer).startWrite" {
				start = call
			}
		}
	}
	if start == nil {
		return nil, nil
	}
	for _, b := range fn.Blocks {
		for _, in := range b.Instrs {
			call, ok := in.(*ssa.Call)
			if !ok {
				continue
			}
			var kinds []string
			arg := ""
			switch CalleeName(&call.Call) {
			case "(*http2.Framer).writeByte":
				kinds, arg = []string{"u8"}, Term(BaselineArgs(&call.Call)[1])
			case "(*http2.Framer).writeUint16":
				kinds, arg = []string{"u16"}, Term(BaselineArgs(&call.Call)[1])
			case "(*http2.Framer).writeUint32":
				kinds, arg = []string{"u32"}, Term(BaselineArgs(&call.Call)[1])
			case "(*http2.Framer).writeBytes":
				kinds, arg = []string{"bytes"}, Term(BaselineArgs(&call.Call)[1])
			case "builtin:append":
				if !c06IsWbufLoad(BaselineArgs(&call.Call)[0]) {
					continue
				}
				kinds, arg = []string{"bytes"}, Term(BaselineArgs(&call.Call)[1])
				if sl, ok := BaselineArgs(&call.Call)[1].(*ssa.Slice); ok {
					if al, ok := sl.X.(*ssa.Alloc); ok {
						if arr, ok := al.Type().(*types.Pointer).Elem().Underlying().(*types.Array); ok {
							kinds = nil
							for i := int64(0); i < arr.Len(); i++ {
								kinds = append(kinds, "u8")
							}
							// single element: render what is stored
							arg = ""
							for _, ref := range *al.Referrers() {
								if ia, ok := ref.(*ssa.IndexAddr); ok {
									for _, r2 := range *ia.Referrers() {
										if st, ok := r2.(*ssa.Store); ok {
											arg = Term(st.Val)
										}
									}
								}
							}
						}
					}
				}
			default:
				continue
			}
			for _, k := range kinds {
				t := c06Tok{kind: k, opt: c06ExtraFacts(b, start.Block()), rep: c06InLoop(b), arg: arg, pos: InstrPos(in)}
				if t.rep { // the loop condition is the repetition, not an option
					t.opt = ""
				}
				toks = append(toks, t)
			}
		}
	}
	sort.SliceStable(toks, func(i, j int) bool { return toks[i].pos < toks[j].pos })
	return toks, start
}

func c06ConstInt(v ssa.Value) (int64, bool) {
	if v == nil {
		return 0, true // absent bound = 0
	}
	if k, ok := v.(*ssa.Const); ok && k.Value != nil && k.Value.Kind() == constant.Int {
		return k.Int64(), true
	}
	return 0, false
}

// derivesFromParam: v is the parameter or a remainder obtained from it by
// readByte/readUint32 results, phis and re-slicing.
func c06PayloadDerived(v ssa.Value, param *ssa.Parameter, depth int) bool {
	if depth > 12 {
		return false
	}
	switch x := v.(type) {
	case *ssa.Parameter:
		return x == param
	case *ssa.Phi:
		for _, e := range x.Edges {
			if e != x && !c06PayloadDerived(e, param, depth+1) {
				return false
			}
		}
		return true
	case *ssa.Extract:
		if call, ok := x.Tuple.(*ssa.Call); ok && x.Index == 0 {
			n := CalleeName(&call.Call)
			if n == "http2.readByte" || n == "http2.readUint32" {
				return c06PayloadDerived(BaselineArgs(&call.Call)[0], param, depth+1)
			}
		}
	}
	return false
}

// c06HasFlagFact returns the K of a dominating Has($1.Flags,K) fact ("" if none).
func c06HasFlagFact(b *ssa.BasicBlock) string {
	for _, f := range FactsAt(b) {
		s := f.Atom.String()
		if f.Atom.Kind == TRUE && strings.HasPrefix(s, "Has($1.Flags,") {
			return strings.TrimSuffix(strings.TrimPrefix(s, "Has($1.Flags,"), ")")
		}
	}
	return ""
}

// c06ReaderTokens lists the wire reads of a parser over its payload parameter.
func c06ReaderTokens(fn *ssa.Function, payload *ssa.Parameter) []c06Tok {
	var toks []c06Tok
	consumedSlices := map[ssa.Value]bool{}
	add := func(b *ssa.BasicBlock, in ssa.Instruction, kind, off string) {
		toks = append(toks, c06Tok{kind: kind, off: off, opt: c06HasFlagFact(b), pos: InstrPos(in)})
	}
	for _, b := range fn.Blocks {
		for _, in := range b.Instrs {
			switch x := in.(type) {
			case *ssa.Call:
				switch CalleeName(&x.Call) {
				case "http2.readByte":
					if c06PayloadDerived(BaselineArgs(&x.Call)[0], payload, 0) {
						add(b, in, "u8", "")
					}
				case "http2.readUint32":
					if c06PayloadDerived(BaselineArgs(&x.Call)[0], payload, 0) {
						add(b, in, "u32", "")
					}
				case "(encoding/binary.bigEndian).Uint32", "(encoding/binary.bigEndian).Uint16":
					kind := "u32"
					if strings.HasSuffix(CalleeName(&x.Call), "16") {
						kind = "u16"
					}
					if sl, ok := BaselineArgs(&x.Call)[len(BaselineArgs(&x.Call))-1].(*ssa.Slice); ok && c06PayloadDerived(sl.X, payload, 0) {
						consumedSlices[sl] = true
						off := "@?"
						if lo, ok := c06ConstInt(sl.Low); ok {
							off = fmt.Sprintf("@%d", lo)
						}
						add(b, in, kind, off)
					}
				case "builtin:copy":
					if c06PayloadDerived(BaselineArgs(&x.Call)[1], payload, 0) {
						add(b, in, "bytes", "@0")
					}
				}
			case *ssa.IndexAddr:
				if c06PayloadDerived(x.X, payload, 0) {
					if k, ok := c06ConstInt(x.Index); ok {
						add(b, in, "u8", fmt.Sprintf("@%d", k))
					}
				}
			case *ssa.Store:
				if c06PayloadDerived(x.Val, payload, 0) {
					if _, isField := x.Addr.(*ssa.FieldAddr); isField {
						off := ""
						if x.Val == ssa.Value(payload) {
							off = "@0"
						}
						add(b, in, "bytes", off)
					}
				}
			}
		}
	}
	// slices of the payload that are not arguments of a fixed-width decode
	for _, b := range fn.Blocks {
		for _, in := range b.Instrs {
			sl, ok := in.(*ssa.Slice)
			if !ok || consumedSlices[sl] || !c06PayloadDerived(sl.X, payload, 0) {
				continue
			}
			lo, loConst := c06ConstInt(sl.Low)
			_, hiConst := c06ConstInt(sl.High)
			switch {
			case sl.High == nil && loConst:
				add(b, in, "bytes", fmt.Sprintf("@%d", lo))
			case sl.High != nil && !hiConst && lo == 0 && loConst:
				add(b, in, "bytes", "")
			default:
				add(b, in, "bytes", "@?")
			}
		}
	}
	sort.SliceStable(toks, func(i, j int) bool { return toks[i].pos < toks[j].pos })
	return toks
}

// c06FlagBits computes, for the flags value passed to startWrite, under which
// condition (relative to the facts at `at`) each bit is set.
func c06FlagBits(v ssa.Value, at *ssa.BasicBlock, depth int) (map[int64]string, error) {
	out := map[int64]string{}
	if depth > 16 {
		return nil, fmt.Errorf("flags expression too deep")
	}
	switch x := v.(type) {
	case *ssa.Const:
		k := x.Int64()
		for bit := int64(1); bit < 256; bit <<= 1 {
			if k&bit != 0 {
				out[bit] = ""
			}
		}
		return out, nil
	case *ssa.BinOp:
		if x.Op == token.OR {
			l, err := c06FlagBits(x.X, at, depth+1)
			if err != nil {
				return nil, err
			}
			r, err := c06FlagBits(x.Y, at, depth+1)
			if err != nil {
				return nil, err
			}
			for k, c := range r {
				if old, ok := l[k]; !ok || old != "" {
					l[k] = c
				}
			}
			return l, nil
		}
	case *ssa.Phi:
		type es struct {
			cond string
			bits map[int64]string
		}
		var edges []es
		all := map[int64]bool{}
		for i, e := range x.Edges {
			m, err := c06FlagBits(e, at, depth+1)
			if err != nil {
				return nil, err
			}
			pred := x.Block().Preds[i]
			cond := c06ExtraFacts(pred, x.Block())
			if ifi, ok := pred.Instrs[len(pred.Instrs)-1].(*ssa.If); ok {
				a := CondAtom(ifi.Cond)
				if pred.Succs[1] == x.Block() {
					a = a.Negate()
				}
				if cond != "" {
					cond += " ; "
				}
				cond += a.String()
			}
			edges = append(edges, es{cond, m})
			for k := range m {
				all[k] = true
			}
		}
		for k := range all {
			same, first := true, ""
			var parts []string
			for i, e := range edges {
				c, ok := e.bits[k]
				if !ok {
					same = false
					continue
				}
				if i == 0 {
					first = c
				} else if c != first {
					same = false
				}
				p := e.cond
				if c != "" {
					p += " ; " + c
				}
				parts = append(parts, p)
			}
			if same && len(parts) == len(edges) {
				out[k] = first
			} else {
				sort.Strings(parts)
				out[k] = strings.Join(parts, " | ")
			}
		}
		return out, nil
	case *ssa.Parameter:
		return nil, fmt.Errorf("flags are a parameter")
	}
	return nil, fmt.Errorf("unsupported flags expression %s", Term(v))
}

func c06Kinds(ts []c06Tok, withOff bool) string {
	var ss []string
	for _, t := range ts {
		s := t.kind
		if withOff {
			s += t.off
		}
		if t.opt != "" {
			s += "?"
		}
		if t.rep {
			s += "*"
		}
		ss = append(ss, s)
	}
	return strings.Join(ss, " ")
}

func c06Width(kind string) int64 {
	switch kind {
	case "u8":
		return 1
	case "u16":
		return 2
	case "u32":
		return 4
	}
	return -1
}

func c06(c *Ctx) {
	const F = "(*http2.Framer)."
	k := func(name string) int64 {
		v, found := c.P.ConstInt("http2." + name)
		if !found {
			c.Undecided("anchor", "http2."+name, "constant not found")
			return -1
		}
		return v
	}

	// ------------------------------------------------------------ registry
	regInit, regPk := c.P.VarDecl("http2.frameParsers")
	reg := map[int64]string{}
	if regInit == nil {
		c.Undecided("table-exhaustive", "http2.frameParsers", "literal not found")
	} else {
		for _, el := range Elts(regInit) {
			key, val := KV(el)
			if key == nil {
				c.Fail("table-exhaustive", "http2.frameParsers is keyed by FrameType constants", el.Pos(), "unkeyed element")
				continue
			}
			kv, ok := IntOf(regPk, key)
			id, isID := val.(*ast.Ident)
			if !ok || !isID {
				c.Fail("table-exhaustive", "http2.frameParsers is keyed by FrameType constants", el.Pos(), "non-constant key or non-function value")
				continue
			}
			if _, isFunc := regPk.TypesInfo.Uses[id].(*types.Func); isFunc {
				reg[kv] = "http2." + id.Name
			}
		}
	}
	consts := c.P.ConstsOfType("http2.FrameType")
	known := map[string]bool{}
	for _, fr := range c06Frames {
		known[fr.konst] = true
	}
	var names []string
	for n := range consts {
		names = append(names, n)
	}
	sort.Strings(names)
	for _, n := range names {
		v, _ := constant.Int64Val(consts[n])
		c.Check(reg[v] != "", "table-exhaustive", "http2.frameParsers has a parser for "+n, token.NoPos, reg[v], "no registry entry: frames of this type are returned as UnknownFrame")
		c.Check(known[n], "table-exhaustive", "layout specification covers "+n, token.NoPos, "", "FrameType constant without a layout in the rule table (new frame type: extend c06Frames)")
	}
	c.Has("http2.typeFrameParser", RetTerm(0, "func:http2.parseUnknownFrame"))
	frParserReturns(c, "http2.parseUnknownFrame", "*http2.UnknownFrame")
	if obj := c.P.Object("http2.frameParsers"); obj != nil {
		if arr, ok := obj.Type().Underlying().(*types.Array); ok {
			c.Guard("http2.typeFrameParser", Indexing("http2.frameParsers"), fmt.Sprintf("$0 < %d", arr.Len()))
		} else {
			c.Undecided("anchor", "http2.frameParsers", "not an array")
		}
	}

	// ------------------------------------------------------------ per frame type
	allWriters := []string{F + "WriteRawFrame"}
	for _, fr := range c06Frames {
		tv := k(fr.konst)
		parser := reg[tv]
		if parser == "" {
			continue
		}
		frParserReturns(c, parser, fr.goType)

		// reader side
		if pfn := c.MustFn(parser); pfn != nil && len(pfn.Params) == 4 {
			rt := c06ReaderTokens(pfn, pfn.Params[3])
			var want []string
			off, offKnown := int64(0), true
			for _, f := range fr.layout {
				if f.pad {
					continue
				}
				s := f.kind
				if f.rep { // repeated records are surfaced as the raw payload by the parser
					continue
				}
				if f.flag != "" {
					s += "?"
					offKnown = false
				}
				want = append(want, s)
				_ = off
			}
			if len(want) == 0 {
				want = []string{"bytes"}
			}
			got := c06Kinds(rt, false)
			c.Check(got == strings.Join(want, " "), "codec-layout", parser+" reads the RFC layout of "+fr.konst, pfn.Pos(), "["+c06Kinds(rt, true)+"]", "parser reads ["+c06Kinds(rt, true)+"], layout is ["+strings.Join(want, " ")+"]")
			// offsets and flag constants
			if got == strings.Join(want, " ") {
				off, offKnown = 0, true
				i := 0
				bad := ""
				for _, f := range fr.layout {
					if f.pad || f.rep {
						continue
					}
					t := rt[i]
					i++
					if t.off != "" && t.off != "@?" {
						if !offKnown || t.off != fmt.Sprintf("@%d", off) {
							bad = fmt.Sprintf("%s read at %s, layout offset %d (known=%v)", t.kind, t.off, off, offKnown)
						}
					} else if t.off == "@?" {
						bad = t.kind + " read at a non-constant offset"
					}
					if f.flag != "" {
						if t.opt != fmt.Sprint(k(f.flag)) {
							bad = fmt.Sprintf("optional %s read under Has(flags,%s), layout says flag %s = %d", t.kind, t.opt, f.flag, k(f.flag))
						}
						offKnown = false
					} else if t.opt != "" && t.kind != "bytes" {
						// a mandatory field read only under a flag
						ok := false
						for _, g := range fr.layout {
							if g.flag != "" && fmt.Sprint(k(g.flag)) == t.opt {
								ok = true
							}
						}
						if !ok {
							bad = fmt.Sprintf("mandatory %s read only under Has(flags,%s)", t.kind, t.opt)
						}
					}
					if w := c06Width(f.kind); w > 0 {
						off += w
					} else {
						offKnown = false
					}
				}
				c.Check(bad == "", "codec-layout", parser+" reads each field at its layout offset and optional fields under their flag", pfn.Pos(), "["+c06Kinds(rt, true)+"]", bad)
			}
		} else if pfn != nil {
			c.Undecided("codec-layout", parser, "unexpected parser signature")
		}

		// writer side
		for _, wn := range fr.writers {
			w := F + wn
			allWriters = append(allWriters, w)
			wfn := c.MustFn(w)
			if wfn == nil {
				continue
			}
			toks, start := c06WriterTokens(wfn)
			if start == nil {
				c.Fail("codec-layout", w+" calls startWrite", wfn.Pos(), "no startWrite call")
				continue
			}
			c.Count(w, Calls(F+"startWrite"), 1, 1)
			c.Count(w, Calls(F+"startWrite").ArgIs(1, fmt.Sprint(tv)), 1, 1)
			var want []string
			for _, f := range fr.layout {
				s := f.kind
				if f.flag != "" {
					s += "?"
				}
				if f.rep {
					s += "*"
				}
				want = append(want, s)
			}
			if wn == "WriteSettingsAck" {
				want = nil
			}
			got := c06Kinds(toks, false)
			c.Check(got == strings.Join(want, " "), "codec-layout", w+" appends the RFC layout of "+fr.konst, wfn.Pos(), "["+got+"]", "writer appends ["+got+"], layout is ["+strings.Join(want, " ")+"]")
			// flags
			bits, err := c06FlagBits(BaselineArgs(&start.Call)[2], start.Block(), 0)
			wantBits := map[int64]string{}
			for name, cond := range c06Flags[wn] {
				wantBits[k(name)] = cond
			}
			if err != nil {
				c.Undecided("flag-condition", w+": flag bits", err.Error())
			} else {
				c.Check(fmt.Sprint(bits) == fmt.Sprint(wantBits), "flag-condition", w+" sets each flag bit exactly under its argument condition", wfn.Pos(), fmt.Sprint(bits), fmt.Sprintf("startWrite receives flags %v, specification %v", bits, wantBits))
				if got == strings.Join(want, " ") && len(toks) == len(fr.layout) {
					bad := ""
					for i, f := range fr.layout {
						if f.flag == "" {
							if toks[i].opt != "" && !f.rep {
								bad = fmt.Sprintf("mandatory %s is written only under %s", f.kind, toks[i].opt)
							}
							continue
						}
						if toks[i].opt != bits[k(f.flag)] {
							bad = fmt.Sprintf("optional %s is written under {%s} but flag %s is set under {%s}", f.kind, toks[i].opt, f.flag, bits[k(f.flag)])
						}
					}
					c.Check(bad == "", "flag-condition", w+" writes each optional field under the condition that sets its flag", wfn.Pos(), "", bad)
					// padding amount = pad length byte
					if len(fr.layout) > 0 && fr.layout[len(fr.layout)-1].pad {
						lenArg, padArg := toks[0].arg, toks[len(toks)-1].arg
						okPad := padArg == "http2.padZeros[:"+lenArg+"]" || lenArg == "len("+padArg+")"
						c.Check(okPad, "codec-layout", w+": the pad length byte and the padding appended come from the same argument", wfn.Pos(), lenArg+" / "+padArg, "pad length byte is "+lenArg+" but the padding appended is "+padArg)
					}
				}
			}
			// stream id argument
			if len(want) > 0 {
				c.Before(w, Calls(F+"startWrite"), Union(Calls(F+"writeByte"), Calls(F+"writeUint16"), Calls(F+"writeUint32"), Calls(F+"writeBytes"), Calls("builtin:append")))
			}
			if wn != "startWriteDataPadded" {
				c.Count(w, Calls(F+"endWrite"), 1, 1)
				c.Has(w, RetTerm(0, "endWrite($r)"))
				c.NeverAfter(w, Calls(F+"endWrite"), Union(Calls(F+"writeByte"), Calls(F+"writeUint16"), Calls(F+"writeUint32"), Calls(F+"writeBytes"), Calls("builtin:append"), Calls(F+"startWrite")), false)
			}
		}
	}
	// raw frames
	raw := F + "WriteRawFrame"
	c.Count(raw, Calls(F+"startWrite").ArgIs(1, "$0").ArgIs(2, "$1").ArgIs(3, "$2"), 1, 1)
	c.Count(raw, Calls(F+"writeBytes").ArgIs(1, "$3"), 1, 1)
	c.Has(raw, RetTerm(0, "endWrite($r)"))
	if pfn := c.MustFn("http2.parseUnknownFrame"); pfn != nil && len(pfn.Params) == 4 {
		rt := c06ReaderTokens(pfn, pfn.Params[3])
		c.Check(c06Kinds(rt, true) == "bytes@0", "codec-layout", "http2.parseUnknownFrame keeps the whole payload", pfn.Pos(), "", "["+c06Kinds(rt, true)+"]")
	}
	// DATA wrappers
	c.Count(F+"WriteData", Calls(F+"WriteDataPadded").ArgIs(1, "$0").ArgIs(2, "$1").ArgIs(3, "$2").ArgIs(4, "nil"), 1, 1)
	wdp := F + "WriteDataPadded"
	c.Count(wdp, Calls(F+"startWriteDataPadded").ArgIs(1, "$0").ArgIs(2, "$1").ArgIs(3, "$2").ArgIs(4, "$3"), 1, 1)
	c.ErrTestedBefore(wdp, Calls(F+"startWriteDataPadded"), -1, Calls(F+"endWrite"))
	c.Has(wdp, RetTerm(0, "endWrite($r)"))
	// stream id / type / flags land in the header
	for w, arg := range map[string]string{"startWriteDataPadded": "$0", "WriteHeaders": "$0.StreamID", "WritePriority": "$0", "WriteRSTStream": "$0", "WritePushPromise": "$0.StreamID",
		"WriteWindowUpdate": "$0", "WriteContinuation": "$0", "WriteSettings": "0", "WriteSettingsAck": "0", "WritePing": "0", "WriteGoAway": "0", "WritePriorityUpdate": "0"} {
		c.Count(F+w, Calls(F+"startWrite").ArgIs(3, arg), 1, 1)
	}
	c.Callers(F+"startWrite", allWriters...)
	c.Writers("http2.Framer.wbuf", F+"startWrite", F+"writeByte", F+"writeBytes", F+"writeUint16", F+"writeUint32", F+"startWriteDataPadded", F+"WriteHeaders", F+"WriteContinuation", F+"WritePushPromise")

	// ------------------------------------------------------------ SETTINGS records
	if fn := c.MustFn("(*http2.SettingsFrame).Setting"); fn != nil {
		bad, n := "", 0
		for _, b := range fn.Blocks {
			for _, in := range b.Instrs {
				call, ok := in.(*ssa.Call)
				if !ok {
					continue
				}
				name := CalleeName(&call.Call)
				if !strings.HasPrefix(name, "(encoding/binary.bigEndian).Uint") {
					continue
				}
				n++
				sl, ok := BaselineArgs(&call.Call)[len(BaselineArgs(&call.Call))-1].(*ssa.Slice)
				if !ok || sl.Low == nil || sl.High == nil {
					bad = "decode argument is not p[a:b]"
					continue
				}
				lo, hi := Linearize(sl.Low), Linearize(sl.High)
				w := frLinSub(hi, lo)
				wantW, wantOff := int64(2), int64(0)
				if strings.HasSuffix(name, "32") {
					wantW, wantOff = 4, 2
				}
				if len(w.Coef) != 0 || w.K != wantW || lo.Coef["$0"] != 6 || len(lo.Coef) != 1 || lo.K != wantOff {
					bad = fmt.Sprintf("%s reads [%s : %s], layout says 6*i+%d width %d", name, lo, hi, wantOff, wantW)
				}
			}
		}
		c.Check(bad == "" && n == 2, "codec-layout", "(*http2.SettingsFrame).Setting decodes u16 at 6*i and u32 at 6*i+2", fn.Pos(), "", fmt.Sprintf("%s (%d decode calls)", bad, n))
	}
	c.Has("(*http2.SettingsFrame).NumSettings", RetTerm(0, "(len($r.p)/6)"))

	// ------------------------------------------------------------ frame header
	expectStores := func(fnName string, want []string) {
		fn := c.MustFn(fnName)
		if fn == nil {
			return
		}
		var got []string
		for _, b := range fn.Blocks {
			for _, in := range b.Instrs {
				if st, ok := in.(*ssa.Store); ok {
					if ia, ok := st.Addr.(*ssa.IndexAddr); ok {
						if _, isAlloc := ia.X.(*ssa.Alloc); isAlloc {
							got = append(got, Term(st.Val))
						}
					}
				}
			}
		}
		c.Check(strings.Join(got, ",") == strings.Join(want, ","), "codec-layout", fnName+" emits bytes ["+strings.Join(want, ",")+"]", fn.Pos(), "", "emits ["+strings.Join(got, ",")+"]")
	}
	expectStores(F+"startWrite", []string{"0", "0", "0", "$0", "$1", "($2>>24)", "($2>>16)", "($2>>8)", "$2"})
	expectStores(F+"endWrite", []string{"((len($r.wbuf)-9)>>16)", "((len($r.wbuf)-9)>>8)", "(len($r.wbuf)-9)"})
	expectStores(F+"writeUint32", []string{"($0>>24)", "($0>>16)", "($0>>8)", "$0"})
	expectStores(F+"writeUint16", []string{"($0>>8)", "$0"})
	expectStores(F+"writeByte", []string{"$0"})
	c.Count(F+"startWrite", Calls("builtin:append").ArgIs(0, "$r.wbuf[:0]"), 1, 1)
	c.Count(F+"endWrite", Calls("builtin:append").ArgIs(0, "$r.wbuf[:0]"), 1, 1)
	for _, p := range []string{"writeUint32", "writeUint16", "writeByte", "writeBytes"} {
		c.Count(F+p, Calls("builtin:append").ArgIs(0, "$r.wbuf"), 1, 1)
	}
	c.Count(F+"writeBytes", Calls("builtin:append").ArgIs(1, "$0"), 1, 1)
	c.Check(k("frameHeaderLen") == 9, "codec-layout", "frameHeaderLen == 9 (3+1+1+4)", token.NoPos, "", "frameHeaderLen changed")
	rh := "http2.readFrameHeader"
	for field, term := range map[string]string{"Length": "((($0[0]<<16)|($0[1]<<8))|$0[2])", "Type": "$0[3]", "Flags": "$0[4]",
		"StreamID": "(Uint32(encoding/binary.BigEndian,$0[5:])&2147483647)"} {
		c.Count(rh, Stores("http2.FrameHeader."+field).StoredIs(term), 1, 1)
	}
	c.Count(rh, Calls("io.ReadFull").ArgIs(1, "$0[:9]"), 1, 1)
	c.ErrTestedBefore(rh, Calls("io.ReadFull"), 1, RetOK())
	c.Has("http2.readUint32", RetOK().Where("rest=p[4:], v=BigEndian.Uint32(p[:4])", func(in ssa.Instruction) bool {
		r := in.(*ssa.Return)
		return Term(r.Results[0]) == "$0[4:]" && Term(r.Results[1]) == "Uint32(encoding/binary.BigEndian,$0[:4])"
	}))
	c.Has("http2.readByte", RetOK().Where("rest=p[1:], b=p[0]", func(in ssa.Instruction) bool {
		r := in.(*ssa.Return)
		return Term(r.Results[0]) == "$0[1:]" && Term(r.Results[1]) == "$0[0]"
	}))

	// ------------------------------------------------------------ guards
	ew := F + "endWrite"
	c.Reject(ew, Calls(".Write"), "len($r.wbuf) - @http2.frameHeaderLen >= 16777216")
	c.Count(ew, Calls(".Write").ArgIs(0, "$r.wbuf"), 1, 1)
	c.Reject(F+"startWriteDataPadded", RetOK(), "len($3) > 0", "len($3) > 255")
	if init, pk := c.P.VarDecl("http2.padZeros"); init != nil {
		n := int64(-1)
		if call, ok := init.(*ast.CallExpr); ok && len(call.Args) == 2 {
			if id, ok := call.Fun.(*ast.Ident); ok && id.Name == "make" {
				n, _ = IntOf(pk, call.Args[1])
			}
		}
		c.Check(n >= 255, "table-exhaustive", "http2.padZeros holds at least 255 zero bytes (PadLength is a uint8)", init.Pos(), fmt.Sprint(n), fmt.Sprintf("make length %d", n))
	} else {
		c.Undecided("anchor", "http2.padZeros", "initialiser not found")
	}
	for _, f := range []string{"http2.HeadersFrameParam.PadLength", "http2.PushPromiseParam.PadLength"} {
		if fv := c.P.Field(f); fv != nil {
			b, _ := fv.Type().Underlying().(*types.Basic)
			c.Check(b != nil && b.Kind() == types.Uint8, "table-exhaustive", f+" is a uint8", token.NoPos, "", "type changed: padZeros[:PadLength] may exceed the pool")
		} else {
			c.Undecided("anchor", f, "field not found")
		}
	}

	// ------------------------------------------------------------ 31-bit masks
	maskCheck := func(fnName string, op token.Token, want uint64, min int) {
		fn := c.MustFn(fnName)
		if fn == nil {
			return
		}
		n, bad := 0, ""
		for _, f := range Closures(fn) {
			for _, b := range f.Blocks {
				for _, in := range b.Instrs {
					bo, ok := in.(*ssa.BinOp)
					if !ok || bo.Op != op {
						continue
					}
					for _, side := range []ssa.Value{bo.X, bo.Y} {
						if kc, ok := side.(*ssa.Const); ok && kc.Value != nil && kc.Value.Kind() == constant.Int {
							v := kc.Uint64()
							if v >= 1<<16 { // a stream-id sized mask
								n++
								if v != want {
									bad = fmt.Sprintf("mask 0x%x", v)
								}
							}
						}
					}
				}
			}
		}
		name := "2^31-1"
		if want == 1<<31 {
			name = "2^31"
		}
		c.Check(bad == "" && n >= min, "mask-agreement", fmt.Sprintf("%s: stream-id sized %s constants are %s (at least %d)", fnName, op, name, min), fn.Pos(), fmt.Sprintf("%d site(s)", n), fmt.Sprintf("%s; %d site(s)", bad, n))
	}
	for _, r := range []string{"http2.readFrameHeader", "http2.parseHeadersFrame", "http2.parsePriorityFrame", "http2.parsePushPromise", "http2.parseGoAwayFrame", "http2.parseWindowUpdateFrame", "http2.parsePriorityUpdateFrame"} {
		maskCheck(r, token.AND, 1<<31-1, 1)
	}
	maskCheck(F+"WriteGoAway", token.AND, 1<<31-1, 1)
	maskCheck(F+"WriteHeaders", token.OR, 1<<31, 1)
	maskCheck(F+"WritePriority", token.OR, 1<<31, 1)
	maskCheck("http2.validStreamID", token.AND, 1<<31, 1)
	maskCheck("http2.validStreamIDOrZero", token.AND, 1<<31, 1)
	// the exclusive bit is set under the Exclusive argument and recovered as "value differs from its masked form"
	c.Guard(F+"WriteHeaders", Calls(F+"writeUint32"), "!IsZero($0.Priority)")
	c.Count(F+"WriteHeaders", Calls(F+"writeUint32").ArgIs(1, "φ($0.Priority.StreamDep|($0.Priority.StreamDep|2147483648))"), 1, 1)
	c.Count(F+"WritePriority", Calls(F+"writeUint32").ArgIs(1, "φ($1.StreamDep|($1.StreamDep|2147483648))"), 1, 1)
	c.Count(F+"WriteHeaders", Calls(F+"writeByte").ArgIs(1, "$0.Priority.Weight"), 1, 1)
	c.Count(F+"WritePriority", Calls(F+"writeByte").ArgIs(1, "$1.Weight"), 1, 1)
	// argument validation that keeps written values inside what the reader's masks preserve
	wwu := F + "WriteWindowUpdate"
	c.PassThroughIncl(wwu, c.Edge("$1 > 2147483647"), Loads("http2.Framer.AllowIllegalWrites"))
	c.PassThroughIncl(wwu, c.Edge("$1 < 1"), Loads("http2.Framer.AllowIllegalWrites"))
	c.NeverAfter(wwu, c.Edge("!$r.AllowIllegalWrites"), Calls(F+"startWrite"), true)
	c.Reject(F+"WritePushPromise", Calls(F+"writeUint32"), "!validStreamID($0.PromiseID)", "!$r.AllowIllegalWrites")
	c.Reject(F+"WritePriorityUpdate", Calls(F+"startWrite"), "!validStreamID($0)", "!$r.AllowIllegalWrites")
	c.Reject(F+"WritePriority", Calls(F+"startWrite"), "!validStreamIDOrZero($1.StreamDep)")
	c.Reject(F+"WriteHeaders", Calls(F+"writeUint32"), "!validStreamIDOrZero($0.Priority.StreamDep)", "!$r.AllowIllegalWrites")
	for _, w := range []string{"startWriteDataPadded", "WriteHeaders", "WritePriority", "WriteRSTStream", "WriteContinuation", "WritePushPromise"} {
		arg := "$0"
		if w == "WriteHeaders" || w == "WritePushPromise" {
			arg = "$0.StreamID"
		}
		c.Reject(F+w, Calls(F+"startWrite"), "!validStreamID("+arg+")", "!$r.AllowIllegalWrites")
	}
}
