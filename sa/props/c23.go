package props

import (
	"fmt"
	"go/token"

	"golang.org/x/tools/go/ssa"

	. "verif/sa/core"
)

func init() {
	Register(&Property{
		ID:    "C23",
		Floor: 18,
		Clauses: "QUIC packet numbers: packetNumberLength returns k exactly under pn-A < 2^(8k-1) (k=1..3, increasing, 4 otherwise) on every constant-folded path of the function (a chain of comparisons with constants, or a scan over a local constant table unrolled), i.e. the chosen length leaves pn-A below half the k-byte window; " +
			"appendPacketNumber obtains the length from packetNumberLength(pnum, largestAck) and, interpreted abstractly over bit provenance with that call answering k, appends exactly k bytes that are the low 8k bits of pn in big-endian order; " +
			"the receiver accumulates the truncated number big-endian (shift by 8, or) before decodePacketNumber; decodePacketNumber computes win = 1<<(8*len), the candidate (expected &^ (win-1)) | truncated, " +
			"and applies exactly the two RFC 9000 A.3 adjustments: +win under candidate <= expected-win/2 and candidate < 2^62-win, -win under candidate > expected+win/2 and candidate >= win.",
		NotCovered: "the arithmetic theorem that these adjustments recover pn whenever |pn - expected| < win/2 (a fact about integers, not about the shape of the code).",
		Trusted:    []string{"bit-provenance transfer functions in core/bits.go"},
		Run:        c23,
	})
	Technique["C23"] = "guard atoms in canonical linear form for the A.3 adjustments and length thresholds; abstract interpretation (bit provenance) of the packet-number byte encoder"
}

func c23(c *Ctx) {
	// --- packetNumberLength thresholds
	pl := "quic.packetNumberLength"
	lenFn := c.MustFn(pl)
	app := c.MustFn("quic.appendPacketNumber")
	if lenFn == nil || app == nil {
		return
	}
	// The length function as a list of (result, path facts): every entry-to-return path with the
	// constants of the path folded in (H3qConstPaths). A chain of comparisons with constants and a
	// scan over a local constant table (`for i, lim := range limits { if d < lim { return i + 1 } }`,
	// unrolled for the constant table length) give the same list. The checks below run on that list.
	paths, err := H3qConstPaths(lenFn)
	if err != nil {
		c.Undecided("length-threshold", pl+": paths", "cannot enumerate the paths of the length function: "+err.Error())
		return
	}
	seen := map[int]bool{}
	byLen := map[int][]H3qPath{}
	var order []int
	for _, p := range paths {
		if len(p.Known) != 1 || !p.Known[0] {
			c.Undecided("length-threshold", pl+": non-constant return", "")
			continue
		}
		k := int(p.Vals[0])
		if byLen[k] == nil {
			order = append(order, k)
		}
		byLen[k] = append(byLen[k], p)
		seen[k] = true
	}
	for _, k := range order {
		cons := fmt.Sprintf("%s returns %d", pl, k)
		// every path that returns k must carry exactly the bounds of k
		ubBad, lbBad := "", ""
		var ubPos, lbPos token.Pos
		for _, p := range byLen[k] {
			// upper bound on $0-$1
			ub := int64(-1)
			for _, a := range p.Facts {
				if a.Kind == LE && len(a.L.Coef) == 2 && a.L.Coef["$0"] == 1 && a.L.Coef["$1"] == -1 {
					if b := -a.L.K; ub < 0 || b < ub {
						ub = b
					}
				}
			}
			lb := int64(0)
			for _, a := range p.Facts {
				if a.Kind == LE && len(a.L.Coef) == 2 && a.L.Coef["$0"] == -1 && a.L.Coef["$1"] == 1 {
					if a.L.K > lb {
						lb = a.L.K
					}
				}
			}
			if k >= 1 && k < 4 {
				if want := int64(1)<<(8*uint(k)-1) - 1; ub != want && ubBad == "" {
					ubBad, ubPos = fmt.Sprintf("upper bound on pn-A is %d, want %d", ub, want), p.Ret.Pos()
				}
			}
			if k > 1 && k <= 8 {
				if want := int64(1) << (8*uint(k-1) - 1); lb != want && lbBad == "" {
					lbBad, lbPos = fmt.Sprintf("lower bound on pn-A is %d, want %d", lb, want), p.Ret.Pos()
				}
			}
		}
		if k >= 1 && k < 4 {
			c.Check(ubBad == "", "length-threshold", cons+fmt.Sprintf(" only under pn-A <= 2^%d-1 (half the %d-byte window)", 8*k-1, k), ubPos, "", ubBad)
		}
		if k > 1 && k <= 8 {
			c.Check(lbBad == "", "length-threshold", cons+" only when the shorter length does not suffice", lbPos, "", lbBad)
		}
		if k < 1 || k > 4 {
			c.Fail("length-threshold", cons, byLen[k][0].Ret.Pos(), "a packet number is encoded in 1 to 4 bytes")
			continue
		}
		// --- the encoder given this length: exactly k big-endian bytes of pnum. The encoder obtains the
		// length from packetNumberLength(pnum, largestAck) (the Has rule below); inside the interpretation
		// that call is answered with k, the result the length function was just shown to have under the
		// facts of these paths, and only for exactly those two arguments.
		pn := InputBV("pn", 64, 62)
		pn.Signed = true
		la := InputBV("ack", 64, 62)
		la.Signed = true
		kk := k
		it := &Interp{P: c.P, Assume: byLen[k][0].Facts, Hooks: map[string]func(args []AVal) (AVal, error){
			pl: func(args []AVal) (AVal, error) {
				if len(args) != 2 || args[0] != AVal(pn) || args[1] != AVal(la) {
					return nil, ErrUndecided{Why: pl + " is not called with (pnum, largestAck)"}
				}
				return ConstBV(uint64(kk), 64, true), nil
			},
		}}
		out, err := it.Call(app, []AVal{SymSlice("b"), pn, la})
		if err != nil {
			c.Fail("bits:encode", fmt.Sprintf("quic.appendPacketNumber length %d", k), app.Pos(), "abstract interpretation failed: "+err.Error())
			continue
		}
		elems, sym, ok := SliceElems(out)
		good := ok && sym == "b" && len(elems) == k
		why := ""
		if !good {
			why = fmt.Sprintf("appended %d bytes, want %d", len(elems), k)
		}
		for i := 0; good && i < k; i++ {
			bv, _ := elems[i].(BV)
			for bit := 0; bit < 8; bit++ {
				src := 8*(k-1-i) + bit
				if bv.B[bit] != (Bit{K: 2, Src: "pn", Idx: uint8(src)}) {
					good = false
					why = fmt.Sprintf("byte %d bit %d is %v, want bit %d of pn", i, bit, bv.B[bit], src)
					break
				}
			}
		}
		c.Check(good, "bits:encode", fmt.Sprintf("quic.appendPacketNumber: length %d appends the low %d bits of pn big-endian", k, 8*k), app.Pos(), "", why)
	}
	c.Check(seen[1] && seen[2] && seen[3] && seen[4], "length-threshold", pl+": lengths 1..4 all produced", lenFn.Pos(), "", fmt.Sprintf("lengths returned: %v", seen))
	c.Has("quic.appendPacketNumber", Calls(pl).ArgIs(0, "$1").ArgIs(1, "$2"))

	// --- receiver: big-endian accumulation feeds decodePacketNumber
	un := "(quic.headerKey).unprotect"
	c.ArgFrom(un, Calls("quic.decodePacketNumber"), 1, "a big-endian accumulation (x<<8 | byte)", func(v ssa.Value) bool {
		bo, ok := v.(*ssa.BinOp)
		if !ok || bo.Op != token.OR {
			return false
		}
		sh, ok := bo.X.(*ssa.BinOp)
		if !ok || sh.Op != token.SHL {
			return false
		}
		k, ok := sh.Y.(*ssa.Const)
		return ok && k.Int64() == 8
	})
	c.Has(un, Calls("quic.decodePacketNumber").ArgIs(0, "$2"))

	// --- decodePacketNumber: RFC 9000 A.3
	dp := "quic.decodePacketNumber"
	const win = "(1<<($2*8))"
	const hwin = "((1<<($2*8))/2)"
	const cand = "((($0+1)&^(" + win + "-1))|$1)"
	up := RetTerm(0, "("+cand+"+"+win+")")
	down := RetTerm(0, "("+cand+"-"+win+")")
	c.Guard(dp, up, cand+" <= $0+1-"+hwin, cand+" < 4611686018427387904-"+win)
	c.Guard(dp, down, cand+" > $0+1+"+hwin, cand+" >= "+win)
	c.Has(dp, RetTerm(0, cand))
	if fn := c.MustFn(dp); fn != nil {
		other := 0
		for _, r := range Returns().F(c.P, fn) {
			t := Term(r.(*ssa.Return).Results[0])
			if t != cand && t != "("+cand+"+"+win+")" && t != "("+cand+"-"+win+")" {
				other++
			}
		}
		c.Check(other == 0, "result-shape", dp+": every result is candidate, candidate+win or candidate-win", fn.Pos(), "", fmt.Sprintf("%d return(s) of another shape", other))
	}
}
