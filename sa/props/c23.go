package props

import (
	"fmt"
	"go/token"

	"golang.org/x/tools/go/ssa"

	. "verif/sa/core"
)

func init() {
	Register(&Property{
		ID:    "C23",
		Floor: 18,
		Clauses: "QUIC packet numbers: packetNumberLength returns k exactly under pn-A < 2^(8k-1) (k=1..3, increasing, 4 otherwise), i.e. the chosen length leaves pn-A below half the k-byte window; " +
			"appendPacketNumber, interpreted abstractly over bit provenance under each of those guards, appends exactly k bytes that are the low 8k bits of pn in big-endian order; " +
			"the receiver accumulates the truncated number big-endian (shift by 8, or) before decodePacketNumber; decodePacketNumber computes win = 1<<(8*len), the candidate (expected &^ (win-1)) | truncated, " +
			"and applies exactly the two RFC 9000 A.3 adjustments: +win under candidate <= expected-win/2 and candidate < 2^62-win, -win under candidate > expected+win/2 and candidate >= win.",
		NotCovered: "the arithmetic theorem that these adjustments recover pn whenever |pn - expected| < win/2 (a fact about integers, not about the shape of the code).",
		Trusted:    []string{"bit-provenance transfer functions in core/bits.go"},
		Run:        c23,
	})
	Technique["C23"] = "guard atoms in canonical linear form for the A.3 adjustments and length thresholds; abstract interpretation (bit provenance) of the packet-number byte encoder"
}

func c23(c *Ctx) {
	// --- packetNumberLength thresholds
	pl := "quic.packetNumberLength"
	lenFn := c.MustFn(pl)
	app := c.MustFn("quic.appendPacketNumber")
	if lenFn == nil || app == nil {
		return
	}
	seen := map[int]bool{}
	for _, ret := range Returns().F(c.P, lenFn) {
		r := ret.(*ssa.Return)
		kc, ok := r.Results[0].(*ssa.Const)
		if !ok {
			c.Undecided("length-threshold", pl+": non-constant return", "")
			continue
		}
		k := int(kc.Int64())
		seen[k] = true
		fs := FactsAtInstr(ret)
		// upper bound on $0-$1
		ub := int64(-1)
		for _, f := range fs {
			if f.Atom.Kind == LE && len(f.Atom.L.Coef) == 2 && f.Atom.L.Coef["$0"] == 1 && f.Atom.L.Coef["$1"] == -1 {
				if b := -f.Atom.L.K; ub < 0 || b < ub {
					ub = b
				}
			}
		}
		lb := int64(0)
		for _, f := range fs {
			if f.Atom.Kind == LE && len(f.Atom.L.Coef) == 2 && f.Atom.L.Coef["$0"] == -1 && f.Atom.L.Coef["$1"] == 1 {
				if f.Atom.L.K > lb {
					lb = f.Atom.L.K
				}
			}
		}
		cons := fmt.Sprintf("%s returns %d", pl, k)
		if k < 4 {
			want := int64(1)<<(8*uint(k)-1) - 1
			c.Check(ub == want, "length-threshold", cons+fmt.Sprintf(" only under pn-A <= 2^%d-1 (half the %d-byte window)", 8*k-1, k), ret.Pos(),
				"", fmt.Sprintf("upper bound on pn-A is %d, want %d", ub, want))
		}
		if k > 1 {
			want := int64(1) << (8*uint(k-1) - 1)
			c.Check(lb == want, "length-threshold", cons+" only when the shorter length does not suffice", ret.Pos(), "", fmt.Sprintf("lower bound on pn-A is %d, want %d", lb, want))
		}
		// --- the encoder under this guard: exactly k big-endian bytes of pnum
		it := &Interp{P: c.P, Assume: atomsOf(fs)}
		pn := InputBV("pn", 64, 62)
		pn.Signed = true
		la := InputBV("ack", 64, 62)
		la.Signed = true
		out, err := it.Call(app, []AVal{SymSlice("b"), pn, la})
		if err != nil {
			c.Fail("bits:encode", fmt.Sprintf("quic.appendPacketNumber length %d", k), app.Pos(), "abstract interpretation failed: "+err.Error())
			continue
		}
		elems, sym, ok := SliceElems(out)
		good := ok && sym == "b" && len(elems) == k
		why := ""
		if !good {
			why = fmt.Sprintf("appended %d bytes, want %d", len(elems), k)
		}
		for i := 0; good && i < k; i++ {
			bv, _ := elems[i].(BV)
			for bit := 0; bit < 8; bit++ {
				src := 8*(k-1-i) + bit
				if bv.B[bit] != (Bit{K: 2, Src: "pn", Idx: uint8(src)}) {
					good = false
					why = fmt.Sprintf("byte %d bit %d is %v, want bit %d of pn", i, bit, bv.B[bit], src)
					break
				}
			}
		}
		c.Check(good, "bits:encode", fmt.Sprintf("quic.appendPacketNumber: length %d appends the low %d bits of pn big-endian", k, 8*k), app.Pos(), "", why)
	}
	c.Check(seen[1] && seen[2] && seen[3] && seen[4], "length-threshold", pl+": lengths 1..4 all produced", lenFn.Pos(), "", fmt.Sprintf("lengths returned: %v", seen))
	c.Has("quic.appendPacketNumber", Calls(pl).ArgIs(0, "$1").ArgIs(1, "$2"))

	// --- receiver: big-endian accumulation feeds decodePacketNumber
	un := "(quic.headerKey).unprotect"
	c.ArgFrom(un, Calls("quic.decodePacketNumber"), 1, "a big-endian accumulation (x<<8 | byte)", func(v ssa.Value) bool {
		bo, ok := v.(*ssa.BinOp)
		if !ok || bo.Op != token.OR {
			return false
		}
		sh, ok := bo.X.(*ssa.BinOp)
		if !ok || sh.Op != token.SHL {
			return false
		}
		k, ok := sh.Y.(*ssa.Const)
		return ok && k.Int64() == 8
	})
	c.Has(un, Calls("quic.decodePacketNumber").ArgIs(0, "$2"))

	// --- decodePacketNumber: RFC 9000 A.3
	dp := "quic.decodePacketNumber"
	const win = "(1<<($2*8))"
	const hwin = "((1<<($2*8))/2)"
	const cand = "((($0+1)&^(" + win + "-1))|$1)"
	up := RetTerm(0, "("+cand+"+"+win+")")
	down := RetTerm(0, "("+cand+"-"+win+")")
	c.Guard(dp, up, cand+" <= $0+1-"+hwin, cand+" < 4611686018427387904-"+win)
	c.Guard(dp, down, cand+" > $0+1+"+hwin, cand+" >= "+win)
	c.Has(dp, RetTerm(0, cand))
	if fn := c.MustFn(dp); fn != nil {
		other := 0
		for _, r := range Returns().F(c.P, fn) {
			t := Term(r.(*ssa.Return).Results[0])
			if t != cand && t != "("+cand+"+"+win+")" && t != "("+cand+"-"+win+")" {
				other++
			}
		}
		c.Check(other == 0, "result-shape", dp+": every result is candidate, candidate+win or candidate-win", fn.Pos(), "", fmt.Sprintf("%d return(s) of another shape", other))
	}
}
