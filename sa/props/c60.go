package props

import (
	"fmt"
	"go/ast"
	"go/token"
	"sort"
	"strings"

	"golang.org/x/tools/go/ssa"

	. "verif/sa/core"
)

func init() {
	Register(&Property{
		ID:    "C60",
		Floor: 95,
		Clauses: "per struct field, the byte offsets / widths / byte order written by the marshaller equal those read by the parser (extracted from index expressions, sub-slice bounds, encoding/binary calls and copy; constant GOOS branches folded for the default build): " +
			"ipv4.Header (TOS TotalLen ID Flags FragOff TTL Protocol Checksum Src Dst Options, plus the version/IHL byte and the flags/fragment-offset bit packing), icmp.Message (Type Code), Echo, ExtendedEchoRequest, ExtendedEchoReply (including flag bit masks and the State shift), PacketTooBig, ParamProb; " +
			"RFC 4884 length octet (ICMPv4 byte 1 in 4-byte words, ICMPv6 byte 0 in 8-byte words) on both sides; extension header version nibble and checksum bytes; " +
			"Message.Marshal: header bytes 2,3 start at zero, the checksum is computed over the buffer after the body has been appended (no append after it) and XORed low byte -> offset 2, high byte -> offset 3 relative to the returned slice, matching checksum()'s even-low/odd-high summation, final fold and complement; ICMPv6 without pseudo-header returns before the checksum; " +
			"ParseMessage: length guard, Checksum from bytes 2..3 big-endian, body parsed from b[4:], protocol switch; every MessageBody implementation other than the extension objects is produced by a registered parser (or the raw default), ipv4/ipv6 types of the same name share a parser, echo/extended-echo/packet-too-big types map to their parsers, and the extension object types marshalled by marshalMultipartMessageBody are exactly those parseExtensions produces.",
		NotCovered: "value equality of parsed and original messages at run time (padding of original datagrams, nil-versus-empty slices); MPLS/InterfaceInfo/InterfaceIdent object layouts; ipv4/ipv6 control-message (cmsg) codecs, which are OS-specific; non-default GOOS branches of ipv4.Header; arithmetic correctness of the one's-complement sum for all lengths; panic-freedom of the parsers.",
		Run:        c60,
	})
}

// accSig renders one byte access as a set of canonical position tokens.
func accSig(a ByteAccess) []string {
	var lo, hi int64
	var okLo, okHi bool
	if _, err := fmt.Sscanf(a.Off, "%d", &lo); err == nil && fmt.Sprint(lo) == a.Off {
		okLo = true
	}
	if a.Hi != "" {
		if _, err := fmt.Sscanf(a.Hi, "%d", &hi); err == nil && fmt.Sprint(hi) == a.Hi {
			okHi = true
		}
	}
	if !okLo {
		return []string{a.Enc + ":@" + a.Off}
	}
	switch a.Enc {
	case "u8":
		return []string{fmt.Sprintf("raw:%d", lo)}
	case "be", "le":
		return []string{fmt.Sprintf("%s%d:%d", a.Enc, 8*a.Width, lo)}
	case "copy":
		if okHi && hi > lo && hi-lo <= 64 {
			var out []string
			for k := lo; k < hi; k++ {
				out = append(out, fmt.Sprintf("raw:%d", k))
			}
			return out
		}
		return []string{fmt.Sprintf("raw:%d-", lo)}
	}
	return []string{a.String()}
}

func constOff(a ByteAccess) bool {
	var n int64
	_, err := fmt.Sscanf(a.Off, "%d", &n)
	return err == nil && fmt.Sprint(n) == a.Off
}

// bitOf recognises x|m (writer) and x&m != 0 (reader condition) with a constant mask.
func bitOf(v ssa.Value) string {
	v = StripConv(v)
	bo, ok := v.(*ssa.BinOp)
	if !ok {
		return ""
	}
	switch bo.Op {
	case token.OR:
		if m, ok := ConstInt64(bo.Y); ok {
			return fmt.Sprintf(" bit%d", m)
		}
	case token.NEQ, token.EQL:
		if z, ok := ConstInt64(bo.Y); ok && z == 0 {
			if and, ok := StripConv(bo.X).(*ssa.BinOp); ok && and.Op == token.AND {
				if m, ok := ConstInt64(and.Y); ok {
					return fmt.Sprintf(" bit%d", m)
				}
			}
		}
	}
	return ""
}

func addSig(m map[string]map[string]bool, field string, sigs []string, suffix string) {
	if m[field] == nil {
		m[field] = map[string]bool{}
	}
	for _, s := range sigs {
		m[field][s+suffix] = true
	}
}

// writerLayout: field -> positions written with a value computed from that field.
func writerLayout(c *Ctx, fn *ssa.Function, typeQ string) map[string]map[string]bool {
	out := map[string]map[string]bool{}
	_, writes := M60ByteAccesses(fn)
	for _, w := range writes {
		if !constOff(w) {
			continue
		}
		// the value's provenance is not followed through reads of the buffer being filled (b[k] |= m)
		fields := c.P.FieldLoadsContent(w.Val, typeQ)
		suffix := ""
		if len(fields) == 0 && bitOf(w.Val) != "" {
			// flag pattern: if p.F { b[k] |= m }
			suffix = bitOf(w.Val)
			set := map[string]bool{}
			for _, f := range FactsAtInstr(w.In) {
				for _, fl := range c.P.FieldLoads(f.If.Cond, typeQ) {
					set[fl] = true
				}
			}
			for fl := range set {
				fields = append(fields, fl)
			}
		}
		for _, f := range fields {
			addSig(out, f, accSig(w), suffix)
		}
	}
	return out
}

// readerLayout: field -> positions the value stored into that field is computed from.
func readerLayout(c *Ctx, fn *ssa.Function, typeQ string) map[string]map[string]bool {
	out := map[string]map[string]bool{}
	reads, _ := M60ByteAccesses(fn)
	byVal := map[ssa.Value]ByteAccess{}
	for _, r := range reads {
		if r.Enc == "copy" {
			// destination names the field
			if f := LoadedField(StripConv(r.Val)); strings.HasPrefix(f, typeQ+".") && constOff(r) {
				addSig(out, strings.TrimPrefix(f, typeQ+"."), accSig(r), "")
			}
			continue
		}
		byVal[r.Val] = r
	}
	readsOf := func(v ssa.Value) [][]string {
		var sigs [][]string
		BackwardContent(v, func(x ssa.Value) bool {
			if r, ok := byVal[x]; ok && constOff(r) {
				sigs = append(sigs, accSig(r))
				return false
			}
			return true
		})
		return sigs
	}
	stores := c.P.FieldStores(fn, typeQ)
	via := map[string]map[string]bool{} // field -> fields its value is loaded from
	for f, sts := range stores {
		for _, st := range sts {
			sigs := readsOf(st.Val)
			// direct flag form: p.F = b[k]&m != 0 (e.g. inside a composite literal)
			direct := bitOf(st.Val)
			for _, s := range sigs {
				addSig(out, f, s, direct)
			}
			loaded := c.P.FieldLoadsContent(st.Val, typeQ)
			for _, g := range loaded {
				if g != f {
					if via[f] == nil {
						via[f] = map[string]bool{}
					}
					via[f][g] = true
				}
			}
			if _, isConst := st.Val.(*ssa.Const); isConst && len(sigs) == 0 && len(loaded) == 0 {
				// flag pattern: if b[k]&m != 0 { p.F = true }
				for _, fa := range FactsAtInstr(st) {
					suffix := bitOf(fa.If.Cond)
					if suffix == "" {
						continue
					}
					for _, s := range readsOf(fa.If.Cond) {
						addSig(out, f, s, suffix)
					}
				}
			}
		}
	}
	for iter := 0; iter < 4; iter++ {
		for f, gs := range via {
			for g := range gs {
				for s := range out[g] {
					addSig(out, f, []string{s}, "")
				}
			}
		}
	}
	return out
}

func sigString(m map[string]bool) string {
	var ss []string
	for s := range m {
		ss = append(ss, s)
	}
	sort.Strings(ss)
	return "{" + strings.Join(ss, " ") + "}"
}

func layoutAgree(c *Ctx, writers []string, readers []string, typeQ string, fields ...string) {
	w, r := map[string]map[string]bool{}, map[string]map[string]bool{}
	merge := func(dst, src map[string]map[string]bool) {
		for f, m := range src {
			for s := range m {
				addSig(dst, f, []string{s}, "")
			}
		}
	}
	for _, n := range writers {
		fn := c.MustFn(n)
		if fn == nil {
			return
		}
		merge(w, writerLayout(c, fn, typeQ))
	}
	for _, n := range readers {
		fn := c.MustFn(n)
		if fn == nil {
			return
		}
		merge(r, readerLayout(c, fn, typeQ))
	}
	pos := c.P.Fn(writers[0]).Pos()
	for _, f := range fields {
		construct := fmt.Sprintf("%s.%s: %s writes what %s reads", typeQ, f, strings.Join(writers, "+"), strings.Join(readers, "+"))
		ws, rs := sigString(w[f]), sigString(r[f])
		switch {
		case len(w[f]) == 0 || len(r[f]) == 0:
			c.Fail("codec-layout", construct, pos, fmt.Sprintf("field position not recognised: writer %s reader %s", ws, rs))
		case ws != rs:
			c.Fail("codec-layout", construct, pos, fmt.Sprintf("writer puts the field at %s but the reader takes it from %s", ws, rs))
		default:
			c.OK("codec-layout", construct, ws)
		}
	}
}

func c60(c *Ctx) {
	// ---- ipv4.Header ----
	const HM = "(*ipv4.Header).Marshal"
	const HP = "(*ipv4.Header).Parse"
	layoutAgree(c, []string{HM}, []string{HP}, "ipv4.Header",
		"TOS", "TotalLen", "ID", "Flags", "FragOff", "TTL", "Protocol", "Checksum", "Src", "Dst", "Options")
	ver, _ := c.P.ConstInt("ipv4.Version")
	hl, _ := c.P.ConstInt("ipv4.HeaderLen")
	hdrlen := fmt.Sprintf("(%d+len($r.Options))", hl)
	c.Has(HM, StoresWhere("b[0] = Version<<4 | (hdrlen>>2)&0xf", func(st *ssa.Store) bool {
		return strings.HasSuffix(Term(st.Addr), "[0]") && Term(st.Val) == fmt.Sprintf("(%d|((%s>>2)&15))", ver<<4, hdrlen)
	}))
	c.Has(HM, InstrsWhere("make([]byte, HeaderLen+len(Options))", func(in ssa.Instruction) bool {
		mk, ok := in.(*ssa.MakeSlice)
		return ok && Term(mk.Len) == hdrlen
	}))
	c.Has(HP, Stores("ipv4.Header.Len").StoredIs("(($0[0]&15)<<2)"))
	c.Has(HP, Stores("ipv4.Header.Version").StoredIs("($0[0]>>4)"))
	// the flags/fragment-offset packing is what is written big-endian (in the analysed configuration) at bytes 6..8,
	// whether through binary.BigEndian directly or through a byte-order value that can only be BigEndian there
	c.Has(HM, M60ByteWrites("live big-endian 16-bit write of (FragOff&0x1fff)|(Flags<<13)", func(w ByteAccess) bool {
		return w.Enc == "be" && w.Width == 2 && Term(w.Val) == "(($r.FragOff&8191)|($r.Flags<<13))"
	}))
	c.Has(HP, Stores("ipv4.Header.Flags").StoredIs("(($r.FragOff&57344)>>13)"))
	c.Has(HP, Stores("ipv4.Header.FragOff").StoredIs("($r.FragOff&8191)"))
	c.Before(HP, Stores("ipv4.Header.Flags"), Stores("ipv4.Header.FragOff").StoredIs("($r.FragOff&8191)"))
	c.Reject(HP, RetOK(), fmt.Sprintf("len($0) < %d", hl))
	c.Reject(HP, RetOK(), "len($0) < 4*($0[0]&15)")
	c.Reject(HM, RetOK(), "To4($r.Dst) == nil")
	c.Has("ipv4.ParseHeader", Calls(HP).ArgIs(1, "$0"))

	// ---- icmp.Message ----
	const MM = "(*icmp.Message).Marshal"
	const PM = "icmp.ParseMessage"
	layoutAgree(c, []string{MM}, []string{PM}, "icmp.Message", "Type", "Code")
	if fn := c.MustFn(PM); fn != nil {
		r := readerLayout(c, fn, "icmp.Message")
		c.Check(sigString(r["Checksum"]) == "{be16:2}", "codec-layout", PM+": Checksum read big-endian from bytes 2..3", fn.Pos(), "", "Checksum is read from "+sigString(r["Checksum"]))
	}
	c.Reject(PM, RetOK(), "len($1) < 4")
	icmp4, _ := c.P.ConstInt("internal/iana.ProtocolICMP")
	icmp6, _ := c.P.ConstInt("internal/iana.ProtocolIPv6ICMP")
	c.Guard(PM, Stores("icmp.Message.Type").StoredIs("$1[0]").Where("as ipv4.ICMPType", func(in ssa.Instruction) bool {
		return strings.Contains(in.(*ssa.Store).Val.(*ssa.MakeInterface).X.Type().String(), "ipv4.ICMPType")
	}), fmt.Sprintf("$0 == %d", icmp4))
	c.Guard(PM, Stores("icmp.Message.Type").StoredIs("$1[0]").Where("as ipv6.ICMPType", func(in ssa.Instruction) bool {
		return strings.Contains(in.(*ssa.Store).Val.(*ssa.MakeInterface).X.Type().String(), "ipv6.ICMPType")
	}), fmt.Sprintf("$0 == %d", icmp6))
	bodyArg := func(in ssa.Instruction) bool {
		args := BaselineArgs(&in.(*ssa.Call).Call)
		return Term(args[len(args)-1]) == "$1[4:]"
	}
	c.Has(PM, Calls("icmp.parseRawBody").Where("on b[4:]", bodyArg))
	c.Has(PM, InstrsWhere("registered parser called on b[4:]", func(in ssa.Instruction) bool {
		call, ok := in.(*ssa.Call)
		if !ok || call.Call.IsInvoke() || len(BaselineArgs(&call.Call)) != 3 {
			return false
		}
		ex, ok := call.Call.Value.(*ssa.Extract)
		if !ok {
			return false
		}
		lk, ok := ex.Tuple.(*ssa.Lookup)
		return ok && Term(lk.X) == "icmp.parseFns" && bodyArg(in) && Term(BaselineArgs(&call.Call)[0]) == "$0"
	}))

	// checksum placement in Message.Marshal
	if fn := c.MustFn(MM); fn != nil {
		_, writes := ByteAccesses(fn)
		zero := map[string]bool{}
		placed := map[string]string{}
		for _, w := range writes {
			if k, ok := ConstInt64(w.Val); ok && k == 0 && constOff(w) {
				zero[w.Off] = true
			}
			if x, ok := StripConv(w.Val).(*ssa.BinOp); ok && x.Op == token.XOR {
				y := StripConv(x.Y)
				sh := int64(0)
				if s, ok := y.(*ssa.BinOp); ok && s.Op == token.SHR {
					sh, _ = ConstInt64(s.Y)
					y = StripConv(s.X)
				}
				if IsCallTo("icmp.checksum")(y) {
					if ld, ok := StripConv(x.X).(*ssa.UnOp); ok && Term(ld.X) == Term(w.In.(*ssa.Store).Addr) {
						placed[w.Off] = fmt.Sprintf("s>>%d", sh)
					}
				}
			}
		}
		c.Check(zero["2"] && zero["3"], "codec-layout", MM+": header bytes 2,3 are initialised to zero", fn.Pos(), "", "the 4-byte header literal does not zero bytes 2 and 3")
		c.Check(placed["len($0)+2"] == "s>>0" && placed["len($0)+3"] == "s>>8" && len(placed) == 2, "codec-layout",
			MM+": b[len(psh)+2] ^= byte(s), b[len(psh)+3] ^= byte(s>>8)", fn.Pos(), "", fmt.Sprintf("checksum bytes placed as %v", placed))
		c.Has(MM, RetOK().Where("b[len(psh):] of the very buffer the checksum was computed over", func(in ssa.Instruction) bool {
			sl, ok := in.(*ssa.Return).Results[0].(*ssa.Slice)
			if !ok || sl.Low == nil || Term(sl.Low) != "len($0)" || sl.High != nil {
				return false
			}
			for _, x := range Calls("icmp.checksum").F(c.P, in.Parent()) {
				if BaselineArgs(&x.(*ssa.Call).Call)[0] == sl.X {
					return true
				}
			}
			return false
		}))
		cs := Calls("icmp.checksum")
		c.Count(MM, cs, 1, 1)
		c.NeverAfter(MM, cs, Calls("builtin:append"), false)
		c.Has(MM, cs.Where("over the buffer that received the body", func(in ssa.Instruction) bool {
			return DependsOn(BaselineArgs(&in.(*ssa.Call).Call)[0], func(v ssa.Value) bool {
				call, ok := v.(*ssa.Call)
				return ok && CalleeName(&call.Call) == "builtin:append" && IsCallTo(".Marshal")(StripConv(extractTuple(BaselineArgs(&call.Call)[1])))
			})
		}))
		stores := StoresWhere("of a checksum byte", func(st *ssa.Store) bool {
			return DependsOn(st.Val, IsCallTo("icmp.checksum"))
		})
		c.Before(MM, cs, stores)
		c.Guard(MM, RetOK().Where("without a preceding checksum call", func(in ssa.Instruction) bool {
			for _, x := range cs.F(c.P, in.Parent()) {
				if DomBefore(x, in) {
					return false
				}
			}
			return true
		}), fmt.Sprintf(".Protocol($r.Type) == %d", icmp6), "$0 == nil")
		c.NeverAfter(MM, c.UnderFact(c.Edge("$0 == nil"), fmt.Sprintf(".Protocol($r.Type) == %d", icmp6), true), cs, true)
		c.NeverAfter(MM, c.Edge(".Marshal($r.Body,.Protocol($r.Type))#1 != nil"), RetOK(), true)
	}
	// checksum(): even byte low, odd byte high, fold, complement
	if fn := c.MustFn("icmp.checksum"); fn != nil {
		reads, _ := ByteAccesses(fn)
		shape := map[string]bool{}
		for _, r := range reads {
			lin := ""
			if ia, ok := r.Val.(*ssa.UnOp).X.(*ssa.IndexAddr); ok {
				l := Linearize(ia.Index)
				lin = fmt.Sprintf("+%d", l.K)
				if len(l.Coef) == 1 {
					for t := range l.Coef {
						if strings.HasPrefix(t, "len(") {
							lin = "last"
						}
					}
				}
			}
			shifted := "lo"
			if refs := r.Val.Referrers(); refs != nil {
				for _, u := range *refs {
					v, ok := u.(ssa.Value)
					if !ok {
						continue
					}
					if rr := v.Referrers(); rr != nil {
						for _, uu := range *rr {
							if bo, ok := uu.(*ssa.BinOp); ok && bo.Op == token.SHL {
								if k, ok := ConstInt64(bo.Y); ok && k == 8 {
									shifted = "hi"
								}
							}
						}
					}
				}
			}
			shape[lin+":"+shifted] = true
		}
		c.Check(shape["+0:lo"] && shape["+1:hi"] && shape["last:lo"] && len(shape) == 3, "codec-layout", "icmp.checksum: sums b[i] | b[i+1]<<8 over even i and the odd trailing byte as low byte", fn.Pos(), "", fmt.Sprintf("byte roles: %v", shape))
		step2 := false
		for _, ph := range Phis(fn) {
			for _, e := range ph.Edges {
				if bo, ok := e.(*ssa.BinOp); ok && bo.Op == token.ADD && bo.X == ssa.Value(ph) {
					if k, ok := ConstInt64(bo.Y); ok && k == 2 {
						step2 = true
					}
				}
			}
		}
		c.Check(step2, "codec-layout", "icmp.checksum: index advances by 2", fn.Pos(), "", "no counter stepping by 2")
		c.Has("icmp.checksum", Returns().Where("^uint16(folded sum)", func(in ssa.Instruction) bool {
			u, ok := StripConv(in.(*ssa.Return).Results[0]).(*ssa.UnOp)
			if !ok || u.Op != token.XOR {
				return false
			}
			t := Term(u.X)
			return strings.Count(t, ">>16") >= 2 && strings.Contains(t, "&65535")
		}))
	}

	// ---- message bodies ----
	layoutAgree(c, []string{"(*icmp.Echo).Marshal"}, []string{"icmp.parseEcho"}, "icmp.Echo", "ID", "Seq", "Data")
	c.Reject("icmp.parseEcho", RetOK(), "len($2) < 4")
	layoutAgree(c, []string{"(*icmp.ExtendedEchoRequest).Marshal"}, []string{"icmp.parseExtendedEchoRequest"}, "icmp.ExtendedEchoRequest", "ID", "Seq", "Local")
	c.Reject("icmp.parseExtendedEchoRequest", RetOK(), "len($2) < 4")
	layoutAgree(c, []string{"(*icmp.ExtendedEchoReply).Marshal"}, []string{"icmp.parseExtendedEchoReply"}, "icmp.ExtendedEchoReply", "ID", "Seq", "State", "Active", "IPv4", "IPv6")
	c.Has("(*icmp.ExtendedEchoReply).Marshal", StoresWhere("b[3] = byte(State<<5) & 0xe0", func(st *ssa.Store) bool { return Term(st.Val) == "(($r.State<<5)&224)" }))
	c.Has("icmp.parseExtendedEchoReply", Stores("icmp.ExtendedEchoReply.State").StoredIs("($2[3]>>5)"))
	c.Reject("icmp.parseExtendedEchoReply", RetOK(), "len($2) < 4")
	layoutAgree(c, []string{"(*icmp.PacketTooBig).Marshal"}, []string{"icmp.parsePacketTooBig"}, "icmp.PacketTooBig", "MTU", "Data")
	layoutAgree(c, []string{"(*icmp.ParamProb).Marshal"}, []string{"icmp.parseParamProb"}, "icmp.ParamProb", "Pointer")
	c.Guard("(*icmp.ParamProb).Marshal", Calls("(encoding/binary.bigEndian).PutUint32"), fmt.Sprintf("$0 == %d", icmp6))
	c.Guard("icmp.parseParamProb", Calls("(encoding/binary.bigEndian).Uint32"), fmt.Sprintf("$0 == %d", icmp6))

	// ---- multipart bodies: RFC 4884 length octet, extension header ----
	const mm = "icmp.marshalMultipartMessageBody"
	const pm = "icmp.parseMultipartMessageBody"
	const dl = "multipartMessageBodyDataLen($0,$1,$2,$3)#1"
	c.Guard(mm, StoresWhere("b[1] = dataLen/4", func(st *ssa.Store) bool {
		return strings.HasSuffix(Term(st.Addr), "[1]") && Term(st.Val) == "("+dl+"/4)"
	}), fmt.Sprintf("$0 == %d", icmp4), "$1")
	c.Guard(mm, StoresWhere("b[0] = dataLen/8", func(st *ssa.Store) bool {
		return strings.HasSuffix(Term(st.Addr), "[0]") && Term(st.Val) == "("+dl+"/8)"
	}), fmt.Sprintf("$0 == %d", icmp6), "$1")
	if fn := c.MustFn(pm); fn != nil {
		got := map[string]bool{}
		for _, ph := range Phis(fn) {
			for _, pc := range PhiCases(ph) {
				t := Term(pc.Val)
				if t == "(4*$2[1])" && c.P.HasFact(pc.Facts, fmt.Sprintf("$0 == %d", icmp4)) {
					got["v4"] = true
				}
				if t == "(8*$2[0])" && c.P.HasFact(pc.Facts, fmt.Sprintf("$0 == %d", icmp6)) {
					got["v6"] = true
				}
			}
		}
		c.Check(got["v4"] && got["v6"], "codec-layout", pm+": original-datagram length = 4*b[1] for ICMPv4, 8*b[0] for ICMPv6", fn.Pos(), "", fmt.Sprintf("recognised: %v", got))
	}
	c.Has(mm, Calls("builtin:copy").Where("data at b[4:]", func(in ssa.Instruction) bool {
		a := BaselineArgs(&in.(*ssa.Call).Call)
		return strings.HasSuffix(Term(a[0]), "[4:]") && Term(a[1]) == "$2"
	}))
	c.Has(pm, Calls("builtin:copy").Where("data from b[4:]", func(in ssa.Instruction) bool {
		return Term(BaselineArgs(&in.(*ssa.Call).Call)[1]) == "$2[4:]"
	}))
	c.Has(pm, Calls("icmp.parseExtensions").ArgIs(0, "$1").ArgIs(1, "$2[4:]"))
	ev, _ := c.P.ConstInt("icmp.extensionVersion")
	if fn := c.MustFn(mm); fn != nil {
		_, writes := ByteAccesses(fn)
		got := map[string]string{}
		for _, w := range writes {
			if k, ok := ConstInt64(w.Val); ok {
				got[w.Off] = fmt.Sprint(k)
			}
			if x, ok := StripConv(w.Val).(*ssa.BinOp); ok && x.Op == token.XOR {
				y := StripConv(x.Y)
				sh := int64(0)
				if s, ok := y.(*ssa.BinOp); ok && s.Op == token.SHR {
					sh, _ = ConstInt64(s.Y)
					y = StripConv(s.X)
				}
				if IsCallTo("icmp.checksum")(y) {
					got[w.Off] = fmt.Sprintf("s>>%d", sh)
				}
			}
		}
		c.Check(got[dl+"+4"] == fmt.Sprint(ev<<4) && got[dl+"+6"] == "s>>0" && got[dl+"+7"] == "s>>8", "codec-layout",
			mm+": extension header = version<<4 at 4+dataLen, checksum low/high at +2/+3", fn.Pos(), "", fmt.Sprintf("recognised writes: %v", got))
		cs := Calls("icmp.checksum")
		c.Has(mm, cs.Where("over b[4+dataLen:]", func(in ssa.Instruction) bool {
			sl, ok := BaselineArgs(&in.(*ssa.Call).Call)[0].(*ssa.Slice)
			return ok && sl.High == nil && sl.Low != nil && Linearize(sl.Low).String() == dl+"+4"
		}))
		c.NeverAfter(mm, cs, Union(Calls("(*icmp.MPLSLabelStack).marshal"), Calls("(*icmp.InterfaceInfo).marshal"), Calls("(*icmp.InterfaceIdent).marshal"), Calls("builtin:copy")), false)
	}
	c.Has("icmp.validExtensionHeader", InstrsWhere("version = (b[0]&0xf0)>>4 compared with extensionVersion", func(in ssa.Instruction) bool {
		ifi, ok := in.(*ssa.If)
		return ok && strings.Contains(CondAtom(ifi.Cond).String(), "(($0[0]&240)>>4)") && strings.Contains(CondAtom(ifi.Cond).String(), fmt.Sprint(ev))
	}))
	c.Has("icmp.validExtensionHeader", Calls("icmp.checksum").ArgIs(0, "$0"))

	// ---- registries ----
	extCases := c.P.TypeSwitchCases(mm)
	var bodies []string
	for _, b := range c.P.Implementers("icmp.MessageBody") {
		// MessageBody and Extension have the same method set: bodies are the implementations that are
		// not extension objects (cases of the extension marshal switch) and not alias names
		if extCases[b] || c.P.IsAliasType("icmp."+strings.TrimPrefix(b, "*icmp.")) {
			continue
		}
		bodies = append(bodies, b)
	}
	produced := map[string]bool{}
	parserOf := map[string]string{} // "<pkg>.<ConstName>" -> parser
	if e, pk := c.P.VarDecl("icmp.parseFns"); e != nil {
		for _, el := range Elts(e) {
			k, v := KV(el)
			name := ""
			if id, ok := v.(*ast.Ident); ok {
				name = id.Name
			}
			key := ""
			if se, ok := k.(*ast.SelectorExpr); ok {
				key = se.Sel.Name
				if x, ok := se.X.(*ast.Ident); ok {
					parserOf[x.Name+"."+key] = name
				}
			}
			_ = pk
			fn := c.P.Fn("icmp." + name)
			if fn == nil {
				c.Fail("registry", "icmp.parseFns: entry "+key+" names a package function", 0, "value is not a plain function identifier")
				continue
			}
			for _, in := range RetOK().F(c.P, fn) {
				if mi, ok := in.(*ssa.Return).Results[0].(*ssa.MakeInterface); ok {
					produced[Short(mi.X.Type().String())] = true
				}
			}
		}
	} else {
		c.Undecided("registry", "icmp.parseFns", "variable not found")
	}
	if fn := c.P.Fn("icmp.parseRawBody"); fn != nil {
		for _, in := range RetOK().F(c.P, fn) {
			if mi, ok := in.(*ssa.Return).Results[0].(*ssa.MakeInterface); ok {
				produced[Short(mi.X.Type().String())] = true
			}
		}
	}
	for _, b := range bodies {
		c.Check(produced[b], "registry", "icmp: MessageBody "+b+" is produced by a parser reachable from ParseMessage", 0, "", "no registered parser (nor the raw default) returns "+b)
	}
	c.Check(len(bodies) >= 8, "registry", "icmp: MessageBody implementations found", 0, fmt.Sprint(bodies), fmt.Sprint(bodies))
	var mismatched []string
	pairs := 0
	for k, p4 := range parserOf {
		if strings.HasPrefix(k, "ipv4.") {
			if p6, ok := parserOf["ipv6."+strings.TrimPrefix(k, "ipv4.")]; ok {
				pairs++
				if p6 != p4 {
					mismatched = append(mismatched, k)
				}
			}
		}
	}
	sort.Strings(mismatched)
	c.Check(len(mismatched) == 0 && pairs >= 5, "registry", "icmp.parseFns: ipv4 and ipv6 types of the same name use the same parser", 0, fmt.Sprintf("%d pairs", pairs), strings.Join(mismatched, ","))
	for _, body := range []string{"ExtendedEchoRequest", "ExtendedEchoReply"} {
		want := "parse" + body
		c.Check(parserOf["ipv4.ICMPType"+body] == want && parserOf["ipv6.ICMPType"+body] == want, "registry", "icmp.parseFns: ICMPType"+body+" -> "+want, 0, "", fmt.Sprintf("ipv4: %s, ipv6: %s", parserOf["ipv4.ICMPType"+body], parserOf["ipv6.ICMPType"+body]))
	}
	c.Check(parserOf["ipv4.ICMPTypeEcho"] == "parseEcho" && parserOf["ipv4.ICMPTypeEchoReply"] == "parseEcho" && parserOf["ipv6.ICMPTypeEchoRequest"] == "parseEcho" && parserOf["ipv6.ICMPTypeEchoReply"] == "parseEcho",
		"registry", "icmp.parseFns: echo request/reply -> parseEcho", 0, "", "an echo type is not parsed by parseEcho")
	c.Check(parserOf["ipv6.ICMPTypePacketTooBig"] == "parsePacketTooBig", "registry", "icmp.parseFns: PacketTooBig -> parsePacketTooBig", 0, "", parserOf["ipv6.ICMPTypePacketTooBig"])
	// extension objects: every marshal case type is produced by parseExtensions and vice versa
	extProduced := map[string]bool{}
	if fn := c.MustFn("icmp.parseExtensions"); fn != nil {
		for _, p := range []string{"icmp.parseMPLSLabelStack", "icmp.parseInterfaceInfo", "icmp.parseInterfaceIdent"} {
			c.Has("icmp.parseExtensions", Calls(p))
			if pf := c.P.Fn(p); pf != nil {
				for _, in := range RetOK().F(c.P, pf) {
					if mi, ok := in.(*ssa.Return).Results[0].(*ssa.MakeInterface); ok {
						extProduced[Short(mi.X.Type().String())] = true
					}
				}
			}
		}
		for _, in := range Calls("builtin:append").F(c.P, fn) {
			if es, ok := VarArgElems(BaselineArgs(&in.(*ssa.Call).Call)[1]); ok {
				for _, e := range es {
					// the appended element may be a merge of the per-case values (one append after the
					// switch): every value that can reach it counts — a concrete object converted to
					// Extension, or the first result of a parser call (then what that parser returns)
					for _, leaf := range PhiLeaves(e) {
						for {
							ci, ok := leaf.(*ssa.ChangeInterface)
							if !ok {
								break
							}
							leaf = ci.X
						}
						if mi, ok := leaf.(*ssa.MakeInterface); ok {
							extProduced[Short(mi.X.Type().String())] = true
						}
						if ex, ok := leaf.(*ssa.Extract); ok && ex.Index == 0 {
							if call, ok := ex.Tuple.(*ssa.Call); ok {
								if pf := call.Call.StaticCallee(); pf != nil && len(pf.Blocks) > 0 {
									for _, in := range RetOK().F(c.P, pf) {
										for _, rl := range PhiLeaves(in.(*ssa.Return).Results[0]) {
											if mi, ok := rl.(*ssa.MakeInterface); ok {
												extProduced[Short(mi.X.Type().String())] = true
											}
										}
									}
								}
							}
						}
					}
				}
			}
		}
	}
	var extNames []string
	for e := range extCases {
		extNames = append(extNames, e)
	}
	sort.Strings(extNames)
	for _, e := range extNames {
		c.Check(extProduced[e], "registry", "icmp: extension "+e+" marshalled by "+mm+" is produced by parseExtensions", 0, "", "parseExtensions never yields "+e)
	}
	for e := range extProduced {
		c.Check(extCases[e], "switch-covers", mm+": type switch has a case for parsed extension "+e, 0, "", "no case for "+e)
	}
	c.Check(len(extNames) >= 4, "registry", "icmp: extension marshal cases found", 0, fmt.Sprint(extNames), fmt.Sprint(extNames))
	c.Has("icmp.parseExtensions", Stores("icmp.RawExtension.Data"))
}

func extractTuple(v ssa.Value) ssa.Value {
	if ex, ok := v.(*ssa.Extract); ok {
		return ex.Tuple
	}
	return v
}
