package props

import (
	"fmt"

	"golang.org/x/tools/go/ssa"

	. "verif/sa/core"
)

func init() {
	Register(&Property{
		ID:    "C05",
		Floor: 36,
		Clauses: "sensitive fields are never indexed, on either side. Encoder: headerFieldTable.search consults byNameValue (and returns a full match) only under !f.Sensitive; searchTable's match flag is either false or the flag of a search call on the unmodified field; " +
			"WriteField emits an index reference only under that flag; shouldIndex is false whenever f.Sensitive (every non-false result is computed under !f.Sensitive); dynTab.add in WriteField is guarded by shouldIndex and unreachable on a full match; " +
			"encodeTypeByte tests `sensitive` first and then returns only the never-indexed tag; both literal emitters pass f.Sensitive itself; evaluated over all inputs, encodeTypeByte(·,true) lands with every 4-bit index value in the decoder case that passes the index type for which sensitive() is true and indexed() is false; " +
			"the three indexType constants are distinct and indexed()/sensitive() are mutually exclusive. Decoder: parseFieldLiteral sets hf.Sensitive = it.sensitive() before callEmit, adds to the table only under it.indexed(); callEmit hands the field to emit unchanged; " +
			"the never-indexed index type is passed by exactly the dispatch case reached by the never-indexed tag. Table ownership: dynamicTable.add is called only by WriteField/parseFieldLiteral, addEntry only by add, and the two lookup maps are updated only in addEntry/evictOldest/init.",
		NotCovered: "a sensitive field may still be emitted with an indexed NAME reference (allowed by the statement); intermediaries re-encoding a decoded field (they must honour HeaderField.Sensitive themselves); values that were indexed earlier by a non-sensitive field with the same name/value stay in the tables.",
		Run:        c05,
	})
}

func c05(c *Ctx) {
	const H = "http2/hpack."
	const E = "(*http2/hpack.Encoder)."
	const D = "(*http2/hpack.Decoder)."
	const T = "(*http2/hpack.headerFieldTable)."
	const DT = "(*http2/hpack.dynamicTable)."
	wf, lit := E+"WriteField", D+"parseFieldLiteral"

	// --- encoder: lookup
	search := T + "search"
	c.Guard(search, Loads("http2/hpack.headerFieldTable.byNameValue"), "!$0.Sensitive")
	c.Guard(search, RetConst(1, "true"), "!$0.Sensitive")
	c.Reject(search, RetConst(1, "true"), "$0.Sensitive")
	st := E + "searchTable"
	c.Count(st, Calls(search), 2, 2)
	c.Count(st, Calls(search).ArgIs(1, "$0"), 2, 2)
	c05MatchFlag(c, st, search)
	c.Count(wf, Calls(st).ArgIs(1, "$0"), 1, 1)
	c.Guard(wf, Calls(H+"appendIndexed"), "searchTable($r,$0)#1")
	c.Callers(H+"appendIndexed", wf)
	c.Callers(search, st)

	// --- encoder: insertion
	c05ImpliesNotSensitive(c, E+"shouldIndex")
	c.Guard(wf, Calls(DT+"add"), "shouldIndex($r,$0)")
	c.Reject(wf, Calls(DT+"add"), "searchTable($r,$0)#1")
	c.Count(wf, Calls(DT+"add").ArgIs(1, "$0"), 1, 1)
	c.Callers(DT+"add", wf, lit)
	c.Callers(T+"addEntry", DT+"add")
	c.HxOnly("map-writers", "updates of headerFieldTable.byNameValue", c.P.HxMapUpdates("http2/hpack.headerFieldTable.byNameValue"), T+"addEntry", T+"evictOldest")
	c.HxOnly("map-writers", "updates of headerFieldTable.byName", c.P.HxMapUpdates("http2/hpack.headerFieldTable.byName"), T+"addEntry", T+"evictOldest")
	c.Writers("http2/hpack.headerFieldTable.byNameValue", T+"init", H+"init")
	c.Writers("http2/hpack.headerFieldTable.ents", T+"addEntry", T+"evictOldest", H+"init")

	// --- encoder: representation
	etb := H + "encodeTypeByte"
	c.Reject(etb, Returns().Where("result other than the never-indexed tag", func(in ssa.Instruction) bool {
		r := in.(*ssa.Return)
		return len(r.Results) != 1 || Term(r.Results[0]) != "16"
	}), "$1")
	c.Count(H+"appendNewName", Calls(etb).ArgIs(1, "$1.Sensitive"), 1, 1)
	c.Count(H+"appendIndexedName", Calls(etb).ArgIs(1, "$1.Sensitive"), 1, 1)
	c.CallArgs(etb, 1, "$1.Sensitive")
	c.Count(wf, Calls(H+"appendNewName").ArgIs(1, "$0"), 1, 1)
	c.Count(wf, Calls(H+"appendIndexedName").ArgIs(1, "$0"), 1, 1)
	c.Callers(H+"appendNewName", wf)
	c.Callers(H+"appendIndexedName", wf)

	// --- wire agreement for the never-indexed representation (exhaustive evaluation)
	hp := hpackModel(c)
	if hp != nil {
		hp.checkIndexTypes(c)
		hp.checkSensitiveTag(c)
	}

	// --- decoder
	c.Before(lit, Stores("http2/hpack.HeaderField.Sensitive").StoredIs("sensitive($1)"), Calls(D+"callEmit"))
	c.Count(lit, Stores("http2/hpack.HeaderField.Sensitive"), 1, 1)
	c.Guard(lit, Calls(DT+"add"), "indexed($1)")
	c.NeverAfter(lit, Calls(DT+"add"), Calls(DT+"add"), false)
	c.Count(D+"callEmit", Calls("fieldcall:emit").ArgIs(0, "$0"), 1, 1)
	c.HxNone(D+"callEmit", Stores("http2/hpack.HeaderField.Sensitive"))
}

// c05MatchFlag: every returned nameValueMatch flag of searchTable is the
// constant false, or the flag of a search call, or `true` under such a flag.
func c05MatchFlag(c *Ctx, fnName, search string) {
	rule := "match-flag-provenance"
	construct := fnName + ": result #1"
	fn := c.MustFn(fnName)
	if fn == nil {
		return
	}
	n := 0
	for _, in := range Returns().F(c.P, fn) {
		r := in.(*ssa.Return)
		if len(r.Results) < 2 {
			c.Undecided(rule, construct, "unexpected result arity")
			return
		}
		n++
		switch v := r.Results[1].(type) {
		case *ssa.Const:
			if Term(v) == "false" {
				continue
			}
			// constant true: must be under a search flag
			ok := false
			for _, f := range FactsAtInstr(in) {
				if f.Atom.Kind != TRUE {
					continue
				}
				if b, isCond := f.If.Cond.(*ssa.Extract); isCond && b.Index == 1 {
					if call, isCall := b.Tuple.(*ssa.Call); isCall && CalleeName(&call.Call) == search {
						ok = true
					}
				}
			}
			if !ok {
				c.Fail(rule, construct, InstrPos(in), "returns a full match that is not implied by a search() match flag")
				return
			}
		case *ssa.Extract:
			call, isCall := v.Tuple.(*ssa.Call)
			if v.Index != 1 || !isCall || CalleeName(&call.Call) != search {
				c.Fail(rule, construct, InstrPos(in), fmt.Sprintf("returns `%s` as the match flag", Term(v)))
				return
			}
		default:
			c.Fail(rule, construct, InstrPos(in), fmt.Sprintf("returns `%s` as the match flag", Term(v)))
			return
		}
	}
	if n == 0 {
		c.Undecided(rule, construct, "no return")
		return
	}
	c.OK(rule, construct, fmt.Sprintf("%d return(s)", n))
}

// c05ImpliesNotSensitive: the boolean result of fn is false whenever
// $0.Sensitive: every contribution to the result other than the constant
// false is computed in a block dominated by the !$0.Sensitive edge.
func c05ImpliesNotSensitive(c *Ctx, fnName string) {
	rule := "result-implies"
	construct := fnName + ": result ⇒ !f.Sensitive"
	fn := c.MustFn(fnName)
	if fn == nil {
		return
	}
	want, err := c.P.ParseAtom("!$0.Sensitive")
	if err != nil {
		c.Undecided(rule, construct, err.Error())
		return
	}
	under := func(b *ssa.BasicBlock) bool {
		for _, f := range FactsAt(b) {
			if SameAtom(f.Atom, want) {
				return true
			}
		}
		return false
	}
	n := 0
	for _, in := range Returns().F(c.P, fn) {
		r := in.(*ssa.Return)
		if len(r.Results) != 1 {
			c.Undecided(rule, construct, "unexpected result arity")
			return
		}
		var walk func(v ssa.Value, at *ssa.BasicBlock) string
		seen := map[ssa.Value]bool{}
		walk = func(v ssa.Value, at *ssa.BasicBlock) string {
			if k, ok := v.(*ssa.Const); ok && Term(k) == "false" {
				return ""
			}
			if under(at) {
				return ""
			}
			if ph, ok := v.(*ssa.Phi); ok && !seen[ph] {
				seen[ph] = true
				for i, e := range ph.Edges {
					if why := walk(e, ph.Block().Preds[i]); why != "" {
						return why
					}
				}
				return ""
			}
			return fmt.Sprintf("result `%s` can be produced without the !f.Sensitive test", Term(v))
		}
		n++
		if why := walk(r.Results[0], in.Block()); why != "" {
			c.Fail(rule, construct, InstrPos(in), why)
			return
		}
	}
	if n == 0 {
		c.Undecided(rule, construct, "no return")
		return
	}
	c.OK(rule, construct, fmt.Sprintf("%d return(s)", n))
}
