package props

import (
	"fmt"
	"go/token"

	. "verif/sa/core"

	"golang.org/x/tools/go/ssa"
)

func init() {
	Register(&Property{
		ID:    "C31",
		Floor: 55,
		Clauses: "Retry tokens: makeToken seals and validateToken opens with the additional data rs.additionalData(srcConnID, addr) built from their own srcConnID and addr parameters (one call each, passed as the AEAD additional-data argument); " +
			"additionalData's result derives from a length-prefixed copy of the connection ID, from addr.Addr() and from addr.Port(); the sealed plaintext derives from now and origDstConnID; the token returned is the Seal output appended to the nonce tail; " +
			"the nonce opened with derives from dstConnID and the token prefix, the ciphertext from the token, and both functions split the nonce at maxConnIDLen; " +
			"validateToken returns ok=true only after: token length test, nonce length test, Open error == nil, len(plaintext) >= 8, |now - when| <= retryTokenValidityPeriod (exact guards), when is decoded from the opened plaintext, and the connection ID it returns comes out of the opened plaintext; " +
			"the endpoint passes the packet's source/destination connection IDs and the peer address in the same roles to makeToken and validateToken and sends CONNECTION_CLOSE(INVALID_TOKEN) when validation fails; aead is assigned only in retryState.init from a key filled by crypto/rand. " +
			"Stateless reset: tokenForConnID holds g.mu from before mac.Write until return, feeds exactly the cid parameter (one Write), takes the token from mac.Sum after the Write, and resets the mac on exit; " +
			"mac is assigned only in init, from hmac.New over the secret parameter.",
		NotCovered: "cryptographic strength of AEAD/HMAC and that different inputs give different outputs (trusted primitives); clock behaviour; token replay inside the validity period; " +
			"equality of bytes at run time; that the Retry packet's new source connection ID reaches the client unchanged.",
		Run: c31,
	})
}

func c31(c *Ctx) {
	const R = "(*quic.retryState)."
	ad := R + "additionalData"
	mk := R + "makeToken"
	vt := R + "validateToken"
	maxCID, _ := c.P.ConstInt("quic.maxConnIDLen")
	c.Check(maxCID == 20, "constant", "quic.maxConnIDLen = 20 (nonce split point used in the specs below)", token.NoPos, "", fmt.Sprintf("maxConnIDLen = %d", maxCID))

	// additional data: same derivation on both sides
	c.Count(mk, Calls(ad), 1, 1)
	c.Count(vt, Calls(ad), 1, 1)
	c.Has(mk, Calls(ad).ArgIs(1, "$1").ArgIs(2, "$3")) // (srcConnID, addr)
	c.Has(vt, Calls(ad).ArgIs(1, "$2").ArgIs(2, "$4")) // (srcConnID, addr)
	c.Count(mk, Calls(".Seal"), 1, 1)
	c.Count(vt, Calls(".Open"), 1, 1)
	c.ArgFrom(mk, Calls(".Seal"), 3, "rs.additionalData(srcConnID, addr)", IsCallTo(ad))
	c.ArgFrom(vt, Calls(".Open"), 3, "rs.additionalData(srcConnID, addr)", IsCallTo(ad))
	c.Callers(ad, mk, vt)
	// what the additional data covers
	c.XRetFrom(ad, Returns(), 0, "a length-prefixed copy of srcConnID", XCallWith("internal/quic/quicwire.AppendUint8Bytes", 1, "$0"))
	c.XRetFrom(ad, Returns(), 0, "addr.Addr()", XCallWith("(net/netip.AddrPort).Addr", 0, "$1"))
	c.XRetFrom(ad, Returns(), 0, "addr.Port()", XCallWith("(net/netip.AddrPort).Port", 0, "$1"))

	// makeToken: plaintext = time || origDstConnID; token = nonce tail || Seal(...); new cid = nonce head
	c.ArgFrom(mk, Calls(".Seal"), 2, "now.Unix()", XCallWith("(time.Time).Unix", 0, "$0"))
	c.ArgFrom(mk, Calls(".Seal"), 2, "origDstConnID", IsTerm("$2"))
	c.ArgFrom(mk, Calls("crypto/rand.Read"), 0, "the nonce buffer of aead.NonceSize() bytes", IsCallTo(".NonceSize"))
	c.ArgFrom(mk, Calls(".Seal"), 1, "the nonce buffer of aead.NonceSize() bytes", IsCallTo(".NonceSize"))
	c.XRetFrom(mk, XRetOK(), 0, "the Seal output", IsCallTo(".Seal"))
	c.ArgFrom(mk, Calls(".Seal"), 0, "the nonce tail [maxConnIDLen:]", isSliceAt(true, maxCID))
	c.XRetFrom(mk, XRetOK(), 1, "the nonce head [:maxConnIDLen]", isSliceAt(false, maxCID))
	c.XReject(mk, XRetOK(), "§e != nil", XH("§e", "error of rand.Read", XResultOf(1, "crypto/rand.Read")))

	// validateToken: operands of Open
	c.ArgFrom(vt, Calls(".Open"), 1, "dstConnID", IsTerm("$3"))
	c.ArgFrom(vt, Calls(".Open"), 1, "the token", IsTerm("$1"))
	c.ArgFrom(vt, Calls(".Open"), 2, "the token", IsTerm("$1"))
	c.ArgNotFrom(vt, Calls(".Open"), 2, "dstConnID", IsTerm("$3"))
	// acceptance guards
	okRet := XRetIs(1, "true")
	c.Count(vt, okRet, 1, 1)
	c.Reject(vt, okRet, "len($1) < .NonceSize($r.aead) - @quic.maxConnIDLen")
	c.XReject(vt, okRet, "len(§n) != .NonceSize($r.aead)", XH("§n", "the nonce passed to Open", func(v ssa.Value) bool { return isArgOf(v, ".Open", 1) }))
	c.XReject(vt, okRet, "§e != nil", XH("§e", "error of Open", XResultOf(1, ".Open")))
	c.XReject(vt, okRet, "len(§p) < 8", XH("§p", "plaintext of Open", XResultOf(0, ".Open")))
	c.XReject(vt, okRet, "§d > 5000000000", XH("§d", "abs(now.Sub(when))", func(v ssa.Value) bool {
		call, ok := v.(*ssa.Call)
		if !ok || CalleeName(&call.Call) != "quic.abs[time.Duration]" {
			return false
		}
		sub, ok := BaselineArgs(&call.Call)[0].(*ssa.Call)
		return ok && CalleeName(&sub.Call) == "(time.Time).Sub" && Term(BaselineArgs(&sub.Call)[0]) == "$0" && DependsOn(BaselineArgs(&sub.Call)[1], XResultOf(0, ".Open"))
	}))
	if v, ok := c.P.ConstInt("quic.retryTokenValidityPeriod"); !ok || v != 5000000000 {
		c.Fail("constant", "quic.retryTokenValidityPeriod = 5s (value used in the guard above)", token.NoPos, fmt.Sprintf("value %d", v))
	} else {
		c.OK("constant", "quic.retryTokenValidityPeriod = 5s (value used in the guard above)", "")
	}
	c.XRetFrom(vt, okRet, 0, "the opened plaintext", XResultOf(0, ".Open"))

	// the endpoint uses the same roles on both sides
	via := "(*quic.Endpoint).validateInitialAddress"
	sr := "(*quic.Endpoint).sendRetry"
	c.Has(via, Calls(vt).ArgIs(3, "$1.srcConnID").ArgIs(4, "$1.dstConnID").ArgIs(5, "$2"))
	c.Has(sr, Calls(mk).ArgIs(2, "$1.srcConnID").ArgIs(3, "$1.dstConnID").ArgIs(4, "$2"))
	c.Callers(vt, via)
	c.Callers(mk, sr)
	c.XReject(via, XRetIs(1, "true"), "!§ok", XH("§ok", "ok result of validateToken", XResultOf(1, vt)))
	c.CallAfterIncl(via, c.Edge("!validateToken(&$r.retry,$0,ConsumeUint8Bytes($1.data)#0,$1.srcConnID,$1.dstConnID,$2)#1"), "(*quic.Endpoint).sendConnectionClose")
	c.Has(via, Calls("(*quic.Endpoint).sendConnectionClose").ArgIs(3, fmt.Sprint(mustConst(c, "quic.errInvalidToken"))))
	// key
	c.Writers("quic.retryState.aead", R+"init")
	c.StoredFrom(R+"init", Stores("quic.retryState.aead"), "chacha20poly1305.NewX(secret)", IsCallTo("golang.org/x/crypto/chacha20poly1305.NewX", "vendor/golang.org/x/crypto/chacha20poly1305.NewX"))
	c.Before(R+"init", Calls("crypto/rand.Read"), Stores("quic.retryState.aead"))
	c.XReject(R+"init", Stores("quic.retryState.aead"), "§e != nil", XH("§e", "error of rand.Read", XResultOf(1, "crypto/rand.Read")))

	// --- stateless reset tokens
	const G = "(*quic.statelessResetTokenGenerator)."
	tf := G + "tokenForConnID"
	c.LockBalanced(tf, []LockOp{{Callee: "(*sync.Mutex).Lock", Kind: "acq"}, {Callee: "(*sync.Mutex).Unlock", Kind: "rel"}})
	mu := []string{"(*sync.Mutex).Lock"}
	unl := []string{"(*sync.Mutex).Unlock"}
	c.HeldAt(tf, Calls(".Write"), "$r.mu", mu, unl)
	c.HeldAt(tf, Calls(".Sum"), "$r.mu", mu, unl)
	c.HeldAt(tf, AnyCalls(".Reset"), "$r.mu", mu, unl)
	if fn := c.MustFn(tf); fn != nil && len(Defers(".Reset").F(c.P, fn)) > 0 {
		// deferred calls run last-in first-out: a deferred Reset must be registered after the deferred Unlock so that it runs before it
		c.Before(tf, Defers("(*sync.Mutex).Unlock"), Defers(".Reset"))
	}
	c.Count(tf, Calls(".Write"), 1, 1)
	c.Has(tf, Calls(".Write").ArgIs(0, "$0"))
	c.Before(tf, Calls(".Write"), Calls(".Sum"))
	c.ArgFrom(tf, Calls("builtin:copy"), 1, "mac.Sum", IsCallTo(".Sum"))
	c.Count(tf, AnyCalls(".Reset"), 1, -1)
	if fn := c.MustFn(tf); fn != nil {
		// every mac operation is on g.mac
		ok := true
		for _, in := range AnyCalls(".Write", ".Sum", ".Reset").F(c.P, fn) {
			if Term(in.(ssa.CallInstruction).Common().Value) != "$r.mac" {
				ok = false
			}
		}
		c.Check(ok, "receiver", tf+": Write, Sum and Reset all operate on g.mac", fn.Pos(), "", "a hash operation is applied to something other than g.mac")
	}
	c.Writers("quic.statelessResetTokenGenerator.mac", G+"init")
	c.StoredFrom(G+"init", Stores("quic.statelessResetTokenGenerator.mac"), "hmac.New", IsCallTo("crypto/hmac.New"))
	c.ArgFrom(G+"init", Calls("crypto/hmac.New"), 1, "the secret parameter", IsTerm("$0"))
	c.XFieldRefs("quic.statelessResetTokenGenerator.mac", nil, G+"init", tf)
	c.XDump()
}

func mustConst(c *Ctx, q string) int64 {
	v, ok := c.P.ConstInt(q)
	if !ok {
		c.Undecided("anchor", q, "constant not found")
	}
	return v
}

// isSliceAt matches x[k:] (low) or x[:k] (high) with the constant k.
func isSliceAt(low bool, k int64) func(ssa.Value) bool {
	return func(v ssa.Value) bool {
		sl, ok := v.(*ssa.Slice)
		if !ok {
			return false
		}
		b := sl.High
		if low {
			b = sl.Low
		}
		kk, ok := XConstInt(b)
		return ok && kk == k
	}
}

// isArgOf: v is passed as argument idx of an interface call named method.
func isArgOf(v ssa.Value, method string, idx int) bool {
	refs := v.Referrers()
	if refs == nil {
		return false
	}
	for _, r := range *refs {
		if call, ok := r.(*ssa.Call); ok && CalleeName(&call.Call) == method && idx < len(BaselineArgs(&call.Call)) && BaselineArgs(&call.Call)[idx] == v {
			return true
		}
	}
	return false
}
