package core

import (
	"fmt"
	"strings"
	"go/token"

	"golang.org/x/tools/go/ssa"
)

// Path-based evaluation of "under these atoms the site is not reached".
//
// The shape-based rules (Reject, Guard and their variants) look for a branch
// whose dominating facts are exactly the given atoms. That fails on
// behaviour-preserving restructurings (a nested if turned into a tagless
// switch, a compound condition split or merged, De Morgan). The fallback
// implemented here decides the same claim over paths: starting at the function
// entry every branch edge whose condition cannot hold together with one of the
// assumed atoms is pruned (as are edges decided by the predecessor the block was
// entered through); the claim holds when no selected site remains reachable.
// Conditions the assumption says nothing about are followed both ways, so the
// walk over-approximates reachability: it can fail to prove, never prove wrongly,
// as long as the assumed atoms speak about values that do not change between the
// test and the site (the same proviso as for the dominance form).

// bound describes the solutions of an atom over t = Σ coef·term (orientation of ref):
// t <= hi, t >= lo, t == eq, t != ne (each optional).
type bound struct {
	hasLo, hasHi, hasNe bool
	lo, hi, ne          int64
}

// boundOf expresses atom a as a constraint on the linear combination of ref (same terms up to sign).
func boundOf(a, ref Atom) (bound, bool) {
	if len(a.L.Coef) == 0 || len(a.L.Coef) != len(ref.L.Coef) {
		return bound{}, false
	}
	sign := int64(0)
	for t, c := range ref.L.Coef {
		ac, ok := a.L.Coef[t]
		if !ok {
			return bound{}, false
		}
		switch {
		case ac == c && sign >= 0:
			sign = 1
		case ac == -c && sign <= 0:
			sign = -1
		default:
			return bound{}, false
		}
	}
	// a: sign·t + K  ⋈ 0
	var b bound
	switch a.Kind {
	case LE:
		if sign > 0 { // t <= -K
			b.hasHi, b.hi = true, -a.L.K
		} else { // -t + K <= 0  =>  t >= K
			b.hasLo, b.lo = true, a.L.K
		}
	case EQ:
		v := -a.L.K
		if sign < 0 {
			v = a.L.K
		}
		b.hasLo, b.lo, b.hasHi, b.hi = true, v, true, v
	case NE:
		v := -a.L.K
		if sign < 0 {
			v = a.L.K
		}
		b.hasNe, b.ne = true, v
	default:
		return bound{}, false
	}
	return b, true
}

// Unsat reports that atoms a and b cannot hold together (decided for atoms over
// the same linear combination and for a boolean term against its negation).
func Unsat(a, b Atom) bool {
	a, b = a.norm(), b.norm()
	if (a.Kind == TRUE || a.Kind == FALS) && (b.Kind == TRUE || b.Kind == FALS) {
		return a.Kind != b.Kind && a.L.String() == b.L.String()
	}
	if SameAtom(a, b.Negate()) || Contradicts(a, b) {
		return true
	}
	// x == S with S a package-level sentinel that is never nil, against x == nil
	eqSentinel := func(p, q Atom) bool {
		if p.Kind != EQ || q.Kind != EQ || p.L.K != 0 || q.L.K != 0 || len(p.L.Coef) != 2 || len(q.L.Coef) != 1 {
			return false
		}
		var x string
		for t := range q.L.Coef {
			x = t
		}
		cx, has := p.L.Coef[x]
		if !has {
			return false
		}
		for t, c := range p.L.Coef {
			if t == x || c != -cx {
				continue
			}
			if g := globalOfTerm[t]; g != nil && sentinelNonNil(g) {
				return true
			}
		}
		return false
	}
	if eqSentinel(a, b) || eqSentinel(b, a) {
		return true
	}
	ba, ok1 := boundOf(a, a)
	bb, ok2 := boundOf(b, a)
	if !ok1 || !ok2 {
		return false
	}
	// non-negative single terms (unsigned, len): t >= 0 when the coefficient is +1
	nonNeg := func(x Atom) bool {
		if !x.NonNeg || len(x.L.Coef) != 1 {
			return false
		}
		for _, c := range a.L.Coef {
			return c == 1
		}
		return false
	}
	lo, hasLo, hi, hasHi := int64(0), false, int64(0), false
	meet := func(x bound) {
		if x.hasLo && (!hasLo || x.lo > lo) {
			lo, hasLo = x.lo, true
		}
		if x.hasHi && (!hasHi || x.hi < hi) {
			hi, hasHi = x.hi, true
		}
	}
	meet(ba)
	meet(bb)
	if nonNeg(a) || nonNeg(b) {
		meet(bound{hasLo: true, lo: 0})
	}
	if hasLo && hasHi && lo > hi {
		return true
	}
	for _, x := range []bound{ba, bb} {
		if x.hasNe && hasLo && hasHi && lo == hi && lo == x.ne {
			return true
		}
	}
	return false
}

// branchAtom resolves the condition of ifi for a walk that entered its block from pred:
// a boolean phi of the block is replaced by its incoming value. known reports a constant outcome.
func branchAtom(ifi *ssa.If, pred *ssa.BasicBlock) (a Atom, constant, value bool) {
	cond := ifi.Cond
	neg := false
	for {
		if u, ok := cond.(*ssa.UnOp); ok && u.Op == token.NOT {
			cond, neg = u.X, !neg
			continue
		}
		if ph, ok := cond.(*ssa.Phi); ok && ph.Block() == ifi.Block() && pred != nil {
			found := false
			for i, p := range ph.Block().Preds {
				if p == pred && i < len(ph.Edges) {
					cond, found = ph.Edges[i], true
				}
			}
			if found {
				continue
			}
		}
		break
	}
	if c, ok := cond.(*ssa.Const); ok && c.Value != nil {
		return Atom{}, true, (constString(c) == "true") != neg
	}
	a = CondAtom(cond)
	if neg {
		a = a.Negate()
	}
	return a, false, false
}

// ReachableUnder reports whether some instruction of targets can be reached from the
// entry of fn along a path none of whose branch edges is unsatisfiable together with
// an atom of assume. It returns the instruction reached.
func ReachableUnder(fn *ssa.Function, assume []Atom, targets map[ssa.Instruction]bool) (ssa.Instruction, bool) {
	return ReachableUnderFrom(fn, nil, assume, targets, nil)
}

// ReachableUnderFrom is ReachableUnder starting after the instruction start (the
// function entry when nil) and never continuing past an instruction of barriers.
func ReachableUnderFrom(fn *ssa.Function, start ssa.Instruction, assume []Atom, targets, barriers map[ssa.Instruction]bool) (ssa.Instruction, bool) {
	if len(fn.Blocks) == 0 {
		return nil, false
	}
	// An assumed atom over a loop-carried term (φx) speaks about one iteration: once the
	// walk goes round a back edge the term denotes a new value, so such atoms are dropped
	// (the claim is then "in whichever iteration the atoms hold, the site is not reached,
	// then or later").
	loopFree := func(as []Atom) []Atom {
		var out []Atom
		for _, a := range as {
			if !strings.Contains(a.L.String(), "φ") {
				out = append(out, a)
			}
		}
		return out
	}
	type key struct {
		b, pred *ssa.BasicBlock
		n       int
	}
	seen := map[key]bool{}
	var hit ssa.Instruction
	first := true
	var run func(b, pred *ssa.BasicBlock, as []Atom)
	run = func(b, pred *ssa.BasicBlock, as []Atom) {
		if hit != nil {
			return
		}
		if pred != nil && b.Dominates(pred) {
			as = loopFree(as)
		}
		from := 0
		if first && start != nil {
			// begin right after the start instruction
			for i, in := range b.Instrs {
				if in == start {
					from = i + 1
				}
			}
			first = false
		} else {
			first = false
			if seen[key{b, pred, len(as)}] {
				return
			}
			seen[key{b, pred, len(as)}] = true
		}
		for _, in := range b.Instrs[from:] {
			if barriers[in] {
				return
			}
			if targets[in] {
				hit = in
				return
			}
		}
		if len(b.Instrs) == 0 {
			return
		}
		ifi, ok := b.Instrs[len(b.Instrs)-1].(*ssa.If)
		if !ok {
			for _, s := range b.Succs {
				run(s, b, as)
			}
			return
		}
		if t, known := threadIf(ifi, pred); known {
			if t {
				run(b.Succs[0], b, as)
			} else {
				run(b.Succs[1], b, as)
			}
			return
		}
		a, constant, val := branchAtom(ifi, pred)
		for k, s := range b.Succs {
			if constant {
				if (k == 0) != val {
					continue
				}
			} else {
				e := a
				if k == 1 {
					e = a.Negate()
				}
				pruned := false
				for _, x := range as {
					if Unsat(e, x) {
						pruned = true
					}
				}
				if pruned {
					continue
				}
			}
			run(s, b, as)
		}
	}
	if start != nil {
		run(start.Block(), nil, assume)
	} else {
		run(fn.Blocks[0], nil, assume)
	}
	return hit, hit != nil
}

// PassesUnder: under the assumed atoms every path from the start instruction (the
// function entry when the selector is Entry()) to a normal return passes one of the
// via sites. It is the path-evaluated "must pass through" with a precondition:
// "when sendStream > 0 the stream WINDOW_UPDATE is written".
func (c *Ctx) PassesUnder(fnName string, from, via Sel, assume ...string) bool {
	rule := "passes-under"
	construct := fmt.Sprintf("%s: when %s, after [%s] always [%s]", fnName, stripSpaces(strings.Join(assume, " && ")), from.Name, via.Name)
	fn, ins := c.sites(rule, fnName, from)
	if ins == nil {
		return false
	}
	as, good := c.atoms(rule, construct, assume)
	if !good {
		return false
	}
	vias := via.F(c.P, fn)
	if len(vias) == 0 {
		c.Fail(rule, construct, fn.Pos(), "no ["+via.Name+"] site in this function")
		return false
	}
	rets := instrSet(HcNormalReturns().F(c.P, fn))
	for _, in := range ins {
		start := in
		if len(fn.Blocks) > 0 && len(fn.Blocks[0].Instrs) > 0 && in == fn.Blocks[0].Instrs[0] {
			start = nil
		}
		if r, reach := ReachableUnderFrom(fn, start, as, rets, instrSet(vias)); reach {
			c.Fail(rule, construct, InstrPos(in), fmt.Sprintf("the return at %s is reachable without [%s] although %s", c.P.Pos(InstrPos(r)), via.Name, strings.Join(assume, " && ")))
			return false
		}
	}
	c.OK(rule, construct, fmt.Sprintf("%d start site(s), %d via site(s)", len(ins), len(vias)))
	return true
}

// unreachableUnderAll: no site is reachable under the assumption.
func unreachableUnder(fn *ssa.Function, assume []Atom, sites []ssa.Instruction) (ssa.Instruction, bool) {
	t, reach := ReachableUnder(fn, assume, instrSet(sites))
	return t, !reach
}

// guardedByPaths decides "every site is executed only when one of the alternatives
// (each a conjunction of atoms) holds": for every way of falsifying all alternatives
// (one negated atom per alternative) the sites are unreachable.
func guardedByPaths(fn *ssa.Function, alts [][]Atom, sites []ssa.Instruction) bool {
	// The path form proves "only when"; a test that was tightened (>= turned into >)
	// still satisfies it. To keep reporting such boundary changes the fallback is used
	// only when every atom is, exactly, the condition of some branch of the function:
	// it tolerates re-nesting, re-ordering and merging of the same tests, not different tests.
	for _, alt := range alts {
		for _, a := range alt {
			if !atomIsBranchCondition(fn, a) {
				return false
			}
		}
	}
	n := 1
	for _, a := range alts {
		if len(a) == 0 {
			return false
		}
		n *= len(a)
		if n > 4096 {
			return false
		}
	}
	idx := make([]int, len(alts))
	for {
		var assume []Atom
		for i, a := range alts {
			assume = append(assume, a[idx[i]].Negate())
		}
		// an inconsistent choice (x and !x) describes no execution
		consistent := true
		for i := range assume {
			for j := i + 1; j < len(assume); j++ {
				if Unsat(assume[i], assume[j]) {
					consistent = false
				}
			}
		}
		if consistent {
			if _, ok := unreachableUnder(fn, assume, sites); !ok {
				return false
			}
		}
		k := 0
		for k < len(idx) {
			idx[k]++
			if idx[k] < len(alts[k]) {
				break
			}
			idx[k] = 0
			k++
		}
		if k == len(idx) {
			return true
		}
	}
}

// StoreLeaf is one value a store can write: the stored value itself, or — when it
// is a merge (x := a; if c { x = b }; f = x) — one incoming value together with the
// facts of the edge it arrives on.
type StoreLeaf struct {
	Store ssa.Instruction
	Val   ssa.Value
	Facts []Fact
}

// StoreLeaves expands the selected stores into their leaves.
func StoreLeaves(p *Prog, fn *ssa.Function, sel Sel) []StoreLeaf {
	var out []StoreLeaf
	for _, in := range sel.F(p, fn) {
		st, ok := in.(*ssa.Store)
		if !ok {
			continue
		}
		base := FactsAtInstr(in)
		var expand func(v ssa.Value, fs []Fact, depth int)
		expand = func(v ssa.Value, fs []Fact, depth int) {
			ph, isPhi := v.(*ssa.Phi)
			if !isPhi || depth > 4 {
				out = append(out, StoreLeaf{in, v, fs})
				return
			}
			for i, e := range ph.Edges {
				if i >= len(ph.Block().Preds) {
					continue
				}
				ef := edgeFacts_h2server(ph.Block().Preds[i], ph.Block())
				expand(e, append(append([]Fact{}, fs...), ef...), depth+1)
			}
		}
		expand(st.Val, base, 0)
	}
	return out
}

// StoredUnder: the selected stores write only the listed values (rendered terms),
// each under its guard atom ("" for none), and every listed value is written somewhere.
// A store of a merged value counts once per incoming value, with the facts of that edge,
// so `if c { f = a } else { f = b }` and `x := b; if c { x = a }; f = x` are the same to it.
func (c *Ctx) StoredUnder(fnName string, sel Sel, table map[string]string) bool {
	rule := "stored-under"
	construct := fnName + ": [" + sel.Name + "] writes only the listed values, each under its guard"
	fn := c.MustFn(fnName)
	if fn == nil {
		return false
	}
	leaves := StoreLeaves(c.P, fn, sel)
	if len(leaves) == 0 {
		c.Undecided(rule, construct, "no such site in this function")
		return false
	}
	seen := map[string]bool{}
	for _, l := range leaves {
		t := Term(l.Val)
		guard, listed := table[t]
		if !listed {
			c.Fail(rule, construct, InstrPos(l.Store), "value `"+t+"` is not one of the listed values")
			return false
		}
		seen[t] = true
		if guard == "" {
			continue
		}
		a, err := c.P.ParseAtom(guard)
		if err != nil {
			c.Undecided(rule, construct, "bad spec "+guard+": "+err.Error())
			return false
		}
		if !holds(l.Facts, a, false) {
			c.Fail(rule, construct, InstrPos(l.Store), "value `"+t+"` is written without "+a.String()+" being established; facts on that path: {"+factStrings(l.Facts)+"}")
			return false
		}
	}
	for t := range table {
		if !seen[t] {
			c.Fail(rule, construct, fn.Pos(), "value `"+t+"` is never written")
			return false
		}
	}
	c.OK(rule, construct, fmt.Sprintf("%d value(s) on %d path(s)", len(table), len(leaves)))
	return true
}

// GuardedByPaths is the exported form of guardedByPaths (see there).
func GuardedByPaths(fn *ssa.Function, alts [][]Atom, sites []ssa.Instruction) bool {
	return guardedByPaths(fn, alts, sites)
}

// atomIsBranchCondition: some branch of fn establishes exactly a or exactly its negation on one of its edges.
func atomIsBranchCondition(fn *ssa.Function, a Atom) bool {
	found := false
	eachInstr(fn, func(in ssa.Instruction) {
		ifi, ok := in.(*ssa.If)
		if !ok || found {
			return
		}
		for _, val := range []bool{true, false} {
			for _, f := range condFacts(ifi, ifi.Cond, val, 0) {
				if f.If == ifi && (SameAtom(f.Atom, a) || SameAtom(f.Atom, a.Negate())) {
					found = true
				}
			}
		}
	})
	return found
}
