package core

import (
	"fmt"
	"go/token"

	"golang.org/x/tools/go/ssa"
)

// Path-based evaluation of "under these atoms the site is not reached".
//
// The shape-based rules (Reject, Guard and their variants) look for a branch
// whose dominating facts are exactly the given atoms. That fails on
// behaviour-preserving restructurings (a nested if turned into a tagless
// switch, a compound condition split or merged, De Morgan). The fallback
// implemented here decides the same claim over paths: starting at the function
// entry every branch edge whose condition cannot hold together with one of the
// assumed atoms is pruned (as are edges decided by the predecessor the block was
// entered through); the claim holds when no selected site remains reachable.
// Conditions the assumption says nothing about are followed both ways, so the
// walk over-approximates reachability: it can fail to prove, never prove wrongly,
// as long as the assumed atoms speak about values that do not change between the
// test and the site (the same proviso as for the dominance form).

// bound describes the solutions of an atom over t = Σ coef·term (orientation of ref):
// t <= hi, t >= lo, t == eq, t != ne (each optional).
type bound struct {
	hasLo, hasHi, hasNe bool
	lo, hi, ne          int64
}

// boundOf expresses atom a as a constraint on the linear combination of ref (same terms up to sign).
func boundOf(a, ref Atom) (bound, bool) {
	if len(a.L.Coef) == 0 || len(a.L.Coef) != len(ref.L.Coef) {
		return bound{}, false
	}
	sign := int64(0)
	for t, c := range ref.L.Coef {
		ac, ok := a.L.Coef[t]
		if !ok {
			return bound{}, false
		}
		switch {
		case ac == c && sign >= 0:
			sign = 1
		case ac == -c && sign <= 0:
			sign = -1
		default:
			return bound{}, false
		}
	}
	// a: sign·t + K  ⋈ 0
	var b bound
	switch a.Kind {
	case LE:
		if sign > 0 { // t <= -K
			b.hasHi, b.hi = true, -a.L.K
		} else { // -t + K <= 0  =>  t >= K
			b.hasLo, b.lo = true, a.L.K
		}
	case EQ:
		v := -a.L.K
		if sign < 0 {
			v = a.L.K
		}
		b.hasLo, b.lo, b.hasHi, b.hi = true, v, true, v
	case NE:
		v := -a.L.K
		if sign < 0 {
			v = a.L.K
		}
		b.hasNe, b.ne = true, v
	default:
		return bound{}, false
	}
	return b, true
}

// Unsat reports that atoms a and b cannot hold together (decided for atoms over
// the same linear combination and for a boolean term against its negation).
func Unsat(a, b Atom) bool {
	a, b = a.norm(), b.norm()
	if (a.Kind == TRUE || a.Kind == FALS) && (b.Kind == TRUE || b.Kind == FALS) {
		return a.Kind != b.Kind && a.L.String() == b.L.String()
	}
	if SameAtom(a, b.Negate()) || Contradicts(a, b) {
		return true
	}
	ba, ok1 := boundOf(a, a)
	bb, ok2 := boundOf(b, a)
	if !ok1 || !ok2 {
		return false
	}
	// non-negative single terms (unsigned, len): t >= 0 when the coefficient is +1
	nonNeg := func(x Atom) bool {
		if !x.NonNeg || len(x.L.Coef) != 1 {
			return false
		}
		for _, c := range a.L.Coef {
			return c == 1
		}
		return false
	}
	lo, hasLo, hi, hasHi := int64(0), false, int64(0), false
	meet := func(x bound) {
		if x.hasLo && (!hasLo || x.lo > lo) {
			lo, hasLo = x.lo, true
		}
		if x.hasHi && (!hasHi || x.hi < hi) {
			hi, hasHi = x.hi, true
		}
	}
	meet(ba)
	meet(bb)
	if nonNeg(a) || nonNeg(b) {
		meet(bound{hasLo: true, lo: 0})
	}
	if hasLo && hasHi && lo > hi {
		return true
	}
	for _, x := range []bound{ba, bb} {
		if x.hasNe && hasLo && hasHi && lo == hi && lo == x.ne {
			return true
		}
	}
	return false
}

// branchAtom resolves the condition of ifi for a walk that entered its block from pred:
// a boolean phi of the block is replaced by its incoming value. known reports a constant outcome.
func branchAtom(ifi *ssa.If, pred *ssa.BasicBlock) (a Atom, constant, value bool) {
	cond := ifi.Cond
	neg := false
	for {
		if u, ok := cond.(*ssa.UnOp); ok && u.Op == token.NOT {
			cond, neg = u.X, !neg
			continue
		}
		if ph, ok := cond.(*ssa.Phi); ok && ph.Block() == ifi.Block() && pred != nil {
			found := false
			for i, p := range ph.Block().Preds {
				if p == pred && i < len(ph.Edges) {
					cond, found = ph.Edges[i], true
				}
			}
			if found {
				continue
			}
		}
		break
	}
	if c, ok := cond.(*ssa.Const); ok && c.Value != nil {
		return Atom{}, true, (constString(c) == "true") != neg
	}
	a = CondAtom(cond)
	if neg {
		a = a.Negate()
	}
	return a, false, false
}

// ReachableUnder reports whether some instruction of targets can be reached from the
// entry of fn along a path none of whose branch edges is unsatisfiable together with
// an atom of assume. It returns the instruction reached.
func ReachableUnder(fn *ssa.Function, assume []Atom, targets map[ssa.Instruction]bool) (ssa.Instruction, bool) {
	if len(fn.Blocks) == 0 {
		return nil, false
	}
	type key struct{ b, pred *ssa.BasicBlock }
	seen := map[key]bool{}
	var hit ssa.Instruction
	var run func(b, pred *ssa.BasicBlock)
	run = func(b, pred *ssa.BasicBlock) {
		if hit != nil || seen[key{b, pred}] {
			return
		}
		seen[key{b, pred}] = true
		for _, in := range b.Instrs {
			if targets[in] {
				hit = in
				return
			}
		}
		if len(b.Instrs) == 0 {
			return
		}
		ifi, ok := b.Instrs[len(b.Instrs)-1].(*ssa.If)
		if !ok {
			for _, s := range b.Succs {
				run(s, b)
			}
			return
		}
		if t, known := threadIf(ifi, pred); known {
			if t {
				run(b.Succs[0], b)
			} else {
				run(b.Succs[1], b)
			}
			return
		}
		a, constant, val := branchAtom(ifi, pred)
		for k, s := range b.Succs {
			if constant {
				if (k == 0) != val {
					continue
				}
			} else {
				e := a
				if k == 1 {
					e = a.Negate()
				}
				pruned := false
				for _, as := range assume {
					if Unsat(e, as) {
						pruned = true
					}
				}
				if pruned {
					continue
				}
			}
			run(s, b)
		}
	}
	run(fn.Blocks[0], nil)
	return hit, hit != nil
}

// unreachableUnderAll: no site is reachable under the assumption.
func unreachableUnder(fn *ssa.Function, assume []Atom, sites []ssa.Instruction) (ssa.Instruction, bool) {
	t, reach := ReachableUnder(fn, assume, instrSet(sites))
	return t, !reach
}

// guardedByPaths decides "every site is executed only when one of the alternatives
// (each a conjunction of atoms) holds": for every way of falsifying all alternatives
// (one negated atom per alternative) the sites are unreachable.
func guardedByPaths(fn *ssa.Function, alts [][]Atom, sites []ssa.Instruction) bool {
	n := 1
	for _, a := range alts {
		if len(a) == 0 {
			return false
		}
		n *= len(a)
		if n > 4096 {
			return false
		}
	}
	idx := make([]int, len(alts))
	for {
		var assume []Atom
		for i, a := range alts {
			assume = append(assume, a[idx[i]].Negate())
		}
		// an inconsistent choice (x and !x) describes no execution
		consistent := true
		for i := range assume {
			for j := i + 1; j < len(assume); j++ {
				if Unsat(assume[i], assume[j]) {
					consistent = false
				}
			}
		}
		if consistent {
			if _, ok := unreachableUnder(fn, assume, sites); !ok {
				return false
			}
		}
		k := 0
		for k < len(idx) {
			idx[k]++
			if idx[k] < len(alts[k]) {
				break
			}
			idx[k] = 0
			k++
		}
		if k == len(idx) {
			return true
		}
	}
}

// StoreLeaf is one value a store can write: the stored value itself, or — when it
// is a merge (x := a; if c { x = b }; f = x) — one incoming value together with the
// facts of the edge it arrives on.
type StoreLeaf struct {
	Store ssa.Instruction
	Val   ssa.Value
	Facts []Fact
}

// StoreLeaves expands the selected stores into their leaves.
func StoreLeaves(p *Prog, fn *ssa.Function, sel Sel) []StoreLeaf {
	var out []StoreLeaf
	for _, in := range sel.F(p, fn) {
		st, ok := in.(*ssa.Store)
		if !ok {
			continue
		}
		base := FactsAtInstr(in)
		var expand func(v ssa.Value, fs []Fact, depth int)
		expand = func(v ssa.Value, fs []Fact, depth int) {
			ph, isPhi := v.(*ssa.Phi)
			if !isPhi || depth > 4 {
				out = append(out, StoreLeaf{in, v, fs})
				return
			}
			for i, e := range ph.Edges {
				if i >= len(ph.Block().Preds) {
					continue
				}
				ef := edgeFacts_h2server(ph.Block().Preds[i], ph.Block())
				expand(e, append(append([]Fact{}, fs...), ef...), depth+1)
			}
		}
		expand(st.Val, base, 0)
	}
	return out
}

// StoredUnder: the selected stores write only the listed values (rendered terms),
// each under its guard atom ("" for none), and every listed value is written somewhere.
// A store of a merged value counts once per incoming value, with the facts of that edge,
// so `if c { f = a } else { f = b }` and `x := b; if c { x = a }; f = x` are the same to it.
func (c *Ctx) StoredUnder(fnName string, sel Sel, table map[string]string) bool {
	rule := "stored-under"
	construct := fnName + ": [" + sel.Name + "] writes only the listed values, each under its guard"
	fn := c.MustFn(fnName)
	if fn == nil {
		return false
	}
	leaves := StoreLeaves(c.P, fn, sel)
	if len(leaves) == 0 {
		c.Undecided(rule, construct, "no such site in this function")
		return false
	}
	seen := map[string]bool{}
	for _, l := range leaves {
		t := Term(l.Val)
		guard, listed := table[t]
		if !listed {
			c.Fail(rule, construct, InstrPos(l.Store), "value `"+t+"` is not one of the listed values")
			return false
		}
		seen[t] = true
		if guard == "" {
			continue
		}
		a, err := c.P.ParseAtom(guard)
		if err != nil {
			c.Undecided(rule, construct, "bad spec "+guard+": "+err.Error())
			return false
		}
		if !holds(l.Facts, a, false) {
			c.Fail(rule, construct, InstrPos(l.Store), "value `"+t+"` is written without "+a.String()+" being established; facts on that path: {"+factStrings(l.Facts)+"}")
			return false
		}
	}
	for t := range table {
		if !seen[t] {
			c.Fail(rule, construct, fn.Pos(), "value `"+t+"` is never written")
			return false
		}
	}
	c.OK(rule, construct, fmt.Sprintf("%d value(s) on %d path(s)", len(table), len(leaves)))
	return true
}
