package core

import (
	"fmt"
	"go/constant"
	"go/token"
	"go/types"
	"sort"
	"strings"

	"golang.org/x/tools/go/packages"
	"golang.org/x/tools/go/ssa"
)

// Helpers written for the http2/hpack properties (C01, C03, C04, C05). They
// are generic (nothing here names an hpack construct) and carry the Hx prefix
// so that they cannot collide with helpers added by other rule authors.

// HxEachInstr visits every instruction of fn (closures excluded).
func HxEachInstr(fn *ssa.Function, f func(ssa.Instruction)) { eachInstr(fn, f) }

// HxReach reports whether an instruction of targets is reachable from `from`
// (strictly after it unless inclusive) without passing an instruction of barriers.
func HxReach(from ssa.Instruction, inclusive bool, targets, barriers []ssa.Instruction) (ssa.Instruction, bool) {
	return canReach(posOf(from), inclusive, instrSet(targets), instrSet(barriers))
}

// HxBlockReach is HxReach starting at the first instruction of block b (inclusive).
func HxBlockReach(b *ssa.BasicBlock, targets, barriers []ssa.Instruction) (ssa.Instruction, bool) {
	return canReach(ipos{b, 0}, true, instrSet(targets), instrSet(barriers))
}

// HxAddrRoot follows an address (or a pointer/slice/map value) back through
// field/index projections and loads of reference-typed values to the value it
// is based on: a *ssa.Parameter, *ssa.FreeVar, *ssa.Global, *ssa.Alloc, a call
// result, ...
func HxAddrRoot(v ssa.Value) ssa.Value {
	for i := 0; i < 16; i++ {
		switch x := v.(type) {
		case *ssa.FieldAddr:
			v = x.X
		case *ssa.IndexAddr:
			v = x.X
		case *ssa.Slice:
			v = x.X
		case *ssa.ChangeType:
			v = x.X
		case *ssa.UnOp:
			if x.Op != token.MUL {
				return v
			}
			switch x.Type().Underlying().(type) {
			case *types.Pointer, *types.Slice, *types.Map:
				v = x.X
			default:
				return v
			}
		default:
			return v
		}
	}
	return v
}

// hxShared reports whether a root denotes storage visible outside the
// function activation (parameter, captured variable, global).
func hxShared(root ssa.Value) bool {
	switch root.(type) {
	case *ssa.Parameter, *ssa.FreeVar, *ssa.Global:
		return true
	}
	return false
}

var hxPureBuiltins = map[string]bool{"len": true, "cap": true, "append": true, "min": true, "max": true, "new": true, "make": true,
	"real": true, "imag": true, "complex": true, "ssa:wrapnilchk": true, "print": true, "println": true}

// HxSideEffects selects the instructions of a function that may change state
// visible to its caller: stores and map updates through a parameter, captured
// variable or global; channel sends; go/defer; and every call whose callee is
// not in pure (pure builtins such as len/append, and print/println, are always
// allowed; an entry "pkg:log" allows every function of package log).
func HxSideEffects(pure ...string) Sel {
	return Sel{"side effect (shared store, or call outside {" + hxShortList(pure) + "})", func(p *Prog, fn *ssa.Function) []ssa.Instruction {
		var out []ssa.Instruction
		eachInstr(fn, func(in ssa.Instruction) {
			switch x := in.(type) {
			case *ssa.Store:
				if hxShared(HxAddrRoot(x.Addr)) {
					out = append(out, in)
				}
			case *ssa.MapUpdate:
				if hxShared(HxAddrRoot(x.Map)) {
					out = append(out, in)
				}
			case *ssa.Send, *ssa.Go, *ssa.Defer:
				out = append(out, in)
			case *ssa.Call:
				if b, ok := x.Call.Value.(*ssa.Builtin); ok && hxPureBuiltins[b.Name()] {
					return
				}
				if sc := x.Call.StaticCallee(); sc != nil && sc.Pkg != nil {
					for _, n := range pure {
						if n == "pkg:"+sc.Pkg.Pkg.Path() {
							return
						}
					}
				}
				if !matchCallee(&x.Call, pure) {
					out = append(out, in)
				}
			}
		})
		return out
	}}
}

func hxShortList(names []string) string {
	var s []string
	for _, n := range names {
		if i := strings.LastIndex(n, "."); i >= 0 {
			n = n[i+1:]
		}
		s = append(s, n)
	}
	return strings.Join(s, ",")
}

// HxErrReturnsOf selects returns whose error result is (through phis) the
// error result of a call to one of the named callees, i.e. `return err` right
// after `x, err := callee(...)`.
func HxErrReturnsOf(names ...string) Sel {
	return Sel{"return of the error of " + hxShortList(names), func(p *Prog, fn *ssa.Function) []ssa.Instruction {
		res := fn.Signature.Results()
		ei := -1
		for i := 0; i < res.Len(); i++ {
			if isErrorType(res.At(i).Type()) {
				ei = i
			}
		}
		if ei < 0 {
			return nil
		}
		var out []ssa.Instruction
		eachInstr(fn, func(in ssa.Instruction) {
			r, ok := in.(*ssa.Return)
			if !ok {
				return
			}
			hit := false
			returnLeaf(r.Results[ei], map[ssa.Value]bool{}, func(v ssa.Value) {
				if HxIsErrOf(v, names...) != nil {
					hit = true
				}
			})
			if hit {
				out = append(out, in)
			}
		})
		return out
	}}
}

// HxIsErrOf returns the call when v is the error-typed result extracted from
// a call to one of names.
func HxIsErrOf(v ssa.Value, names ...string) *ssa.Call {
	ex, ok := v.(*ssa.Extract)
	if !ok || !isErrorType(ex.Type()) {
		return nil
	}
	c, ok := ex.Tuple.(*ssa.Call)
	if !ok || !matchCallee(&c.Call, names) {
		return nil
	}
	return c
}

// HxNonConstErrReturns selects returns whose error result is neither the
// constant nil nor a package-level error variable (i.e. a propagated error).
func HxNonConstErrReturns() Sel {
	return Sel{"return <propagated error>", func(p *Prog, fn *ssa.Function) []ssa.Instruction {
		res := fn.Signature.Results()
		ei := -1
		for i := 0; i < res.Len(); i++ {
			if isErrorType(res.At(i).Type()) {
				ei = i
			}
		}
		if ei < 0 {
			return nil
		}
		var out []ssa.Instruction
		eachInstr(fn, func(in ssa.Instruction) {
			r, ok := in.(*ssa.Return)
			if !ok {
				return
			}
			// a merge of constants and package-level error variables (an inlined helper's
			// result variable) is still not a propagated error
			propagated := false
			returnLeaf(r.Results[ei], map[ssa.Value]bool{}, func(v ssa.Value) {
				switch x := v.(type) {
				case *ssa.Const:
					return
				case *ssa.UnOp:
					if _, g := x.X.(*ssa.Global); g && x.Op == token.MUL {
						return
					}
				}
				propagated = true
			})
			if propagated {
				out = append(out, in)
			}
		})
		return out
	}}
}

// HxGlobalRefs lists, per outermost function, the instructions that mention
// the package-level variable "pkg.name".
func (p *Prog) HxGlobalRefs(q string) map[string][]ssa.Instruction {
	out := map[string][]ssa.Instruction{}
	obj := p.Object(q)
	if obj == nil {
		return out
	}
	for _, fn := range p.All {
		outer := FnName(Outer(fn))
		eachInstr(fn, func(in ssa.Instruction) {
			for _, op := range in.Operands(nil) {
				if g, ok := (*op).(*ssa.Global); ok && g.Object() == obj {
					out[outer] = append(out[outer], in)
					return
				}
			}
		})
	}
	return out
}

// HxGlobalWriters lists, per outermost function, the stores whose address is
// based on the package-level variable "pkg.name" (directly or through the
// pointer/slice it holds).
func (p *Prog) HxGlobalWriters(q string) map[string][]ssa.Instruction {
	out := map[string][]ssa.Instruction{}
	obj := p.Object(q)
	if obj == nil {
		return out
	}
	for _, fn := range p.All {
		outer := FnName(Outer(fn))
		eachInstr(fn, func(in ssa.Instruction) {
			var addr ssa.Value
			switch x := in.(type) {
			case *ssa.Store:
				addr = x.Addr
			case *ssa.MapUpdate:
				addr = x.Map
			default:
				return
			}
			if g, ok := HxAddrRoot(addr).(*ssa.Global); ok && g.Object() == obj {
				out[outer] = append(out[outer], in)
			}
		})
	}
	return out
}

// HxMapUpdates lists, per outermost function, the map updates and delete()
// calls applied to the map held in struct field "pkg.T.f".
func (p *Prog) HxMapUpdates(field string) map[string][]ssa.Instruction {
	out := map[string][]ssa.Instruction{}
	fv := p.Field(field)
	if fv == nil {
		return out
	}
	isField := func(v ssa.Value) bool {
		u, ok := v.(*ssa.UnOp)
		return ok && u.Op == token.MUL && fieldOfAddr(u.X) == fv
	}
	for _, fn := range p.All {
		outer := FnName(Outer(fn))
		eachInstr(fn, func(in ssa.Instruction) {
			switch x := in.(type) {
			case *ssa.MapUpdate:
				if isField(x.Map) {
					out[outer] = append(out[outer], in)
				}
			case *ssa.Call:
				if b, ok := x.Call.Value.(*ssa.Builtin); ok && (b.Name() == "delete" || b.Name() == "clear") && len(x.Call.Args) > 0 && isField(x.Call.Args[0]) {
					out[outer] = append(out[outer], in)
				}
			}
		})
	}
	return out
}

// HxOnly records a "writers"-style obligation: the keys of found are a subset
// of allowed and found is not empty.
func (c *Ctx) HxOnly(rule, what string, found map[string][]ssa.Instruction, allowed ...string) bool {
	construct := what + " ⊆ {" + strings.Join(allowed, ", ") + "}"
	allow := map[string]bool{}
	for _, a := range allowed {
		allow[a] = true
	}
	if len(found) == 0 {
		c.Undecided(rule, construct, "no site found at all")
		return false
	}
	var names []string
	n := 0
	ok := true
	for fn, ins := range found {
		names = append(names, fn)
		n += len(ins)
		if !allow[fn] {
			ok = false
			c.Fail(rule, construct, InstrPos(ins[0]), fmt.Sprintf("`%s` in %s, which is not in the allowed set", DescribeInstr(ins[0]), fn))
		}
	}
	sort.Strings(names)
	if ok {
		c.OK(rule, construct, fmt.Sprintf("%d site(s) in {%s}", n, strings.Join(names, ", ")))
	}
	return ok
}

// HxPassTo: from every `from` site, every path to a `to` site passes a `via` site.
func (c *Ctx) HxPassTo(fnName string, from, via, to Sel, inclusive bool) bool {
	rule := "pass-through"
	construct := fmt.Sprintf("%s: from [%s] to [%s] always via [%s]", fnName, from.Name, to.Name, via.Name)
	fn, ins := c.sites(rule, fnName, from)
	if ins == nil {
		return false
	}
	vs, ts := via.F(c.P, fn), to.F(c.P, fn)
	if len(vs) == 0 || len(ts) == 0 {
		c.Undecided(rule, construct, fmt.Sprintf("%d via site(s), %d target site(s)", len(vs), len(ts)))
		return false
	}
	for _, in := range ins {
		if t, reach := canReach(posOf(in), inclusive, instrSet(ts), instrSet(vs)); reach {
			c.Fail(rule, construct, InstrPos(t), fmt.Sprintf("`%s` is reachable from `%s` without [%s]", DescribeInstr(t), DescribeInstr(in), via.Name))
			return false
		}
	}
	c.OK(rule, construct, fmt.Sprintf("%d start, %d via, %d target site(s)", len(ins), len(vs), len(ts)))
	return true
}

// HxNone: the selector matches nothing in fn (the function must exist).
func (c *Ctx) HxNone(fnName string, sel Sel) bool {
	rule := "absent"
	construct := fmt.Sprintf("%s: no [%s]", fnName, sel.Name)
	fn := c.MustFn(fnName)
	if fn == nil {
		return false
	}
	if ins := sel.F(c.P, fn); len(ins) > 0 {
		c.Fail(rule, construct, InstrPos(ins[0]), fmt.Sprintf("found `%s`", DescribeInstr(ins[0])))
		return false
	}
	c.OK(rule, construct, "")
	return true
}

// HxFindPkg finds a loaded package (including dependencies outside the
// repository, e.g. the standard library's vendored copies) by import path.
func (p *Prog) HxFindPkg(path string) *packages.Package {
	var out *packages.Package
	packages.Visit(p.Pkgs, func(pk *packages.Package) bool { return out == nil }, func(pk *packages.Package) {
		if pk.PkgPath == path {
			out = pk
		}
	})
	return out
}

// ---------------------------------------------------------------------------
// A tiny interpreter for straight-line integer/boolean SSA: constants,
// parameters or loads given by Leaf, & | ^ &^ << >> + - * comparisons, !,
// integer conversions, phis, if/jump. Anything else is "stuck" (undecided).

// HxEval evaluates one path through a function.
type HxEval struct {
	Leaf   func(v ssa.Value) (int64, bool) // values of inputs (parameters, loads)
	StopAt func(c *ssa.Call) bool          // stop when control reaches such a call (nil: stop at every non-builtin call)
	env    map[ssa.Value]int64
}

// HxOutcome is where evaluation stopped.
type HxOutcome struct {
	Kind string // "call", "return", "panic", "stuck"
	Call *ssa.Call
	Ret  *ssa.Return
	Why  string
}

func hxTrunc(v int64, t types.Type) int64 {
	b, ok := t.Underlying().(*types.Basic)
	if !ok {
		return v
	}
	switch b.Kind() {
	case types.Uint8:
		return int64(uint8(v))
	case types.Uint16:
		return int64(uint16(v))
	case types.Uint32:
		return int64(uint32(v))
	case types.Int8:
		return int64(int8(v))
	case types.Int16:
		return int64(int16(v))
	case types.Int32:
		return int64(int32(v))
	}
	return v
}

// Value evaluates v under the current environment.
func (e *HxEval) Value(v ssa.Value) (int64, bool) {
	if x, ok := e.env[v]; ok {
		return x, true
	}
	if e.Leaf != nil {
		if x, ok := e.Leaf(v); ok {
			return x, true
		}
	}
	switch x := v.(type) {
	case *ssa.Const:
		if x.Value == nil {
			return 0, true
		}
		switch x.Value.Kind() {
		case constant.Bool:
			if constant.BoolVal(x.Value) {
				return 1, true
			}
			return 0, true
		case constant.Int:
			if i, ok := constant.Int64Val(x.Value); ok {
				return i, true
			}
			if u, ok := constant.Uint64Val(x.Value); ok {
				return int64(u), true
			}
		}
	case *ssa.Convert:
		if isIntegral(x.Type()) && isIntegral(x.X.Type()) {
			if a, ok := e.Value(x.X); ok {
				return hxTrunc(a, x.Type()), true
			}
		}
	case *ssa.ChangeType:
		return e.Value(x.X)
	case *ssa.UnOp:
		a, ok := e.Value(x.X)
		if !ok {
			return 0, false
		}
		switch x.Op {
		case token.NOT:
			return 1 - a, true
		case token.SUB:
			return hxTrunc(-a, x.Type()), true
		case token.XOR:
			return hxTrunc(^a, x.Type()), true
		}
	case *ssa.BinOp:
		a, ok1 := e.Value(x.X)
		b, ok2 := e.Value(x.Y)
		if !ok1 || !ok2 {
			return 0, false
		}
		bo := func(c bool) (int64, bool) {
			if c {
				return 1, true
			}
			return 0, true
		}
		switch x.Op {
		case token.AND:
			return a & b, true
		case token.OR:
			return a | b, true
		case token.XOR:
			return a ^ b, true
		case token.AND_NOT:
			return a &^ b, true
		case token.ADD:
			return hxTrunc(a+b, x.Type()), true
		case token.SUB:
			return hxTrunc(a-b, x.Type()), true
		case token.MUL:
			return hxTrunc(a*b, x.Type()), true
		case token.SHL:
			if b < 0 || b > 62 {
				return 0, false
			}
			return hxTrunc(a<<uint(b), x.Type()), true
		case token.SHR:
			if b < 0 || b > 62 || a < 0 {
				return 0, false
			}
			return a >> uint(b), true
		case token.EQL:
			return bo(a == b)
		case token.NEQ:
			return bo(a != b)
		case token.LSS:
			return bo(a < b)
		case token.LEQ:
			return bo(a <= b)
		case token.GTR:
			return bo(a > b)
		case token.GEQ:
			return bo(a >= b)
		}
	}
	return 0, false
}

// Run walks fn from its entry.
func (e *HxEval) Run(fn *ssa.Function) HxOutcome {
	e.env = map[ssa.Value]int64{}
	if len(fn.Blocks) == 0 {
		return HxOutcome{Kind: "stuck", Why: "no body"}
	}
	b := fn.Blocks[0]
	var prev *ssa.BasicBlock
	for steps := 0; steps < 4096; steps++ {
		// phis first, all evaluated against the environment on entry
		newv := map[ssa.Value]int64{}
		for _, in := range b.Instrs {
			ph, ok := in.(*ssa.Phi)
			if !ok {
				break
			}
			for i, pb := range b.Preds {
				if pb == prev {
					if x, ok := e.Value(ph.Edges[i]); ok {
						newv[ph] = x
					}
				}
			}
		}
		for k := range e.env {
			if ph, ok := k.(*ssa.Phi); ok && ph.Block() == b {
				delete(e.env, k)
			}
		}
		for k, v := range newv {
			e.env[k] = v
		}
		var next *ssa.BasicBlock
		for _, in := range b.Instrs {
			switch x := in.(type) {
			case *ssa.Call:
				if _, builtin := x.Call.Value.(*ssa.Builtin); builtin {
					continue
				}
				if e.StopAt == nil || e.StopAt(x) {
					return HxOutcome{Kind: "call", Call: x}
				}
			case *ssa.Return:
				return HxOutcome{Kind: "return", Ret: x}
			case *ssa.Panic:
				return HxOutcome{Kind: "panic"}
			case *ssa.If:
				cv, ok := e.Value(x.Cond)
				if !ok {
					return HxOutcome{Kind: "stuck", Why: "cannot evaluate branch condition `" + CondAtom(x.Cond).String() + "`"}
				}
				if cv != 0 {
					next = b.Succs[0]
				} else {
					next = b.Succs[1]
				}
			case *ssa.Jump:
				next = b.Succs[0]
			}
		}
		if next == nil {
			return HxOutcome{Kind: "stuck", Why: "block without successor"}
		}
		prev, b = b, next
	}
	return HxOutcome{Kind: "stuck", Why: "step limit"}
}

// HxEntry selects the first instruction of the function.
func HxEntry() Sel {
	return Sel{"function entry", func(p *Prog, fn *ssa.Function) []ssa.Instruction {
		if len(fn.Blocks) == 0 || len(fn.Blocks[0].Instrs) == 0 {
			return nil
		}
		return []ssa.Instruction{fn.Blocks[0].Instrs[0]}
	}}
}
