package core

import (
	"fmt"
	"os"
	"os/exec"
	"path/filepath"
	"sort"
	"strings"
	"time"
)

// Thorough runs the deeper tier for one property:
//  1. the quick analysis of repo (verdict);
//  2. the same rule set under additional build configurations (extraConfigs: env
//     assignments such as "GOARCH=386"); violations there are violations too;
//  3. the checker's self-test: every patch under selftestDir/<ID>/*.diff (and
//     selftestDir/revert_*.diff listed for the property) is applied to a scratch
//     copy of repo, which is analysed (never built or run); the rule set must
//     report a violation on it. Self-test results validate the checker and are
//     reported under coverage.selftest; a patch that no longer applies is skipped.
func Thorough(repo string, prop *Property, seed int, evidencePath, findingsPath, selftestDir string, start time.Time) int {
	extra := map[string]any{}
	p, err := Load(repo)
	if err != nil {
		fmt.Fprintln(os.Stderr, "load failed:", err)
		fmt.Printf("VIOLATION property=%s replay=load-failure\n", prop.ID)
		return 1
	}
	// 2. additional configurations (verdicts merged by running them first with no evidence)
	configs := []string{"GOARCH=386"}
	cfgResults := map[string]string{}
	rcExtra := 0
	for _, cfg := range configs {
		pc, err := Load(repo, strings.Fields(cfg)...)
		if err != nil {
			cfgResults[cfg] = "load failed: " + err.Error()
			continue // a configuration the repo does not build under is not a property violation
		}
		rc := RunProperty(pc, prop, "thorough", seed, "", findingsPath, time.Now(), nil)
		cfgResults[cfg] = fmt.Sprintf("exit %d", rc)
		if rc > rcExtra {
			rcExtra = rc
		}
	}
	extra["configs"] = append([]string{"GOOS=linux GOARCH=amd64 (default)"}, configs...)
	extra["config_results"] = cfgResults
	// 3. self-test patches
	var patches []string
	if ms, _ := filepath.Glob(filepath.Join(selftestDir, prop.ID, "*.diff")); ms != nil {
		patches = append(patches, ms...)
	}
	for _, rv := range SelftestReverts[prop.ID] {
		patches = append(patches, filepath.Join(selftestDir, rv))
	}
	sort.Strings(patches)
	type st struct {
		Patch    string `json:"patch"`
		Result   string `json:"result"`
		Detected bool   `json:"detected"`
	}
	var sts []st
	detected, applied := 0, 0
	for _, pf := range patches {
		res := st{Patch: strings.TrimPrefix(pf, selftestDir+"/")}
		if abs, err := filepath.Abs(pf); err == nil {
			pf = abs
		}
		dir, err := os.MkdirTemp("", "vsa-selftest-")
		if err != nil {
			res.Result = "mkdtemp: " + err.Error()
			sts = append(sts, res)
			continue
		}
		func() {
			defer os.RemoveAll(dir)
			if out, err := exec.Command("rsync", "-a", "--exclude", ".git", repo+"/", dir+"/").CombinedOutput(); err != nil {
				res.Result = "copy failed: " + string(out)
				return
			}
			cmd := exec.Command("patch", "-p1", "-s", "-i", pf)
			cmd.Dir = dir
			if out, err := cmd.CombinedOutput(); err != nil {
				res.Result = "patch does not apply (skipped): " + strings.TrimSpace(string(out))
				return
			}
			applied++
			ps, err := Load(dir)
			if err != nil {
				res.Result = "mutant does not type-check (skipped): " + err.Error()
				applied--
				return
			}
			c := newCtx(ps, prop, "thorough")
			func() {
				defer func() {
					if r := recover(); r != nil {
						c.Undecided("internal", "panic", fmt.Sprint(r))
					}
				}()
				prop.RunAll(c)
			}()
			fds, _ := loadFindings(findingsPath)
			var firing []string
			for _, o := range c.Obls {
				// only what would make the check fail counts as a detection
				if o.Status != Violated && o.Status != Undecided {
					continue
				}
				if _, adv := isAdvisory(prop.ID, o.Key()); adv {
					continue
				}
				known := false
				for _, f := range fds {
					if f.prop == prop.ID && f.key == o.Key() {
						known = true
					}
				}
				if !known {
					firing = append(firing, o.Key())
				}
			}
			if len(firing) > 0 {
				res.Detected = true
				detected++
				if len(firing) > 3 {
					firing = append(firing[:3], "…")
				}
				res.Result = "detected by " + strings.Join(firing, " ; ")
			} else {
				res.Result = "NOT detected"
			}
		}()
		sts = append(sts, res)
	}
	extra["selftest"] = sts
	extra["selftest_applied"] = applied
	extra["selftest_detected"] = detected
	rc := RunProperty(p, prop, "thorough", seed, evidencePath, findingsPath, start, extra)
	if rcExtra > rc {
		fmt.Printf("VIOLATION property=%s replay=%s (under an additional build configuration: %v)\n", prop.ID, evidencePath, cfgResults)
		rc = rcExtra
	}
	fmt.Printf("selftest: %d patch(es), %d applied, %d detected\n", len(patches), applied, detected)
	return rc
}

// SelftestReverts maps a property to reverse patches of real fixes that its rule set must detect.
var SelftestReverts = map[string][]string{
	"C12": {"revert_F1.diff"},
	"C46": {"revert_F2.diff"},
	"C50": {"revert_F3.diff"},
	"C10": {"revert_F4.diff"},
	"C33": {"revert_F5.diff"},
	"C15": {"revert_F10.diff"},
	"C35": {"revert_F11.diff"},
	"C01": {"revert_F12.diff"},
	"C03": {"revert_F16.diff"},
	"C41": {"revert_F13.diff", "revert_F14.diff", "revert_F15.diff"},
	"C56": {"revert_F6.diff", "revert_F7.diff", "revert_F8.diff", "revert_F9.diff"},
}
