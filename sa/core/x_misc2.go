package core

import (
	"fmt"
	"go/constant"
	"go/token"
	"go/types"
	"sort"
	"strings"

	"golang.org/x/tools/go/ssa"
)

// Helpers shared by the C54, C57..C61 rule files: byte-layout extraction,
// append-chain sequences, constant-folded liveness, per-path site counting,
// channel operations and a predicate form of Reject.

// StripConv removes value-preserving wrappers (conversions, interface boxing).
func StripConv(v ssa.Value) ssa.Value {
	for {
		switch x := v.(type) {
		case *ssa.Convert:
			v = x.X
		case *ssa.ChangeType:
			v = x.X
		case *ssa.MakeInterface:
			v = x.X
		case *ssa.ChangeInterface:
			v = x.X
		default:
			return v
		}
	}
}

// ConstInt64 evaluates v (through integer conversions and constant arithmetic) as a constant.
func ConstInt64(v ssa.Value) (int64, bool) {
	if v == nil {
		return 0, false
	}
	if !isIntegral(v.Type()) {
		return 0, false
	}
	l := Linearize(v)
	if !l.isConst() {
		return 0, false
	}
	return l.K, true
}

// ConstStr returns the value of a string constant.
func ConstStr(v ssa.Value) (string, bool) {
	c, ok := StripConv(v).(*ssa.Const)
	if !ok || c.Value == nil || c.Value.Kind() != constant.String {
		return "", false
	}
	return constant.StringVal(c.Value), true
}

// DomBefore reports whether instruction a is executed before b on every path reaching b.
func DomBefore(a, b ssa.Instruction) bool {
	pa, pb := posOf(a), posOf(b)
	if pa.b == pb.b {
		return pa.i < pb.i
	}
	return pa.b.Dominates(pb.b)
}

// ---------------------------------------------------------------------------
// Variadic argument slices and append chains.

// VarArgElems returns the element values of a slice built from a fresh array
// whose elements are stored individually (the form go/ssa gives to variadic
// calls and to composite literals of slices), in index order.
func VarArgElems(v ssa.Value) ([]ssa.Value, bool) {
	sl, ok := v.(*ssa.Slice)
	if !ok || sl.Low != nil || sl.High != nil {
		return nil, false
	}
	al, ok := sl.X.(*ssa.Alloc)
	if !ok {
		return nil, false
	}
	pt, ok := al.Type().Underlying().(*types.Pointer)
	if !ok {
		return nil, false
	}
	at, ok := pt.Elem().Underlying().(*types.Array)
	if !ok {
		return nil, false
	}
	out := make([]ssa.Value, at.Len())
	refs := al.Referrers()
	if refs == nil {
		return nil, false
	}
	for _, r := range *refs {
		ia, ok := r.(*ssa.IndexAddr)
		if !ok {
			continue
		}
		k, ok := ConstInt64(ia.Index)
		if !ok || k < 0 || k >= at.Len() {
			return nil, false
		}
		if ir := ia.Referrers(); ir != nil {
			for _, u := range *ir {
				if st, ok := u.(*ssa.Store); ok && st.Addr == ia {
					if out[k] != nil {
						return nil, false
					}
					out[k] = st.Val
				}
			}
		}
	}
	for _, e := range out {
		if e == nil {
			return nil, false
		}
	}
	return out, true
}

// CallVarArgs returns the variadic elements of a call whose last argument is a
// go/ssa-built variadic slice, with interface boxing removed.
func CallVarArgs(in ssa.Instruction) ([]ssa.Value, bool) {
	ci, ok := in.(ssa.CallInstruction)
	if !ok {
		return nil, false
	}
	args := BaselineArgs(ci.Common())
	if len(args) == 0 {
		return nil, false
	}
	es, ok := VarArgElems(args[len(args)-1])
	if !ok {
		return nil, false
	}
	for i := range es {
		es[i] = StripConv(es[i])
	}
	return es, true
}

// AppendSeqs describes the contents of a slice built by a chain of append
// calls: one sequence of element terms per control-flow path. Elements
// appended one by one render as their term, a spread operand as "...term";
// the chain start renders as "[" (empty slice: nil, x[:0], make(_,0,_)),
// "*" (loop-carried prefix) or "?term" (anything else).
func AppendSeqs(v ssa.Value) []string {
	var out []string
	onStack := map[*ssa.Phi]bool{}
	var walk func(v ssa.Value, suffix []string, depth int)
	emit := func(head string, suffix []string) {
		out = append(out, strings.TrimSpace(head+" "+strings.Join(suffix, " ")))
	}
	walk = func(v ssa.Value, suffix []string, depth int) {
		if depth > 64 || len(out) > 256 {
			emit("?deep", suffix)
			return
		}
		switch x := v.(type) {
		case *ssa.Call:
			if b, ok := x.Call.Value.(*ssa.Builtin); ok && b.Name() == "append" && len(x.Call.Args) == 2 {
				var elems []string
				if es, ok := VarArgElems(x.Call.Args[1]); ok {
					for _, e := range es {
						elems = append(elems, Term(e))
					}
				} else {
					elems = []string{"..." + Term(x.Call.Args[1])}
				}
				walk(x.Call.Args[0], append(elems, suffix...), depth+1)
				return
			}
		case *ssa.Slice:
			if x.Low == nil && x.High != nil {
				if k, ok := ConstInt64(x.High); ok && k == 0 {
					emit("[", suffix)
					return
				}
			}
		case *ssa.MakeSlice:
			if k, ok := ConstInt64(x.Len); ok && k == 0 {
				emit("[", suffix)
				return
			}
		case *ssa.Const:
			if x.Value == nil {
				emit("[", suffix)
				return
			}
		case *ssa.Phi:
			if onStack[x] {
				emit("*", suffix)
				return
			}
			onStack[x] = true
			for _, e := range x.Edges {
				walk(e, suffix, depth+1)
			}
			delete(onStack, x)
			return
		}
		emit("?"+Term(v), suffix)
	}
	walk(v, nil, 0)
	sort.Strings(out)
	// de-duplicate
	var uniq []string
	for i, s := range out {
		if i == 0 || s != out[i-1] {
			uniq = append(uniq, s)
		}
	}
	return uniq
}

// ---------------------------------------------------------------------------
// Liveness under constant conditions (runtime.GOOS switches and the like).

func constCond(v ssa.Value) (bool, bool) {
	switch x := v.(type) {
	case *ssa.Const:
		if x.Value != nil && x.Value.Kind() == constant.Bool {
			return constant.BoolVal(x.Value), true
		}
	case *ssa.BinOp:
		a, ok1 := x.X.(*ssa.Const)
		b, ok2 := x.Y.(*ssa.Const)
		if ok1 && ok2 && a.Value != nil && b.Value != nil {
			switch x.Op {
			case token.EQL, token.NEQ, token.LSS, token.LEQ, token.GTR, token.GEQ:
				return constant.Compare(a.Value, x.Op, b.Value), true
			}
		}
	}
	return false, false
}

// LiveBlocks returns the blocks reachable from the entry when branches on
// compile-time constant conditions are folded (default build configuration).
func LiveBlocks(fn *ssa.Function) map[*ssa.BasicBlock]bool {
	live := map[*ssa.BasicBlock]bool{}
	if len(fn.Blocks) == 0 {
		return live
	}
	work := []*ssa.BasicBlock{fn.Blocks[0]}
	live[fn.Blocks[0]] = true
	for len(work) > 0 {
		b := work[len(work)-1]
		work = work[:len(work)-1]
		succs := b.Succs
		if len(b.Instrs) > 0 {
			if ifi, ok := b.Instrs[len(b.Instrs)-1].(*ssa.If); ok {
				if val, ok := constCond(ifi.Cond); ok {
					if val {
						succs = b.Succs[:1]
					} else {
						succs = b.Succs[1:2]
					}
				}
			}
		}
		for _, s := range succs {
			if !live[s] {
				live[s] = true
				work = append(work, s)
			}
		}
	}
	return live
}

// Live restricts a selector to instructions in live blocks.
func (s Sel) Live() Sel {
	return Sel{s.Name + " (live)", func(p *Prog, fn *ssa.Function) []ssa.Instruction {
		live := LiveBlocks(fn)
		var out []ssa.Instruction
		for _, in := range s.F(p, fn) {
			if live[in.Block()] {
				out = append(out, in)
			}
		}
		return out
	}}
}

// ---------------------------------------------------------------------------
// Byte-layout extraction.

// ByteAccess is one read or write of a byte buffer at a (linear) offset.
type ByteAccess struct {
	Base  ssa.Value // the slice/array indexed or sliced
	Off   string    // linear form of the offset ("0", "len($0)+2")
	Hi    string    // for slices: linear form of the upper bound, "" when absent
	Width int       // bytes (0: unknown, e.g. copy)
	Enc   string    // "u8", "be", "le", "copy"
	Val   ssa.Value // written value / value produced by the read (for copy-reads: the destination)
	In    ssa.Instruction
}

func (a ByteAccess) String() string {
	w := ""
	if a.Width > 0 {
		w = fmt.Sprintf("/%d", a.Width)
	}
	if a.Hi != "" {
		return fmt.Sprintf("%s@%s:%s%s", a.Enc, a.Off, a.Hi, w)
	}
	return fmt.Sprintf("%s@%s%s", a.Enc, a.Off, w)
}

func isByte(t types.Type) bool {
	b, ok := t.Underlying().(*types.Basic)
	return ok && (b.Kind() == types.Uint8 || b.Kind() == types.Byte)
}

func byteElem(t types.Type) bool {
	switch u := t.Underlying().(type) {
	case *types.Slice:
		return isByte(u.Elem())
	case *types.Array:
		return isByte(u.Elem())
	case *types.Pointer:
		if a, ok := u.Elem().Underlying().(*types.Array); ok {
			return isByte(a.Elem())
		}
	}
	return false
}

func sliceBounds(v ssa.Value) (base ssa.Value, lo, hi string, ok bool) {
	sl, isSl := v.(*ssa.Slice)
	if !isSl {
		// the whole buffer
		if byteElem(v.Type()) {
			return v, "0", "", true
		}
		return nil, "", "", false
	}
	lo = "0"
	if sl.Low != nil {
		lo = Linearize(sl.Low).String()
	}
	if sl.High != nil {
		hi = Linearize(sl.High).String()
	}
	return sl.X, lo, hi, byteElem(sl.X.Type())
}

var endianRecv = map[string]string{
	"(encoding/binary.bigEndian)":    "be",
	"(encoding/binary.littleEndian)": "le",
}

// ByteAccesses lists byte-buffer reads and writes of fn in live blocks:
// indexed byte loads/stores, encoding/binary fixed-width accessors applied to
// a sub-slice, and builtin copy to/from a sub-slice.
func ByteAccesses(fn *ssa.Function) (reads, writes []ByteAccess) {
	live := LiveBlocks(fn)
	for _, b := range fn.Blocks {
		if !live[b] {
			continue
		}
		for _, in := range b.Instrs {
			switch x := in.(type) {
			case *ssa.UnOp:
				if x.Op != token.MUL {
					continue
				}
				if ia, ok := x.X.(*ssa.IndexAddr); ok && byteElem(ia.X.Type()) {
					reads = append(reads, ByteAccess{Base: ia.X, Off: Linearize(ia.Index).String(), Width: 1, Enc: "u8", Val: x, In: in})
				}
			case *ssa.Store:
				if ia, ok := x.Addr.(*ssa.IndexAddr); ok && byteElem(ia.X.Type()) {
					writes = append(writes, ByteAccess{Base: ia.X, Off: Linearize(ia.Index).String(), Width: 1, Enc: "u8", Val: x.Val, In: in})
				}
			case *ssa.Call:
				name := CalleeName(&x.Call)
				if name == "builtin:copy" && len(x.Call.Args) == 2 {
					if base, lo, hi, ok := sliceBounds(x.Call.Args[0]); ok {
						if _, isSl := x.Call.Args[0].(*ssa.Slice); isSl {
							writes = append(writes, ByteAccess{Base: base, Off: lo, Hi: hi, Enc: "copy", Val: x.Call.Args[1], In: in})
						}
					}
					if base, lo, hi, ok := sliceBounds(x.Call.Args[1]); ok {
						if _, isSl := x.Call.Args[1].(*ssa.Slice); isSl {
							reads = append(reads, ByteAccess{Base: base, Off: lo, Hi: hi, Enc: "copy", Val: x.Call.Args[0], In: in})
						}
					}
					continue
				}
				for recv, enc := range endianRecv {
					if !strings.HasPrefix(name, recv+".") {
						continue
					}
					m := strings.TrimPrefix(name, recv+".")
					width := map[string]int{"Uint16": 2, "Uint32": 4, "Uint64": 8, "PutUint16": 2, "PutUint32": 4, "PutUint64": 8}[m]
					if width == 0 || len(x.Call.Args) < 2 {
						continue
					}
					base, lo, hi, ok := sliceBounds(x.Call.Args[1])
					if !ok {
						continue
					}
					acc := ByteAccess{Base: base, Off: lo, Hi: hi, Width: width, Enc: enc, In: in}
					if strings.HasPrefix(m, "Put") && len(x.Call.Args) == 3 {
						acc.Val = x.Call.Args[2]
						writes = append(writes, acc)
					} else if !strings.HasPrefix(m, "Put") {
						acc.Val = x
						reads = append(reads, acc)
					}
				}
			}
		}
	}
	return
}

// FieldLoads lists the names of struct fields (of the named struct type
// "pkg.T") whose loads v is computed from.
func (p *Prog) FieldLoads(v ssa.Value, typeQ string) []string {
	obj := p.Object(typeQ)
	if obj == nil {
		return nil
	}
	set := map[string]bool{}
	Backward(v, func(x ssa.Value) bool {
		switch y := x.(type) {
		case *ssa.FieldAddr:
			t := y.X.Type()
			if pt, ok := t.Underlying().(*types.Pointer); ok {
				t = pt.Elem()
			}
			if types.Identical(t, obj.Type()) {
				set[fieldName(y.X.Type(), y.Field)] = true
				return false
			}
		case *ssa.Field:
			if types.Identical(y.X.Type(), obj.Type()) {
				set[fieldName(y.X.Type(), y.Field)] = true
				return false
			}
		}
		return true
	})
	var out []string
	for k := range set {
		out = append(out, k)
	}
	sort.Strings(out)
	return out
}

// FieldStores lists stores (in live blocks of fn) to fields of the named struct type.
func (p *Prog) FieldStores(fn *ssa.Function, typeQ string) map[string][]*ssa.Store {
	out := map[string][]*ssa.Store{}
	obj := p.Object(typeQ)
	if obj == nil {
		return out
	}
	live := LiveBlocks(fn)
	eachInstr(fn, func(in ssa.Instruction) {
		st, ok := in.(*ssa.Store)
		if !ok || !live[in.Block()] {
			return
		}
		fa, ok := st.Addr.(*ssa.FieldAddr)
		if !ok {
			return
		}
		t := fa.X.Type()
		if pt, ok := t.Underlying().(*types.Pointer); ok {
			t = pt.Elem()
		}
		if types.Identical(t, obj.Type()) {
			n := fieldName(fa.X.Type(), fa.Field)
			out[n] = append(out[n], st)
		}
	})
	return out
}

// ---------------------------------------------------------------------------
// Generic selectors.

// StoresWhere selects store instructions satisfying pred.
func StoresWhere(desc string, pred func(*ssa.Store) bool) Sel {
	return Sel{"store " + desc, func(p *Prog, fn *ssa.Function) []ssa.Instruction {
		var out []ssa.Instruction
		eachInstr(fn, func(in ssa.Instruction) {
			if st, ok := in.(*ssa.Store); ok && pred(st) {
				out = append(out, in)
			}
		})
		return out
	}}
}

// StoreVal selects stores (to any location) of a value rendering as term.
func StoreVal(term string) Sel {
	return StoresWhere("of "+term, func(st *ssa.Store) bool { return Term(st.Val) == term })
}

// InstrsWhere selects arbitrary instructions.
func InstrsWhere(desc string, pred func(ssa.Instruction) bool) Sel {
	return Sel{desc, func(p *Prog, fn *ssa.Function) []ssa.Instruction {
		var out []ssa.Instruction
		eachInstr(fn, func(in ssa.Instruction) {
			if pred(in) {
				out = append(out, in)
			}
		})
		return out
	}}
}

// UnderFact keeps the sites dominated by a branch edge establishing spec
// exactly; NotUnderFact keeps the others.
func (c *Ctx) UnderFact(s Sel, spec string, want bool) Sel {
	name := s.Name + " under " + stripSpaces(spec)
	if !want {
		name = s.Name + " not under " + stripSpaces(spec)
	}
	return Sel{name, func(p *Prog, fn *ssa.Function) []ssa.Instruction {
		a, err := p.ParseAtom(spec)
		if err != nil {
			return nil
		}
		var out []ssa.Instruction
		for _, in := range s.F(p, fn) {
			if holds(FactsAtInstr(in), a, true) == want {
				out = append(out, in)
			}
		}
		return out
	}}
}

// ---------------------------------------------------------------------------
// Path rules.

// CountOnPaths: on every path from the entry to a normal return exactly
// `want` selected sites are executed (sites inside a cycle make the count
// path-dependent and fail).
func (c *Ctx) CountOnPaths(fnName string, sel Sel, want int) bool {
	rule := "count-on-paths"
	construct := fmt.Sprintf("%s: every path executes [%s] exactly %d time(s)", fnName, sel.Name, want)
	fn, ins := c.sites(rule, fnName, sel)
	if ins == nil {
		return false
	}
	set := instrSet(ins)
	in := map[*ssa.BasicBlock]int{}
	seen := map[*ssa.BasicBlock]bool{}
	work := []*ssa.BasicBlock{fn.Blocks[0]}
	seen[fn.Blocks[0]] = true
	capAt := want + 2
	nret := 0
	for len(work) > 0 {
		b := work[len(work)-1]
		work = work[:len(work)-1]
		n := in[b]
		for _, x := range b.Instrs {
			if set[x] && n < capAt {
				n++
			}
			if _, ok := x.(*ssa.Return); ok {
				nret++
				if n != want {
					c.Fail(rule, construct, InstrPos(x), fmt.Sprintf("a path reaching this return executes %d selected site(s)", n))
					return false
				}
			}
		}
		for _, s := range b.Succs {
			if !seen[s] {
				seen[s] = true
				in[s] = n
				work = append(work, s)
			} else if in[s] != n {
				c.Fail(rule, construct, InstrPos(firstInstr(s)), fmt.Sprintf("paths joining at block %d have executed %d and %d selected site(s)", s.Index, in[s], n))
				return false
			}
		}
	}
	if nret == 0 {
		c.Undecided(rule, construct, "no reachable return")
		return false
	}
	c.OK(rule, construct, fmt.Sprintf("%d site(s), %d return(s)", len(ins), nret))
	return true
}

// BetweenVia: every path from a `from` site to a `to` site passes a `via` site.
func (c *Ctx) BetweenVia(fnName string, from, to, via Sel, inclusive bool) bool {
	rule := "pass-between"
	construct := fmt.Sprintf("%s: from [%s] to [%s] always via [%s]", fnName, from.Name, to.Name, via.Name)
	fn, ins := c.sites(rule, fnName, from)
	if ins == nil {
		return false
	}
	targets := instrSet(to.F(c.P, fn))
	if len(targets) == 0 {
		c.Undecided(rule, construct, "no ["+to.Name+"] site")
		return false
	}
	barriers := instrSet(via.F(c.P, fn))
	if len(barriers) == 0 {
		c.Fail(rule, construct, fn.Pos(), "no ["+via.Name+"] site in this function")
		return false
	}
	for _, in := range ins {
		if t, reach := canReach(posOf(in), inclusive, targets, barriers); reach {
			c.Fail(rule, construct, InstrPos(t), fmt.Sprintf("`%s` is reachable from `%s` without [%s]", DescribeInstr(t), DescribeInstr(in), via.Name))
			return false
		}
	}
	c.OK(rule, construct, fmt.Sprintf("%d start(s), %d target(s), %d via site(s)", len(ins), len(targets), len(barriers)))
	return true
}

// RejectIf is Reject with the rejecting condition given as a predicate over
// If instructions: match returns the successor index (0 true, 1 false) on
// which the bad condition holds, or -1. Some matching If must dominate every
// site and its bad successor must not reach any site. When after is
// non-empty the If must itself be preceded (dominated) by an `after` site.
func (c *Ctx) RejectIf(fnName string, site Sel, after *Sel, desc string, match func(*ssa.If) int) bool {
	rule := "reject-before"
	construct := fmt.Sprintf("%s: when %s never [%s]", fnName, desc, site.Name)
	fn, ins := c.sites(rule, fnName, site)
	if ins == nil {
		return false
	}
	var afters []ssa.Instruction
	if after != nil {
		afters = after.F(c.P, fn)
		if len(afters) == 0 {
			c.Undecided(rule, construct, "no ["+after.Name+"] site")
			return false
		}
	}
	nmatch := 0
	why := "no branch in this function tests " + desc
	for _, b := range fn.Blocks {
		if len(b.Instrs) == 0 {
			continue
		}
		ifi, ok := b.Instrs[len(b.Instrs)-1].(*ssa.If)
		if !ok {
			continue
		}
		k := match(ifi)
		if k < 0 {
			continue
		}
		if after != nil {
			okAfter := false
			for _, a := range afters {
				if DomBefore(a, ifi) {
					okAfter = true
				}
			}
			if !okAfter {
				continue
			}
		}
		nmatch++
		good := true
		for _, in := range ins {
			if !b.Dominates(in.Block()) {
				good = false
				why = fmt.Sprintf("site `%s` is reachable without passing the test of %s", DescribeInstr(in), desc)
				break
			}
			if _, reach := canReach(ipos{b.Succs[k], 0}, true, map[ssa.Instruction]bool{in: true}, nil); reach {
				good = false
				why = fmt.Sprintf("the branch where %s holds still reaches `%s`", desc, DescribeInstr(in))
				break
			}
		}
		if good {
			c.OK(rule, construct, fmt.Sprintf("test at %s; %d site(s)", c.P.Pos(InstrPos(ifi)), len(ins)))
			return true
		}
	}
	c.Fail(rule, construct, fn.Pos(), why)
	return false
}

// ByteCmp recognises a condition comparing the byte at a constant index of a
// byte buffer with a constant: idx, comparison operator, constant.
func ByteCmp(cond ssa.Value) (idx int64, op token.Token, k int64, ok bool) {
	bo, isBin := cond.(*ssa.BinOp)
	if !isBin {
		return
	}
	x, y := StripConv(bo.X), StripConv(bo.Y)
	op = bo.Op
	if _, isConst := x.(*ssa.Const); isConst {
		x, y = y, x
		switch op {
		case token.LSS:
			op = token.GTR
		case token.GTR:
			op = token.LSS
		case token.LEQ:
			op = token.GEQ
		case token.GEQ:
			op = token.LEQ
		}
	}
	ld, isLoad := x.(*ssa.UnOp)
	if !isLoad || ld.Op != token.MUL {
		return
	}
	ia, isIdx := ld.X.(*ssa.IndexAddr)
	if !isIdx || !byteElem(ia.X.Type()) {
		return
	}
	i, ok1 := ConstInt64(ia.Index)
	kc, isConst := y.(*ssa.Const)
	if !ok1 || !isConst || kc.Value == nil {
		return
	}
	kv, ok2 := constant.Int64Val(constant.ToInt(kc.Value))
	if !ok2 {
		return
	}
	return i, op, kv, true
}

// ---------------------------------------------------------------------------
// Phi case tables.

// PhiCase is one incoming edge of a phi with the branch facts known on it.
type PhiCase struct {
	Val   ssa.Value
	Pred  *ssa.BasicBlock
	Facts []Atom
}

// PhiCases lists the incoming edges of phi with the facts established by the
// branches dominating each predecessor (plus the predecessor's own branch edge).
func PhiCases(phi *ssa.Phi) []PhiCase {
	var out []PhiCase
	blk := phi.Block()
	for i, e := range phi.Edges {
		pred := blk.Preds[i]
		var fs []Atom
		for _, f := range FactsAt(pred) {
			fs = append(fs, f.Atom)
		}
		if n := len(pred.Instrs); n > 0 {
			if ifi, ok := pred.Instrs[n-1].(*ssa.If); ok {
				a := CondAtom(ifi.Cond)
				if pred.Succs[0] == blk && pred.Succs[1] != blk {
					fs = append(fs, a)
				} else if pred.Succs[1] == blk && pred.Succs[0] != blk {
					fs = append(fs, a.Negate())
				}
			}
		}
		out = append(out, PhiCase{e, pred, fs})
	}
	return out
}

// HasFact reports whether spec is among the atoms (exact canonical equality).
func (p *Prog) HasFact(fs []Atom, spec string) bool {
	a, err := p.ParseAtom(spec)
	if err != nil {
		return false
	}
	for _, f := range fs {
		if SameAtom(f, a) {
			return true
		}
	}
	return false
}

// Phis lists the phi nodes of fn.
func Phis(fn *ssa.Function) []*ssa.Phi {
	var out []*ssa.Phi
	eachInstr(fn, func(in ssa.Instruction) {
		if ph, ok := in.(*ssa.Phi); ok {
			out = append(out, ph)
		}
	})
	return out
}

// IsCounterPhi reports whether phi is a loop counter: one constant start edge
// (returned) and every other edge is phi+1.
func IsCounterPhi(phi *ssa.Phi) (start int64, ok bool) {
	haveStart, haveStep := false, false
	for _, e := range phi.Edges {
		if k, isC := ConstInt64(e); isC {
			if _, isConst := StripConv(e).(*ssa.Const); isConst {
				if haveStart && k != start {
					return 0, false
				}
				start, haveStart = k, true
				continue
			}
		}
		bo, isBin := e.(*ssa.BinOp)
		if !isBin || bo.Op != token.ADD || bo.X != ssa.Value(phi) {
			return 0, false
		}
		if k, isC := ConstInt64(bo.Y); !isC || k != 1 {
			return 0, false
		}
		haveStep = true
	}
	return start, haveStart && haveStep
}

// ---------------------------------------------------------------------------
// Channel operations.

// ChanOp is one channel operation.
type ChanOp struct {
	Kind  string // "send", "recv", "close", "select-send", "select-recv", "make"
	Chan  string // rendered channel operand
	Index int    // select case index
	Block bool   // select: blocking
	In    ssa.Instruction
}

// ChanOps lists the channel operations of fn.
func ChanOps(fn *ssa.Function) []ChanOp {
	var out []ChanOp
	eachInstr(fn, func(in ssa.Instruction) {
		switch x := in.(type) {
		case *ssa.Send:
			out = append(out, ChanOp{Kind: "send", Chan: Term(x.Chan), In: in})
		case *ssa.UnOp:
			if x.Op == token.ARROW {
				out = append(out, ChanOp{Kind: "recv", Chan: Term(x.X), In: in})
			}
		case *ssa.Select:
			for i, st := range x.States {
				k := "select-recv"
				if st.Dir == types.SendOnly {
					k = "select-send"
				}
				out = append(out, ChanOp{Kind: k, Chan: Term(st.Chan), Index: i, Block: x.Blocking, In: in})
			}
		case *ssa.Call:
			if b, ok := x.Call.Value.(*ssa.Builtin); ok && b.Name() == "close" && len(x.Call.Args) == 1 {
				out = append(out, ChanOp{Kind: "close", Chan: Term(x.Call.Args[0]), In: in})
			}
		}
	})
	return out
}

// InCycle reports whether the instruction's block lies on a CFG cycle.
func InCycle(in ssa.Instruction) bool {
	b := in.Block()
	seen := map[*ssa.BasicBlock]bool{}
	var work []*ssa.BasicBlock
	work = append(work, b.Succs...)
	for len(work) > 0 {
		x := work[len(work)-1]
		work = work[:len(work)-1]
		if x == b {
			return true
		}
		if seen[x] {
			continue
		}
		seen[x] = true
		work = append(work, x.Succs...)
	}
	return false
}

// FieldQ names the field addressed by a FieldAddr as "pkg.Type.field" ("" if not a field address).
func FieldQ(v ssa.Value) string {
	fa, ok := v.(*ssa.FieldAddr)
	if !ok {
		return ""
	}
	t := fa.X.Type()
	if pt, ok := t.Underlying().(*types.Pointer); ok {
		t = pt.Elem()
	}
	return Short(types.TypeString(t, nil)) + "." + fieldName(fa.X.Type(), fa.Field)
}

// LoadedField names the field a value was loaded from ("" if it is not a direct field load).
func LoadedField(v ssa.Value) string {
	switch x := v.(type) {
	case *ssa.UnOp:
		if x.Op == token.MUL {
			return FieldQ(x.X)
		}
	case *ssa.Field:
		return Short(types.TypeString(x.X.Type(), nil)) + "." + fieldName(x.X.Type(), x.Field)
	}
	return ""
}

// ChanField names the struct field a channel operand was loaded from.
func (o ChanOp) ChanField() string {
	switch x := o.In.(type) {
	case *ssa.Send:
		return LoadedField(x.Chan)
	case *ssa.UnOp:
		return LoadedField(x.X)
	case *ssa.Select:
		return LoadedField(x.States[o.Index].Chan)
	case *ssa.Call:
		if len(x.Call.Args) == 1 {
			return LoadedField(x.Call.Args[0])
		}
	}
	return ""
}

// BoundMethod recognises a method value x.M: it returns the method's short
// name ("(*pkg.T).M") and the bound receiver.
func BoundMethod(v ssa.Value) (string, ssa.Value, bool) {
	mc, ok := v.(*ssa.MakeClosure)
	if !ok || len(mc.Bindings) != 1 {
		return "", nil, false
	}
	fn, ok := mc.Fn.(*ssa.Function)
	if !ok || fn.Synthetic == "" || fn.Object() == nil {
		return "", nil, false
	}
	m, ok := fn.Object().(*types.Func)
	if !ok {
		return "", nil, false
	}
	sig := m.Type().(*types.Signature)
	if sig.Recv() == nil {
		return "", nil, false
	}
	return "(" + Short(types.TypeString(sig.Recv().Type(), nil)) + ")." + m.Name(), mc.Bindings[0], true
}

// FieldAddrUses lists, program-wide, every instruction using the address of
// the named field other than plain loads/stores through it.
func (p *Prog) FieldAddrUses(field string) []ssa.Instruction {
	fv := p.Field(field)
	var out []ssa.Instruction
	if fv == nil {
		return nil
	}
	for _, fn := range p.All {
		eachInstr(fn, func(in ssa.Instruction) {
			fa, ok := in.(*ssa.FieldAddr)
			if !ok || fieldOfAddr(fa) != fv {
				return
			}
			if refs := fa.Referrers(); refs != nil {
				for _, r := range *refs {
					switch x := r.(type) {
					case *ssa.UnOp:
						if x.Op == token.MUL {
							continue
						}
					case *ssa.Store:
						if x.Addr == ssa.Value(fa) {
							continue
						}
					case *ssa.DebugRef:
						continue
					}
					out = append(out, r)
				}
			}
		})
	}
	return out
}

// FieldLoadUses lists, program-wide, every use of a value loaded from the named field.
func (p *Prog) FieldLoadUses(field string) []ssa.Instruction {
	fv := p.Field(field)
	var out []ssa.Instruction
	if fv == nil {
		return nil
	}
	for _, fn := range p.All {
		eachInstr(fn, func(in ssa.Instruction) {
			ld, ok := in.(*ssa.UnOp)
			if !ok || ld.Op != token.MUL || fieldOfAddr(ld.X) != fv {
				return
			}
			if refs := ld.Referrers(); refs != nil {
				for _, r := range *refs {
					if _, dbg := r.(*ssa.DebugRef); dbg {
						continue
					}
					out = append(out, r)
				}
			}
		})
	}
	return out
}

// RecvIs filters interface-method calls whose receiver value renders as term
// (ArgIs does not see the receiver of an invoke-mode call).
func (s Sel) RecvIs(term string) Sel {
	return s.Where("recv="+term, func(in ssa.Instruction) bool {
		c, ok := in.(ssa.CallInstruction)
		return ok && c.Common().IsInvoke() && Term(c.Common().Value) == term
	})
}

// FieldLoadsStop is FieldLoads that does not look through values for which
// stop returns true (e.g. loads from the byte buffer being filled).
func (p *Prog) FieldLoadsStop(v ssa.Value, typeQ string, stop func(ssa.Value) bool) []string {
	obj := p.Object(typeQ)
	if obj == nil {
		return nil
	}
	set := map[string]bool{}
	Backward(v, func(x ssa.Value) bool {
		if stop != nil && stop(x) {
			return false
		}
		switch y := x.(type) {
		case *ssa.FieldAddr:
			t := y.X.Type()
			if pt, ok := t.Underlying().(*types.Pointer); ok {
				t = pt.Elem()
			}
			if types.Identical(t, obj.Type()) {
				set[fieldName(y.X.Type(), y.Field)] = true
				return false
			}
		case *ssa.Field:
			if types.Identical(y.X.Type(), obj.Type()) {
				set[fieldName(y.X.Type(), y.Field)] = true
				return false
			}
		}
		return true
	})
	var out []string
	for k := range set {
		out = append(out, k)
	}
	sort.Strings(out)
	return out
}

// IsByteLoad reports whether v is a load of one element of a byte buffer.
func IsByteLoad(v ssa.Value) bool {
	u, ok := v.(*ssa.UnOp)
	if !ok || u.Op != token.MUL {
		return false
	}
	ia, ok := u.X.(*ssa.IndexAddr)
	return ok && byteElem(ia.X.Type())
}

// IsAliasType reports whether "pkg.Name" is declared as a type alias.
func (p *Prog) IsAliasType(q string) bool {
	tn, ok := p.Object(q).(*types.TypeName)
	return ok && tn.IsAlias()
}

// BackwardContent is Backward restricted to operands that carry content:
// lengths and bounds (len/cap calls, make sizes, slice bounds, indices) are
// not followed.
func BackwardContent(v ssa.Value, visit func(ssa.Value) bool) {
	seen := map[ssa.Value]bool{}
	var walk func(ssa.Value)
	walk = func(x ssa.Value) {
		if x == nil || seen[x] {
			return
		}
		seen[x] = true
		if !visit(x) {
			return
		}
		if a := rootAlloc(x); a != nil {
			for _, st := range storesInto(a) {
				walk(st.Val)
			}
		}
		switch y := x.(type) {
		case *ssa.MakeSlice, *ssa.MakeMap, *ssa.MakeChan:
			return
		case *ssa.Slice:
			walk(y.X)
			return
		case *ssa.IndexAddr:
			walk(y.X)
			return
		case *ssa.Index:
			walk(y.X)
			return
		case *ssa.Call:
			if b, ok := y.Call.Value.(*ssa.Builtin); ok && (b.Name() == "len" || b.Name() == "cap") {
				return
			}
		}
		if in, ok := x.(ssa.Instruction); ok {
			for _, op := range in.Operands(nil) {
				if *op != nil {
					walk(*op)
				}
			}
		}
	}
	walk(v)
}

// FieldLoadsContent lists the fields of struct type "pkg.T" whose content v
// is computed from, not looking through loads of byte-buffer elements.
func (p *Prog) FieldLoadsContent(v ssa.Value, typeQ string) []string {
	obj := p.Object(typeQ)
	if obj == nil {
		return nil
	}
	set := map[string]bool{}
	BackwardContent(v, func(x ssa.Value) bool {
		if IsByteLoad(x) {
			return false
		}
		switch y := x.(type) {
		case *ssa.FieldAddr:
			t := y.X.Type()
			if pt, ok := t.Underlying().(*types.Pointer); ok {
				t = pt.Elem()
			}
			if types.Identical(t, obj.Type()) {
				set[fieldName(y.X.Type(), y.Field)] = true
				return false
			}
		case *ssa.Field:
			if types.Identical(y.X.Type(), obj.Type()) {
				set[fieldName(y.X.Type(), y.Field)] = true
				return false
			}
		}
		return true
	})
	var out []string
	for k := range set {
		out = append(out, k)
	}
	sort.Strings(out)
	return out
}

// LiveBranch: a branch on exactly spec exists in a block that is reachable
// when constant conditions are folded (guards against `if false && cond`).
func (c *Ctx) LiveBranch(fnName, spec string) bool {
	rule := "branch-present"
	construct := fmt.Sprintf("%s: tests %s on a live path", fnName, stripSpaces(spec))
	fn := c.MustFn(fnName)
	if fn == nil {
		return false
	}
	a, err := c.P.ParseAtom(spec)
	if err != nil {
		c.Undecided(rule, construct, err.Error())
		return false
	}
	live := LiveBlocks(fn)
	found := false
	eachInstr(fn, func(in ssa.Instruction) {
		if ifi, ok := in.(*ssa.If); ok && live[in.Block()] {
			ca := CondAtom(ifi.Cond)
			if SameAtom(ca, a) || SameAtom(ca.Negate(), a) {
				found = true
			}
		}
	})
	if !found {
		c.Fail(rule, construct, fn.Pos(), "no reachable branch on this condition")
		return false
	}
	c.OK(rule, construct, "")
	return true
}
