package core

import (
	"bufio"
	"encoding/json"
	"fmt"
	"os"
)

// NotApplicable holds the reason for every property the static family does not claim.
var NotApplicable = map[string]string{}

// Technique names the deciding method per property (defaults to a generic description).
var Technique = map[string]string{}

// WriteManifest prints MANIFEST.json for the registered properties.
func WriteManifest(propsFile string) error {
	f, err := os.Open(propsFile)
	if err != nil {
		return err
	}
	defer f.Close()
	type chk = map[string]any
	checks := []chk{}
	na := []chk{}
	sc := bufio.NewScanner(f)
	sc.Buffer(make([]byte, 1<<22), 1<<22)
	for sc.Scan() {
		var rec struct {
			ID    string `json:"id"`
			Title string `json:"title"`
		}
		if err := json.Unmarshal(sc.Bytes(), &rec); err != nil || rec.ID == "" {
			continue
		}
		pr := Lookup(rec.ID)
		if pr == nil {
			reason := NotApplicable[rec.ID]
			if reason == "" {
				reason = "no sound structural necessary condition has been built for this property in the static-analysis family; not claimed"
			}
			na = append(na, chk{"property_id": rec.ID, "reason": reason})
			continue
		}
		tech := Technique[rec.ID]
		if tech == "" {
			tech = "static analysis over go/types + go/ssa: dominance guards, ownership (who-may-write/call), must-pass-through paths, constant-table checks"
		}
		text := "Static structural necessary conditions, decided on every path / every writer / every table entry of the current source: " + pr.AllClauses() + " Not covered (runtime quantities): " + pr.NotCovered
		if pr.Level == "proof" {
			text = "All obligations are decided exhaustively by abstract (bit-provenance / table) evaluation of the source and together imply the stated property: " + pr.AllClauses() + " Not covered: " + pr.NotCovered
		}
		checks = append(checks, chk{
			"property_id":         rec.ID,
			"quick_cmd":           "./run.sh " + rec.ID + " quick",
			"thorough_cmd":        "./run.sh " + rec.ID + " thorough",
			"evidence_file":       "/verif/evidence/" + rec.ID + ".json",
			"replay_cmd_template": "./run.sh " + rec.ID + " quick  # static: re-running is the replay; {path} is the evidence file listing the failed obligations",
			"engine":              "vsa",
			"level_claimed":       chk{"category": pr.Level, "text": text, "design_ref": "DESIGN.md section 3, " + rec.ID},
			"level_note":          "trusted: go/types, go/ssa (x/tools v0.29.0), the gc compiler's bounds-check prove pass where the panic inventory is used, and the hand-confirmed rule tables in sa/props; the rules are necessary conditions, they do not establish the behavioural property itself",
			"technique":           tech,
		})
	}
	m := chk{
		"version":   1,
		"setup_cmd": "./build.sh",
		"hooks": chk{
			"guard":            "verif",
			"enable":           "none needed: the checker reads source only; no hook exists in /repo",
			"baseline_off_cmd": "cd /repo && go test -vet=off -count=1 -timeout 25m ./...",
			"source_commits":   SourceCommits,
			"add_only":         true,
		},
		"engines": []chk{{
			"name": "vsa", "path": "sa/cmd/vsa", "serves_properties": IDs(),
			"kind_free_text": "repository-specific static analyser (go/packages + go/ssa): guard dominance in canonical linear form, who-may-write/call ownership, must-pass-through, table extraction, codec agreement, compiler BCE panic inventory",
		}},
		"checks":         checks,
		"not_applicable": na,
		"notes":          "Every check is pure static analysis of /repo's working tree (no golang/net code is run). See DESIGN.md.",
	}
	b, err := json.MarshalIndent(m, "", " ")
	if err != nil {
		return err
	}
	fmt.Println(string(b))
	return nil
}

// SourceCommits lists fix: commits made to /repo (hooks: none).
var SourceCommits = []string{"7e360cc", "2d971c6", "fdf6baa", "5146f3f", "7079460", "6f2bd2f", "f8f47a5", "e37d1de", "017e2c3", "f4dfd6a", "3ac2ec8", "7f5b4f7", "433780d", "d98801f", "0443d55", "5601cca"}
