package core

// y_hpackB.go: evaluation of scanning loops that delegate their per-byte test to a LOCAL predicate closure
// (isKeyChar := func(ch byte) bool {...}) and of strings.IndexByte / bytes.IndexByte / strings.ContainsRune /
// strings.IndexRune on a constant string. The table evaluator of x_frame.go is reused for everything else:
// Hb* only re-implements the expression and statement forms that can lie on the path from the root of an
// expression to such a call, and hands every other node to (*Evaluator).Expr / stmt unchanged.

import (
	"fmt"
	"go/ast"
	"go/token"
	"go/types"
	"strings"

	"golang.org/x/tools/go/packages"
)

type hbEval struct {
	ev   *Evaluator
	clos map[types.Object]*ast.FuncLit
}

// HbLocalPredicates returns the local variables of d that are bound exactly once, at their declaration, to a function
// literal and are never assigned again nor have their address taken. A call through such a variable always runs
// that literal.
func HbLocalPredicates(pk *packages.Package, d *ast.FuncDecl) map[types.Object]*ast.FuncLit {
	out := map[types.Object]*ast.FuncLit{}
	if d == nil || d.Body == nil {
		return out
	}
	bad := map[types.Object]bool{}
	objOf := func(e ast.Expr) types.Object {
		for {
			p, ok := e.(*ast.ParenExpr)
			if !ok {
				break
			}
			e = p.X
		}
		id, ok := e.(*ast.Ident)
		if !ok {
			return nil
		}
		if o := pk.TypesInfo.Defs[id]; o != nil {
			return o
		}
		return pk.TypesInfo.Uses[id]
	}
	ast.Inspect(d.Body, func(n ast.Node) bool {
		switch s := n.(type) {
		case *ast.AssignStmt:
			for i, lhs := range s.Lhs {
				o := objOf(lhs)
				if o == nil {
					continue
				}
				if s.Tok == token.DEFINE && pk.TypesInfo.Defs[lhs.(*ast.Ident)] == o && len(s.Lhs) == len(s.Rhs) {
					if fl, ok := s.Rhs[i].(*ast.FuncLit); ok {
						out[o] = fl
						continue
					}
				}
				bad[o] = true // any other assignment (re-binding, tuple assignment, op-assignment)
			}
		case *ast.ValueSpec:
			for i, id := range s.Names {
				o := pk.TypesInfo.Defs[id]
				if o == nil {
					continue
				}
				if i < len(s.Values) && len(s.Values) == len(s.Names) {
					if fl, ok := s.Values[i].(*ast.FuncLit); ok {
						out[o] = fl
					}
				}
			}
		case *ast.UnaryExpr:
			if s.Op == token.AND {
				if o := objOf(s.X); o != nil {
					bad[o] = true
				}
			}
		case *ast.RangeStmt:
			for _, e := range []ast.Expr{s.Key, s.Value} {
				if e != nil {
					if o := objOf(e); o != nil {
						bad[o] = true
					}
				}
			}
		}
		return true
	})
	for o := range bad {
		delete(out, o)
	}
	return out
}

// HbIteration is (*Evaluator).Iteration with local predicate closures and constant-string searches evaluated.
func HbIteration(ev *Evaluator, l *ElemLoop, e int64) (string, error) {
	h := &hbEval{ev: ev, clos: HbLocalPredicates(l.Pkg, l.Decl)}
	env := evNewEnv()
	env.Strs[l.Str] = AbsStr{Len: 1, Elem: e}
	if l.Elem != nil {
		env.Vars[l.Elem] = evWrap(Int(e), l.Elem.Type())
	}
	if l.While != nil {
		cv, err := h.expr(l.Pkg, l.While, env)
		if err != nil {
			return "", err
		}
		if !cv.IsBool {
			return "", fmt.Errorf("%s: non-boolean loop condition", ev.P.Pos(l.While.Pos()))
		}
		if !cv.B {
			return "break", nil
		}
	}
	out, v, err := h.stmts(l.Pkg, l.Body.List, env)
	if err != nil {
		return "", err
	}
	switch out {
	case "return":
		return "return " + v.String(), nil
	case "continue":
		return "next", nil
	}
	return out, nil
}

func (h *hbEval) stmts(pk *packages.Package, list []ast.Stmt, env *Env) (string, Scalar, error) {
	for _, st := range list {
		out, v, err := h.stmt(pk, st, env)
		if err != nil || out != "next" {
			return out, v, err
		}
	}
	return "next", Scalar{}, nil
}

func (h *hbEval) stmt(pk *packages.Package, st ast.Stmt, env *Env) (string, Scalar, error) {
	ev := h.ev
	switch s := st.(type) {
	case *ast.ReturnStmt:
		if len(s.Results) == 0 {
			return "", Scalar{}, fmt.Errorf("%s: bare return", ev.P.Pos(s.Pos()))
		}
		v, err := h.expr(pk, s.Results[len(s.Results)-1], env)
		return "return", v, err
	case *ast.BlockStmt:
		return h.stmts(pk, s.List, env)
	case *ast.IfStmt:
		if s.Init != nil {
			if out, v, err := h.stmt(pk, s.Init, env); err != nil || out != "next" {
				return out, v, err
			}
		}
		cv, err := h.expr(pk, s.Cond, env)
		if err != nil {
			return "", Scalar{}, err
		}
		if !cv.IsBool {
			return "", Scalar{}, fmt.Errorf("%s: non-boolean condition", ev.P.Pos(s.Pos()))
		}
		if cv.B {
			return h.stmts(pk, s.Body.List, env)
		}
		if s.Else != nil {
			return h.stmt(pk, s.Else, env)
		}
		return "next", Scalar{}, nil
	case *ast.AssignStmt:
		if len(s.Lhs) == 1 && len(s.Rhs) == 1 && (s.Tok == token.DEFINE || s.Tok == token.ASSIGN) {
			if id, ok := s.Lhs[0].(*ast.Ident); ok {
				if _, isLit := s.Rhs[0].(*ast.FuncLit); !isLit {
					v, err := h.expr(pk, s.Rhs[0], env)
					if err != nil {
						return "", Scalar{}, err
					}
					o := pk.TypesInfo.Defs[id]
					if o == nil {
						o = pk.TypesInfo.Uses[id]
					}
					if o != nil {
						env.Vars[o] = evWrap(v, o.Type())
						return "next", Scalar{}, nil
					}
				}
			}
		}
	}
	return ev.stmt(pk, st, env)
}

// call of a local predicate closure: the literal's body is run with its parameters bound to the argument values.
// Captured variables are not bound in the fresh environment, so a literal that reads one is "not evaluable".
func (h *hbEval) callLit(pk *packages.Package, fl *ast.FuncLit, args []Scalar) (Scalar, error) {
	ev := h.ev
	if ev.depth > 8 {
		return Scalar{}, fmt.Errorf("call depth exceeded")
	}
	var ps []types.Object
	if fl.Type.Params != nil {
		for _, f := range fl.Type.Params.List {
			if len(f.Names) == 0 {
				ps = append(ps, nil)
			}
			for _, n := range f.Names {
				ps = append(ps, pk.TypesInfo.Defs[n])
			}
		}
	}
	if len(ps) != len(args) {
		return Scalar{}, fmt.Errorf("%s: %d parameters, %d arguments", ev.P.Pos(fl.Pos()), len(ps), len(args))
	}
	env := evNewEnv()
	for i, o := range ps {
		if o == nil {
			continue
		}
		b, ok := o.Type().Underlying().(*types.Basic)
		if !ok || b.Info()&(types.IsInteger|types.IsBoolean) == 0 {
			return Scalar{}, fmt.Errorf("%s: parameter %s is not a scalar", ev.P.Pos(fl.Pos()), o.Name())
		}
		env.Vars[o] = evWrap(args[i], o.Type())
	}
	ev.depth++
	defer func() { ev.depth-- }()
	out, v, err := h.stmts(pk, fl.Body.List, env)
	if err != nil {
		return Scalar{}, err
	}
	if out != "return" {
		return Scalar{}, fmt.Errorf("%s: control falls off the end of the function literal", ev.P.Pos(fl.Pos()))
	}
	return v, nil
}

// constBytes: e is a constant string, or []byte("const").
func hbConstBytes(pk *packages.Package, e ast.Expr) (string, bool) {
	for {
		p, ok := e.(*ast.ParenExpr)
		if !ok {
			break
		}
		e = p.X
	}
	if s, ok := StrOf(pk, e); ok {
		return s, true
	}
	if ce, ok := e.(*ast.CallExpr); ok && len(ce.Args) == 1 {
		if tv, ok := pk.TypesInfo.Types[ce.Fun]; ok && tv.IsType() {
			if sl, ok := tv.Type.Underlying().(*types.Slice); ok {
				if b := evBasicOf(sl.Elem()); b != nil && b.Kind() == types.Uint8 {
					return StrOf(pk, ce.Args[0])
				}
			}
		}
	}
	return "", false
}

func (h *hbEval) expr(pk *packages.Package, e ast.Expr, env *Env) (Scalar, error) {
	ev := h.ev
	fail := func(why string) (Scalar, error) {
		return Scalar{}, fmt.Errorf("%s: %s", ev.P.Pos(e.Pos()), why)
	}
	if tv, ok := pk.TypesInfo.Types[e]; ok && tv.Value != nil {
		return ev.Expr(pk, e, env)
	}
	switch x := e.(type) {
	case *ast.ParenExpr:
		return h.expr(pk, x.X, env)
	case *ast.UnaryExpr:
		v, err := h.expr(pk, x.X, env)
		if err != nil {
			return v, err
		}
		switch {
		case x.Op == token.NOT && v.IsBool:
			return Bool(!v.B), nil
		case x.Op == token.SUB && !v.IsBool:
			return evWrap(Int(-v.I), pk.TypesInfo.TypeOf(e)), nil
		case x.Op == token.ADD && !v.IsBool:
			return v, nil
		}
		return fail("unary operator " + x.Op.String())
	case *ast.BinaryExpr:
		l, err := h.expr(pk, x.X, env)
		if err != nil {
			return l, err
		}
		if x.Op == token.LAND || x.Op == token.LOR {
			if !l.IsBool {
				return fail("non-boolean operand")
			}
			if (x.Op == token.LAND) != l.B {
				return l, nil
			}
			r, err := h.expr(pk, x.Y, env)
			if err != nil || !r.IsBool {
				if err == nil {
					err = fmt.Errorf("%s: non-boolean operand", ev.P.Pos(e.Pos()))
				}
				return r, err
			}
			return r, nil
		}
		r, err := h.expr(pk, x.Y, env)
		if err != nil {
			return r, err
		}
		if l.IsBool != r.IsBool {
			return fail("mixed operands")
		}
		if l.IsBool {
			switch x.Op {
			case token.EQL:
				return Bool(l.B == r.B), nil
			case token.NEQ:
				return Bool(l.B != r.B), nil
			}
			return fail("operator " + x.Op.String() + " on booleans")
		}
		switch x.Op {
		case token.EQL:
			return Bool(l.I == r.I), nil
		case token.NEQ:
			return Bool(l.I != r.I), nil
		case token.LSS:
			return Bool(l.I < r.I), nil
		case token.LEQ:
			return Bool(l.I <= r.I), nil
		case token.GTR:
			return Bool(l.I > r.I), nil
		case token.GEQ:
			return Bool(l.I >= r.I), nil
		}
		var out int64
		switch x.Op {
		case token.ADD:
			out = l.I + r.I
		case token.SUB:
			out = l.I - r.I
		case token.MUL:
			out = l.I * r.I
		case token.AND:
			out = l.I & r.I
		case token.OR:
			out = l.I | r.I
		case token.XOR:
			out = l.I ^ r.I
		case token.SHL:
			if r.I < 0 || r.I > 62 {
				return fail("shift count")
			}
			out = l.I << uint(r.I)
		case token.SHR:
			if r.I < 0 || r.I > 62 {
				return fail("shift count")
			}
			out = l.I >> uint(r.I)
		default:
			return fail("operator " + x.Op.String())
		}
		return evWrap(Int(out), pk.TypesInfo.TypeOf(e)), nil
	case *ast.CallExpr:
		// integer conversion
		if tv, ok := pk.TypesInfo.Types[x.Fun]; ok && tv.IsType() && len(x.Args) == 1 {
			if b := evBasicOf(tv.Type); b != nil && b.Info()&types.IsInteger != 0 {
				v, err := h.expr(pk, x.Args[0], env)
				if err != nil || v.IsBool {
					if err == nil {
						err = fmt.Errorf("%s: conversion of a boolean", ev.P.Pos(e.Pos()))
					}
					return v, err
				}
				return evWrap(v, tv.Type), nil
			}
			return ev.Expr(pk, e, env)
		}
		fun := x.Fun
		for {
			p, ok := fun.(*ast.ParenExpr)
			if !ok {
				break
			}
			fun = p.X
		}
		var callee types.Object
		switch f := fun.(type) {
		case *ast.Ident:
			callee = pk.TypesInfo.Uses[f]
		case *ast.SelectorExpr:
			callee = pk.TypesInfo.Uses[f.Sel]
		}
		if fl, ok := h.clos[callee]; ok && callee != nil {
			if x.Ellipsis.IsValid() {
				return fail("variadic call of a local function literal")
			}
			var args []Scalar
			for _, a := range x.Args {
				v, err := h.expr(pk, a, env)
				if err != nil {
					return v, err
				}
				args = append(args, v)
			}
			return h.callLit(pk, fl, args)
		}
		if fo, ok := callee.(*types.Func); ok && fo.Pkg() != nil && len(x.Args) == 2 {
			q := fo.Pkg().Path() + "." + fo.Name()
			switch q {
			case "strings.IndexByte", "bytes.IndexByte", "strings.IndexRune", "strings.ContainsRune":
				s, ok := hbConstBytes(pk, x.Args[0])
				if !ok {
					return fail(q + " on a non-constant string")
				}
				v, err := h.expr(pk, x.Args[1], env)
				if err != nil || v.IsBool {
					if err == nil {
						err = fmt.Errorf("%s: boolean argument", ev.P.Pos(e.Pos()))
					}
					return v, err
				}
				idx := int64(-1)
				switch q {
				case "strings.IndexByte", "bytes.IndexByte":
					if v.I >= 0 && v.I < 256 {
						idx = int64(strings.IndexByte(s, byte(v.I)))
					}
				default:
					if v.I < 0 || v.I > 0x10FFFF {
						return fail(q + ": rune out of range")
					}
					idx = int64(strings.IndexRune(s, rune(v.I)))
				}
				if q == "strings.ContainsRune" {
					return Bool(idx >= 0), nil
				}
				return Int(idx), nil
			}
		}
	}
	return ev.Expr(pk, e, env)
}
