package core

import (
	"fmt"
	"go/constant"
	"go/token"
	"go/types"
	"sort"
	"strings"

	"golang.org/x/tools/go/ssa"
)

// Helpers added for the webdav properties (C43..C46). They only use the
// public shapes of the existing engines.

// WdRetValue resolves the i-th result of a return instruction. Functions that
// contain a defer have their results spilled into allocs by go/ssa ("t0 = v;
// return *t0"): in that case the value stored last into the alloc in the
// return's own block is the result. When there is no such store (the synthetic
// recover block, or a named result assigned elsewhere) the answer is nil.
func WdRetValue(r *ssa.Return, i int) ssa.Value {
	if i >= len(r.Results) {
		return nil
	}
	v := r.Results[i]
	u, ok := v.(*ssa.UnOp)
	if !ok || u.Op != token.MUL {
		return v
	}
	a, ok := u.X.(*ssa.Alloc)
	if !ok {
		return v
	}
	b := r.Block()
	for k := len(b.Instrs) - 1; k >= 0; k-- {
		if st, ok := b.Instrs[k].(*ssa.Store); ok && st.Addr == a {
			return st.Val
		}
	}
	// assigned in another block (named result) or the synthetic recover block: unknown
	return nil
}

func wdErrIndex(fn *ssa.Function) int {
	res := fn.Signature.Results()
	ei := -1
	for i := 0; i < res.Len(); i++ {
		if isErrorType(res.At(i).Type()) {
			ei = i
		}
	}
	return ei
}

// WdRetOKAny is RetOK that also understands spilled results (functions with defer).
func WdRetOKAny() Sel {
	return Sel{"return <nil error>", func(p *Prog, fn *ssa.Function) []ssa.Instruction {
		ei := wdErrIndex(fn)
		var out []ssa.Instruction
		eachInstr(fn, func(in ssa.Instruction) {
			r, ok := in.(*ssa.Return)
			if !ok {
				return
			}
			if ei < 0 {
				out = append(out, in)
				return
			}
			if c, ok := WdRetValue(r, ei).(*ssa.Const); ok && c.Value == nil {
				out = append(out, in)
			}
		})
		return out
	}}
}

// WdRetIs selects returns whose i-th result (spill-resolved) renders as term.
func WdRetIs(i int, term string) Sel {
	return Sel{fmt.Sprintf("return #%d=%s", i, term), func(p *Prog, fn *ssa.Function) []ssa.Instruction {
		var out []ssa.Instruction
		eachInstr(fn, func(in ssa.Instruction) {
			if r, ok := in.(*ssa.Return); ok {
				if v := WdRetValue(r, i); v != nil && Term(v) == term {
					out = append(out, in)
				}
			}
		})
		return out
	}}
}

// WdRetNot selects returns whose i-th result (spill-resolved) is known and does
// not render as term (the synthetic recover-block return is skipped).
func WdRetNot(i int, term string) Sel {
	return Sel{fmt.Sprintf("return #%d≠%s", i, term), func(p *Prog, fn *ssa.Function) []ssa.Instruction {
		var out []ssa.Instruction
		eachInstr(fn, func(in ssa.Instruction) {
			if r, ok := in.(*ssa.Return); ok {
				if v := WdRetValue(r, i); v != nil && Term(v) != term {
					out = append(out, in)
				}
			}
		})
		return out
	}}
}

// WdMapWrites selects map updates and delete() calls whose map operand is a
// load of the named field.
func WdMapWrites(field string) Sel {
	return Sel{"map-write " + field, func(p *Prog, fn *ssa.Function) []ssa.Instruction {
		fv := p.Field(field)
		if fv == nil {
			return nil
		}
		isField := func(v ssa.Value) bool {
			u, ok := v.(*ssa.UnOp)
			return ok && u.Op == token.MUL && fieldOfAddr(u.X) == fv
		}
		var out []ssa.Instruction
		eachInstr(fn, func(in ssa.Instruction) {
			switch x := in.(type) {
			case *ssa.MapUpdate:
				if isField(x.Map) {
					out = append(out, in)
				}
			case *ssa.Call:
				if b, ok := x.Call.Value.(*ssa.Builtin); ok && b.Name() == "delete" && len(x.Call.Args) > 0 && isField(x.Call.Args[0]) {
					out = append(out, in)
				}
			}
		})
		return out
	}}
}

// MapWriters: every insertion into / deletion from the map held in field
// happens in one of the allowed outermost functions.
func (c *Ctx) WdMapWriters(field string, allowed ...string) bool {
	rule := "writers"
	construct := "map " + field + " ⊆ {" + strings.Join(allowed, ", ") + "}"
	if c.P.Field(field) == nil {
		c.Undecided(rule, construct, "field not found")
		return false
	}
	allow := map[string]bool{}
	for _, a := range allowed {
		allow[a] = true
	}
	sel := WdMapWrites(field)
	n := 0
	ok := true
	seen := map[string]bool{}
	for _, fn := range c.P.All {
		outer := FnName(Outer(fn))
		for _, in := range sel.F(c.P, fn) {
			n++
			seen[outer] = true
			if !allow[outer] {
				ok = false
				c.Fail(rule, construct, InstrPos(in), "map update/delete in "+outer+", which is not an allowed writer")
			}
		}
	}
	if n == 0 {
		c.Undecided(rule, construct, "no map write found at all")
		return false
	}
	c.Stats["write_sites"] += n
	if ok {
		var s []string
		for k := range seen {
			s = append(s, k)
		}
		sort.Strings(s)
		c.OK(rule, construct, fmt.Sprintf("%d map write(s) in {%s}", n, strings.Join(s, ", ")))
	}
	return ok
}

// GuardAny: every selected site is dominated by branch edges establishing
// every atom of at least one alternative (exact canonical atoms).
func (c *Ctx) WdGuardAny(fnName string, sel Sel, alts ...[]string) bool {
	rule := "guard-before"
	var names []string
	for _, a := range alts {
		names = append(names, stripSpaces(strings.Join(a, "&&")))
	}
	construct := fmt.Sprintf("%s: [%s] under one of {%s}", fnName, sel.Name, strings.Join(names, " | "))
	_, ins := c.sites(rule, fnName, sel)
	if ins == nil {
		return false
	}
	var parsed [][]Atom
	for _, a := range alts {
		as, good := c.atoms(rule, construct, a)
		if !good {
			return false
		}
		parsed = append(parsed, as)
	}
	for _, in := range ins {
		fs := FactsAtInstr(in)
		hit := false
		for _, as := range parsed {
			all := true
			for _, a := range as {
				if !holds(fs, a, true) {
					all = false
					break
				}
			}
			if all {
				hit = true
				break
			}
		}
		if !hit && guardedByPaths(in.Parent(), parsed, ins) {
			hit = true
		}
		if !hit {
			c.Fail(rule, construct, InstrPos(in), fmt.Sprintf("site `%s` is not dominated by any of the alternatives; facts here: {%s}", DescribeInstr(in), factStrings(fs)))
			return false
		}
	}
	c.OK(rule, construct, fmt.Sprintf("%d site(s)", len(ins)))
	return true
}

// GuardSelf: like Guard, but the atoms are computed from the site itself
// (e.g. from the rendering of the value it returns), so that no local
// variable name has to be written in the rule.
func (c *Ctx) WdGuardSelf(fnName string, sel Sel, desc string, mk func(in ssa.Instruction) []string) bool {
	rule := "guard-before"
	construct := fmt.Sprintf("%s: [%s] under %s", fnName, sel.Name, desc)
	_, ins := c.sites(rule, fnName, sel)
	if ins == nil {
		return false
	}
	for _, in := range ins {
		specs := mk(in)
		if len(specs) == 0 {
			c.Undecided(rule, construct, "no atom could be derived for site "+DescribeInstr(in))
			return false
		}
		as, good := c.atoms(rule, construct, specs)
		if !good {
			return false
		}
		fs := FactsAtInstr(in)
		for _, a := range as {
			if !holds(fs, a, true) {
				c.Fail(rule, construct, InstrPos(in), fmt.Sprintf("site `%s` is not dominated by a branch establishing %s; facts here: {%s}", DescribeInstr(in), a, factStrings(fs)))
				return false
			}
		}
	}
	c.OK(rule, construct, fmt.Sprintf("%d site(s)", len(ins)))
	return true
}

// GuardMatch: every selected site is dominated by a branch fact satisfying pred.
func (c *Ctx) WdGuardMatch(fnName string, sel Sel, desc string, pred func(a Atom) bool) bool {
	rule := "guard-before"
	construct := fmt.Sprintf("%s: [%s] under %s", fnName, sel.Name, desc)
	_, ins := c.sites(rule, fnName, sel)
	if ins == nil {
		return false
	}
	for _, in := range ins {
		fs := FactsAtInstr(in)
		hit := false
		for _, f := range fs {
			if pred(f.Atom) {
				hit = true
			}
		}
		if !hit {
			c.Fail(rule, construct, InstrPos(in), fmt.Sprintf("site `%s` is not dominated by such a branch; facts here: {%s}", DescribeInstr(in), factStrings(fs)))
			return false
		}
	}
	c.OK(rule, construct, fmt.Sprintf("%d site(s)", len(ins)))
	return true
}

// WdAtomTerms lists the terms of an atom's linear form.
func WdAtomTerms(a Atom) []string {
	var ts []string
	for t := range a.L.Coef {
		ts = append(ts, t)
	}
	sort.Strings(ts)
	return ts
}

// WdCmpBranches returns the If instructions of fn whose condition is an
// equality/inequality comparison with both operands satisfying the predicates
// (in either order).
func WdCmpBranches(fn *ssa.Function, px, py func(ssa.Value) bool) []*ssa.If {
	var out []*ssa.If
	eachInstr(fn, func(in ssa.Instruction) {
		ifi, ok := in.(*ssa.If)
		if !ok {
			return
		}
		cond := ifi.Cond
		for {
			u, ok := cond.(*ssa.UnOp)
			if !ok || u.Op != token.NOT {
				break
			}
			cond = u.X
		}
		bo, ok := cond.(*ssa.BinOp)
		if !ok || bo.Op != token.EQL && bo.Op != token.NEQ {
			return
		}
		if px(bo.X) && py(bo.Y) || px(bo.Y) && py(bo.X) {
			out = append(out, ifi)
		}
	})
	return out
}

// WdEqEdge returns, for an If on == / !=, the successor taken when the operands
// are equal and the one taken when they differ.
func WdEqEdge(ifi *ssa.If) (eq, ne *ssa.BasicBlock) {
	neg := false
	cond := ifi.Cond
	for {
		u, ok := cond.(*ssa.UnOp)
		if !ok || u.Op != token.NOT {
			break
		}
		cond = u.X
		neg = !neg
	}
	bo := cond.(*ssa.BinOp)
	if bo.Op == token.NEQ {
		neg = !neg
	}
	b := ifi.Block()
	if neg {
		return b.Succs[1], b.Succs[0]
	}
	return b.Succs[0], b.Succs[1]
}

// WdBlockReaches reports whether a site is reachable from the start of block b.
func WdBlockReaches(b *ssa.BasicBlock, site ssa.Instruction) bool {
	_, r := canReach(ipos{b, 0}, true, map[ssa.Instruction]bool{site: true}, nil)
	return r
}

// WdInstrDominates reports whether a strictly precedes b on every path.
func WdInstrDominates(a, b ssa.Instruction) bool {
	pa, pb := posOf(a), posOf(b)
	return pa.b == pb.b && pa.i < pb.i || pa.b != pb.b && pa.b.Dominates(pb.b)
}

// WdDerivesOnlyThrough reports whether every backward path from v to a value
// satisfying src passes through a value satisfying via (i.e. with the via
// values cut, src is no longer reachable), and v does depend on via.
func WdDerivesOnlyThrough(v ssa.Value, src, via func(ssa.Value) bool) (dependsOnVia, leaks bool) {
	Backward(v, func(x ssa.Value) bool {
		if via(x) {
			dependsOnVia = true
			return false
		}
		if src(x) {
			leaks = true
			return false
		}
		return true
	})
	return
}

// WdIsParam is a predicate: the value is the idx-th parameter (receiver
// excluded) of fn, or a load of its spill slot.
func WdIsParam(fn *ssa.Function, idx int) func(ssa.Value) bool {
	return func(v ssa.Value) bool {
		if p, ok := v.(*ssa.Parameter); ok && p.Parent() == fn {
			return paramName(p) == fmt.Sprintf("$%d", idx)
		}
		return false
	}
}

// WdIsReceiver is a predicate: the value is fn's receiver parameter.
func WdIsReceiver(fn *ssa.Function) func(ssa.Value) bool {
	return func(v ssa.Value) bool {
		if p, ok := v.(*ssa.Parameter); ok && p.Parent() == fn {
			return paramName(p) == "$r"
		}
		return false
	}
}

// WdCallsInPkg selects ordinary calls to any function of the given package path
// (e.g. "os").
func WdCallsInPkg(pkgPath string) Sel {
	return Sel{"call " + pkgPath + ".*", func(p *Prog, fn *ssa.Function) []ssa.Instruction {
		var out []ssa.Instruction
		eachInstr(fn, func(in ssa.Instruction) {
			ci, ok := in.(ssa.CallInstruction)
			if !ok {
				return
			}
			if f, ok := ci.Common().Value.(*ssa.Function); ok && f.Pkg != nil && f.Pkg.Pkg.Path() == pkgPath && f.Signature.Recv() == nil {
				out = append(out, in)
			}
		})
		return out
	}}
}

// WdIsStringType reports whether v has a string type.
func WdIsStringType(v ssa.Value) bool {
	b, ok := v.Type().Underlying().(*types.Basic)
	return ok && b.Info()&types.IsString != 0
}

// Between: every path from a `from` site (inclusive) to a `to` site passes a `via` site.
func (c *Ctx) WdBetween(fnName string, from, to, via Sel) bool {
	rule := "pass-through"
	construct := fmt.Sprintf("%s: from [%s] to [%s] only through [%s]", fnName, from.Name, to.Name, via.Name)
	fn, ins := c.sites(rule, fnName, from)
	if ins == nil {
		return false
	}
	targets := instrSet(to.F(c.P, fn))
	barriers := instrSet(via.F(c.P, fn))
	if len(targets) == 0 || len(barriers) == 0 {
		c.Undecided(rule, construct, "no target or no via site in this function")
		return false
	}
	for _, in := range ins {
		if t, reach := canReach(posOf(in), true, targets, barriers); reach {
			c.Fail(rule, construct, InstrPos(t), fmt.Sprintf("`%s` is reachable from `%s` without [%s]", DescribeInstr(t), DescribeInstr(in), via.Name))
			return false
		}
	}
	c.OK(rule, construct, fmt.Sprintf("%d start site(s), %d target(s), %d via site(s)", len(ins), len(targets), len(barriers)))
	return true
}

// WdFreeVarStores selects stores into captured variables of a closure.
func WdFreeVarStores() Sel {
	return Sel{"store to captured variable", func(p *Prog, fn *ssa.Function) []ssa.Instruction {
		var out []ssa.Instruction
		eachInstr(fn, func(in ssa.Instruction) {
			if st, ok := in.(*ssa.Store); ok {
				if _, isFV := st.Addr.(*ssa.FreeVar); isFV {
					out = append(out, in)
				}
			}
		})
		return out
	}}
}

// WdInstrs wraps a fixed instruction list as a selector.
func WdInstrs(name string, ins ...ssa.Instruction) Sel {
	return Sel{name, func(*Prog, *ssa.Function) []ssa.Instruction { return ins }}
}

// ImportedConst returns the integer value of constant pkgPath.name as seen by
// the package with the given short path (e.g. "webdav", "os", "O_CREATE").
func (p *Prog) WdImportedConst(fromShort, pkgPath, name string) (int64, bool) {
	pk := p.ByPath[fromShort]
	if pk == nil {
		return 0, false
	}
	for _, imp := range pk.Types.Imports() {
		if imp.Path() != pkgPath {
			continue
		}
		k, ok := imp.Scope().Lookup(name).(*types.Const)
		if !ok {
			return 0, false
		}
		return constant.Int64Val(constant.ToInt(k.Val()))
	}
	return 0, false
}

// RetAll: the idx-th result (spill-resolved) of every return satisfies pred.
func (c *Ctx) WdRetAll(fnName string, idx int, desc string, pred func(ssa.Value) bool) bool {
	rule, construct := "derives-from", fnName+": every returned value is "+desc
	fn := c.MustFn(fnName)
	if fn == nil {
		return false
	}
	n := 0
	for _, in := range Returns().F(c.P, fn) {
		v := WdRetValue(in.(*ssa.Return), idx)
		if v == nil {
			continue
		}
		n++
		if !pred(v) {
			c.Fail(rule, construct, InstrPos(in), "`"+DescribeInstr(in)+"` returns something else")
			return false
		}
	}
	if n == 0 {
		c.Undecided(rule, construct, "no return")
		return false
	}
	c.OK(rule, construct, fmt.Sprintf("%d return(s)", n))
	return true
}

// WdEdgeFacts returns the facts that hold on the CFG edge from pred to succ:
// the facts at pred plus the condition of pred's own If on that edge.
func WdEdgeFacts(pred, succ *ssa.BasicBlock) []Fact {
	fs := append([]Fact{}, FactsAt(pred)...)
	if len(pred.Instrs) > 0 {
		if ifi, ok := pred.Instrs[len(pred.Instrs)-1].(*ssa.If); ok && pred.Succs[0] != pred.Succs[1] {
			a := CondAtom(ifi.Cond)
			if pred.Succs[1] == succ {
				a = a.Negate()
			}
			fs = append(fs, Fact{a, ifi})
		}
	}
	return fs
}

// HoldsExact reports whether the atom written as spec is among the facts.
func (p *Prog) WdHoldsExact(fs []Fact, spec string) bool {
	a, err := p.ParseAtom(spec)
	if err != nil {
		return false
	}
	return holds(fs, a, true)
}

// WdCmpOperands returns the operands of the ==/!= comparison an If (as returned
// by WdCmpBranches) branches on.
func WdCmpOperands(ifi *ssa.If) (x, y ssa.Value) {
	cond := ifi.Cond
	for {
		u, ok := cond.(*ssa.UnOp)
		if !ok || u.Op != token.NOT {
			break
		}
		cond = u.X
	}
	bo := cond.(*ssa.BinOp)
	return bo.X, bo.Y
}
