package core

import (
	"fmt"
	"go/ast"
	"go/constant"
	"go/token"
	"go/types"
	"sort"
	"strings"

	"golang.org/x/tools/go/packages"
)

// ---------------------------------------------------------------------------
// E6/E7 helpers: constants, composite literals, switch coverage.

// ConstInt returns the value of the package-level integer constant "pkg.Name".
func (p *Prog) ConstInt(q string) (int64, bool) {
	c, ok := p.Object(q).(*types.Const)
	if !ok {
		return 0, false
	}
	return constant.Int64Val(constant.ToInt(c.Val()))
}

// ConstsOfType lists the package-level constants whose type is the named type "pkg.T".
func (p *Prog) ConstsOfType(q string) map[string]constant.Value {
	out := map[string]constant.Value{}
	obj := p.Object(q)
	if obj == nil {
		return out
	}
	scope := obj.Pkg().Scope()
	for _, n := range scope.Names() {
		if c, ok := scope.Lookup(n).(*types.Const); ok && types.Identical(c.Type(), obj.Type()) {
			out[n] = c.Val()
		}
	}
	return out
}

// VarDecl finds the initialiser expression of the package-level variable "pkg.Name".
func (p *Prog) VarDecl(q string) (ast.Expr, *packages.Package) {
	i := strings.LastIndex(q, ".")
	if i < 0 {
		return nil, nil
	}
	pk := p.ByPath[q[:i]]
	if pk == nil {
		return nil, nil
	}
	name := q[i+1:]
	for _, f := range pk.Syntax {
		for _, d := range f.Decls {
			gd, ok := d.(*ast.GenDecl)
			if !ok || gd.Tok != token.VAR {
				continue
			}
			for _, s := range gd.Specs {
				vs := s.(*ast.ValueSpec)
				for k, id := range vs.Names {
					if id.Name == name && k < len(vs.Values) {
						return vs.Values[k], pk
					}
				}
			}
		}
	}
	return nil, pk
}

// ConstOf evaluates e as a constant using the type checker's result.
func ConstOf(pk *packages.Package, e ast.Expr) constant.Value {
	if tv, ok := pk.TypesInfo.Types[e]; ok {
		return tv.Value
	}
	return nil
}

// IntOf evaluates e as an int64 constant.
func IntOf(pk *packages.Package, e ast.Expr) (int64, bool) {
	v := ConstOf(pk, e)
	if v == nil {
		return 0, false
	}
	return constant.Int64Val(constant.ToInt(v))
}

// StrOf evaluates e as a string constant.
func StrOf(pk *packages.Package, e ast.Expr) (string, bool) {
	v := ConstOf(pk, e)
	if v == nil || v.Kind() != constant.String {
		return "", false
	}
	return constant.StringVal(v), true
}

// Elts returns the elements of a composite literal expression (through & and parens).
func Elts(e ast.Expr) []ast.Expr {
	for {
		switch x := e.(type) {
		case *ast.ParenExpr:
			e = x.X
			continue
		case *ast.UnaryExpr:
			e = x.X
			continue
		case *ast.CompositeLit:
			return x.Elts
		}
		return nil
	}
}

// KV splits a key:value element.
func KV(e ast.Expr) (k, v ast.Expr) {
	if kv, ok := e.(*ast.KeyValueExpr); ok {
		return kv.Key, kv.Value
	}
	return nil, e
}

// SwitchCases collects, for every expression switch in the function's syntax
// whose tag has the named type, the constant names used in case clauses.
// It returns the union and whether any such switch exists.
func (p *Prog) SwitchCases(fnName string, typeQ string) (map[string]bool, bool, bool) {
	fn := p.Fn(fnName)
	if fn == nil || fn.Syntax() == nil {
		return nil, false, false
	}
	tobj := p.Object(typeQ)
	if tobj == nil {
		return nil, false, false
	}
	pk := p.PkgOfFn(fn)
	out := map[string]bool{}
	found := false
	hasDefault := false
	ast.Inspect(fn.Syntax(), func(n ast.Node) bool {
		sw, ok := n.(*ast.SwitchStmt)
		if !ok || sw.Tag == nil {
			return true
		}
		tv, ok := pk.TypesInfo.Types[sw.Tag]
		if !ok || !types.Identical(tv.Type, tobj.Type()) {
			return true
		}
		found = true
		for _, cl := range sw.Body.List {
			cc := cl.(*ast.CaseClause)
			if cc.List == nil {
				hasDefault = true
			}
			for _, e := range cc.List {
				var id *ast.Ident
				switch x := e.(type) {
				case *ast.Ident:
					id = x
				case *ast.SelectorExpr:
					id = x.Sel
				}
				if id != nil {
					if c, ok := pk.TypesInfo.Uses[id].(*types.Const); ok {
						out[c.Name()] = true
					}
				}
			}
		}
		return true
	})
	return out, found, hasDefault
}

// SwitchCovers: the switches on typeQ in fnName have a case for every constant
// of that type except the listed ones.
func (c *Ctx) SwitchCovers(fnName, typeQ string, except ...string) bool {
	rule := "switch-covers"
	construct := fmt.Sprintf("%s: switch on %s covers all constants", fnName, typeQ)
	if c.MustFn(fnName) == nil {
		return false
	}
	cases, found, _ := c.P.SwitchCases(fnName, typeQ)
	if !found {
		c.Undecided(rule, construct, "no switch on that type found")
		return false
	}
	ex := map[string]bool{}
	for _, e := range except {
		ex[e] = true
	}
	var missing []string
	all := c.P.ConstsOfType(typeQ)
	for name := range all {
		if !cases[name] && !ex[name] {
			missing = append(missing, name)
		}
	}
	sort.Strings(missing)
	if len(all) == 0 {
		c.Undecided(rule, construct, "no constants of that type")
		return false
	}
	if len(missing) > 0 {
		c.Fail(rule, construct, c.P.Fn(fnName).Pos(), "no case for: "+strings.Join(missing, ", "))
		return false
	}
	c.OK(rule, construct, fmt.Sprintf("%d constants, %d cases, %d excepted", len(all), len(cases), len(ex)))
	return true
}

// TypeSwitchCases collects the concrete types named in type-switch cases of fnName.
func (p *Prog) TypeSwitchCases(fnName string) map[string]bool {
	fn := p.Fn(fnName)
	out := map[string]bool{}
	if fn == nil || fn.Syntax() == nil {
		return out
	}
	pk := p.PkgOfFn(fn)
	ast.Inspect(fn.Syntax(), func(n ast.Node) bool {
		ts, ok := n.(*ast.TypeSwitchStmt)
		if !ok {
			return true
		}
		for _, cl := range ts.Body.List {
			for _, e := range cl.(*ast.CaseClause).List {
				if tv, ok := pk.TypesInfo.Types[e]; ok && tv.Type != nil {
					out[Short(types.TypeString(tv.Type, nil))] = true
				}
			}
		}
		return true
	})
	return out
}

// Implementers lists the named types of package pkgShort (T or *T rendered
// as in TypeSwitchCases) that implement interface "pkg.I".
func (p *Prog) Implementers(ifaceQ string) []string {
	obj := p.Object(ifaceQ)
	if obj == nil {
		return nil
	}
	iface, ok := obj.Type().Underlying().(*types.Interface)
	if !ok {
		return nil
	}
	var out []string
	scope := obj.Pkg().Scope()
	for _, n := range scope.Names() {
		tn, ok := scope.Lookup(n).(*types.TypeName)
		if !ok || tn == obj {
			continue
		}
		if _, isIface := tn.Type().Underlying().(*types.Interface); isIface {
			continue
		}
		if types.Implements(tn.Type(), iface) {
			out = append(out, Short(types.TypeString(tn.Type(), nil)))
		} else if types.Implements(types.NewPointer(tn.Type()), iface) {
			out = append(out, "*"+Short(types.TypeString(tn.Type(), nil)))
		}
	}
	sort.Strings(out)
	return out
}
