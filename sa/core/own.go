package core

import (
	"fmt"
	"go/token"
	"go/types"
	"sort"
	"strings"

	"golang.org/x/tools/go/ssa"
)

// WriteSite is one place where a field may be modified.
type WriteSite struct {
	Fn   string // outermost source function
	Kind string // "store", "addr-escape", "struct-overwrite"
	In   ssa.Instruction
}

// addrOnlyLoaded reports whether every use of the address v is a load, a
// store *to* it (reported separately), or a projection to a sub-location.
func addrEscapes(v ssa.Value) (ssa.Instruction, bool) {
	refs := v.Referrers()
	if refs == nil {
		return nil, false
	}
	for _, r := range *refs {
		switch x := r.(type) {
		case *ssa.UnOp:
			if x.Op == token.MUL {
				continue
			}
		case *ssa.Store:
			if x.Addr == v {
				continue
			}
		case *ssa.FieldAddr, *ssa.IndexAddr:
			continue // writes to sub-locations are reported for those
		case *ssa.DebugRef:
			continue
		}
		return r, true
	}
	return nil, false
}

// FieldWriters lists every site that may modify the named field.
func (p *Prog) FieldWriters(field string) ([]WriteSite, error) {
	fv := p.Field(field)
	if fv == nil {
		return nil, fmt.Errorf("field %s not found", field)
	}
	i := strings.LastIndex(field, ".")
	owner := p.Object(field[:i]).Type()
	var out []WriteSite
	for _, fn := range p.All {
		outer := FnName(Outer(fn))
		eachInstr(fn, func(in ssa.Instruction) {
			switch x := in.(type) {
			case *ssa.Store:
				if fieldOfAddr(x.Addr) == fv {
					out = append(out, WriteSite{outer, "store", in})
					return
				}
				// whole-struct overwrite: *p = T{...}
				if types.Identical(x.Val.Type(), owner) {
					if _, isAlloc := x.Addr.(*ssa.Alloc); !isAlloc {
						out = append(out, WriteSite{outer, "struct-overwrite", in})
					}
				}
			case *ssa.FieldAddr:
				if fieldOfAddr(x) == fv {
					if _, esc := addrEscapes(x); esc {
						out = append(out, WriteSite{outer, "addr-escape", in})
					}
				}
			}
		})
	}
	return out, nil
}

// Writers: every store to field happens in one of the allowed functions
// (outermost source function names). Each allowed function must still write
// the field (otherwise the table is stale → failure).
func (c *Ctx) Writers(field string, allowed ...string) bool {
	return c.writers(field, false, allowed)
}

// WritersNoEscape is Writers but ignores "addr-escape" sites (for fields
// whose address is routinely passed to their own methods).
func (c *Ctx) WritersNoEscape(field string, allowed ...string) bool {
	return c.writers(field, true, allowed)
}

func (c *Ctx) writers(field string, ignoreEscape bool, allowed []string) bool {
	rule := "writers"
	construct := field + " ⊆ {" + strings.Join(allowed, ", ") + "}"
	ws, err := c.P.FieldWriters(field)
	if err != nil {
		c.Undecided(rule, construct, err.Error())
		return false
	}
	allow := map[string]bool{}
	for _, a := range allowed {
		allow[a] = true
	}
	seen := map[string]bool{}
	ok := true
	n := 0
	for _, w := range ws {
		if ignoreEscape && w.Kind == "addr-escape" {
			continue
		}
		n++
		seen[w.Fn] = true
		if !allow[w.Fn] {
			ok = false
			c.Fail(rule, construct, InstrPos(w.In), fmt.Sprintf("%s of %s in %s, which is not an allowed writer", w.Kind, field, w.Fn))
		}
	}
	c.Stats["write_sites"] += n
	if n == 0 {
		c.Undecided(rule, construct, "no write site found at all")
		return false
	}
	if ok {
		var s []string
		for k := range seen {
			s = append(s, k)
		}
		sort.Strings(s)
		c.OK(rule, construct, fmt.Sprintf("%d write site(s) in {%s}", n, strings.Join(s, ", ")))
	}
	return ok
}

// CallSite is a reference to a function.
type CallSite struct {
	Fn   string // outermost caller
	Kind string // "call", "go", "defer", "value"
	In   ssa.Instruction
}

// FuncRefs lists every static reference to the named function: calls, go,
// defer, and uses as a value (method value, func argument).
func (p *Prog) FuncRefs(target *ssa.Function) []CallSite {
	var out []CallSite
	for _, fn := range p.All {
		outer := FnName(Outer(fn))
		eachInstr(fn, func(in ssa.Instruction) {
			if ci, ok := in.(ssa.CallInstruction); ok {
				cc := ci.Common()
				if cc.StaticCallee() == target {
					kind := "call"
					switch in.(type) {
					case *ssa.Go:
						kind = "go"
					case *ssa.Defer:
						kind = "defer"
					}
					out = append(out, CallSite{outer, kind, in})
				}
				// interface dispatch that may reach target
				if cc.IsInvoke() && target.Signature.Recv() != nil && cc.Method.Name() == target.Name() {
					if types.Implements(target.Signature.Recv().Type(), cc.Value.Type().Underlying().(*types.Interface)) {
						out = append(out, CallSite{outer, "invoke", in})
					}
				}
				for _, a := range cc.Args {
					if refersTo(a, target) {
						out = append(out, CallSite{outer, "value", in})
					}
				}
				return
			}
			for _, op := range in.Operands(nil) {
				if *op != nil && refersTo(*op, target) {
					out = append(out, CallSite{outer, "value", in})
				}
			}
		})
	}
	return out
}

func refersTo(v ssa.Value, target *ssa.Function) bool {
	switch x := v.(type) {
	case *ssa.Function:
		if x == target {
			return true
		}
		// bound-method / thunk wrappers
		if x.Synthetic != "" && x.Object() != nil && target.Object() != nil && x.Object() == target.Object() {
			return true
		}
	case *ssa.MakeClosure:
		if f, ok := x.Fn.(*ssa.Function); ok {
			if f == target {
				return true
			}
			if f.Synthetic != "" && f.Object() != nil && target.Object() != nil && f.Object() == target.Object() {
				return true
			}
		}
	}
	return false
}

// Callers: every reference to fnName is in one of the allowed functions.
func (c *Ctx) Callers(fnName string, allowed ...string) bool {
	rule := "callers"
	construct := fnName + " ⊆ {" + strings.Join(allowed, ", ") + "}"
	fn := c.MustFn(fnName)
	if fn == nil {
		return false
	}
	refs := c.P.FuncRefs(fn)
	allow := map[string]bool{}
	for _, a := range allowed {
		allow[a] = true
	}
	ok := true
	seen := map[string]bool{}
	for _, r := range refs {
		seen[r.Fn] = true
		if !allow[r.Fn] {
			ok = false
			c.Fail(rule, construct, InstrPos(r.In), fmt.Sprintf("%s reference to %s in %s, which is not an allowed caller", r.Kind, fnName, r.Fn))
		}
	}
	c.Stats["call_sites"] += len(refs)
	if len(refs) == 0 {
		c.Undecided(rule, construct, "no reference found at all")
		return false
	}
	if ok {
		var s []string
		for k := range seen {
			s = append(s, k)
		}
		sort.Strings(s)
		c.OK(rule, construct, fmt.Sprintf("%d reference(s) in {%s}", len(refs), strings.Join(s, ", ")))
	}
	return ok
}

// CallersOfAny lists the outer functions that contain a call matching names
// (including interface/field calls that Calls() can express).
func (c *Ctx) CallersMatching(names ...string) map[string][]ssa.Instruction {
	out := map[string][]ssa.Instruction{}
	for _, fn := range c.P.All {
		outer := FnName(Outer(fn))
		eachInstr(fn, func(in ssa.Instruction) {
			if ci, ok := in.(ssa.CallInstruction); ok && matchCallee(ci.Common(), names) {
				out[outer] = append(out[outer], in)
			}
		})
	}
	return out
}

// OnlyCalledIn: calls matching names (any form) occur only in the allowed outer functions.
func (c *Ctx) OnlyCalledIn(desc string, names []string, allowed ...string) bool {
	rule := "callers"
	construct := desc + " ⊆ {" + strings.Join(allowed, ", ") + "}"
	m := c.CallersMatching(names...)
	allow := map[string]bool{}
	for _, a := range allowed {
		allow[a] = true
	}
	ok := true
	n := 0
	for fn, ins := range m {
		n += len(ins)
		if !allow[fn] {
			ok = false
			c.Fail(rule, construct, InstrPos(ins[0]), fmt.Sprintf("call in %s, which is not an allowed caller", fn))
		}
	}
	if n == 0 {
		c.Undecided(rule, construct, "no call found at all")
		return false
	}
	c.Stats["call_sites"] += n
	if ok {
		c.OK(rule, construct, fmt.Sprintf("%d call(s)", n))
	}
	return ok
}

// CallArgs: across the program every call of callee passes, as argument idx
// (receiver counts), a value whose rendering is in allowed.
func (c *Ctx) CallArgs(callee string, idx int, allowed ...string) bool {
	rule := "call-args"
	construct := fmt.Sprintf("%s arg%d ∈ {%s}", callee, idx, strings.Join(allowed, ", "))
	if c.MustFn(callee) == nil {
		return false
	}
	allow := map[string]bool{}
	for _, a := range allowed {
		allow[a] = true
	}
	n := 0
	ok := true
	for fn, ins := range c.CallersMatching(callee) {
		for _, in := range ins {
			n++
			args := BaselineArgs(in.(ssa.CallInstruction).Common())
			if idx >= len(args) {
				continue
			}
			if t := Term(args[idx]); !allow[t] {
				ok = false
				c.Fail(rule, construct, InstrPos(in), fmt.Sprintf("call in %s passes %s", fn, t))
			}
		}
	}
	if n == 0 {
		c.Undecided(rule, construct, "no call found")
		return false
	}
	c.Stats["call_sites"] += n
	if ok {
		c.OK(rule, construct, fmt.Sprintf("%d call(s)", n))
	}
	return ok
}
