package core

import (
	"fmt"
	"go/constant"
	"go/token"
	"go/types"

	"golang.org/x/tools/go/ssa"
)

// Value-based forms of the "buffer clamped to a limit" rules (prefix h3q / H3q).
//
// `if len(p) > lim { p = p[:lim] }`, `p = p[:min(len(p), lim)]` and any other way of
// computing the same clamp hand a buffer to the reader that is (a reslice of) the
// caller's buffer and not longer than lim. The two rules below state exactly that,
// over values and branch facts, instead of naming the rendered term of the merge.

func h3qStrip(v ssa.Value) ssa.Value {
	for {
		if ct, ok := v.(*ssa.ChangeType); ok {
			v = ct.X
			continue
		}
		return v
	}
}

// h3qLinLE: v <= bound follows from the min()/guarded-merge prover or from a fact
// over the linear forms (v - bound + k <= 0 with k >= 0).
func h3qLinLE(p *Prog, v ssa.Value, bound string, fs []Fact) bool {
	if provedLE(v, bound, fs, 0, map[ssa.Value]bool{}) {
		return true
	}
	ba, err := p.ParseAtom(bound + " <= 0")
	if err != nil {
		return false
	}
	want := LEZero(Linearize(v).Sub(ba.L))
	if len(want.L.Coef) == 0 {
		return want.L.K <= 0
	}
	return holds(fs, want, false)
}

// h3qLenLE: v is the buffer `param` or a reslice of it, and len(v) <= bound on every
// way v is computed. fs are the facts of the point (or merge edge) where v is used.
func h3qLenLE(p *Prog, v ssa.Value, param, bound string, fs []Fact, depth int, seen map[ssa.Value]bool) (bool, string) {
	v = h3qStrip(v)
	if depth > 8 || seen[v] {
		return false, "merge too deep or cyclic at `" + Term(v) + "`"
	}
	seen[v] = true
	defer delete(seen, v)
	switch x := v.(type) {
	case *ssa.Phi:
		for i, e := range x.Edges {
			if i >= len(x.Block().Preds) {
				return false, "malformed merge"
			}
			ef := edgeFacts_h2server(x.Block().Preds[i], x.Block())
			if ok, why := h3qLenLE(p, e, param, bound, ef, depth+1, seen); !ok {
				return false, why
			}
		}
		return len(x.Edges) > 0, "empty merge"
	case *ssa.Slice:
		if x.Max != nil {
			return false, "three-index slice `" + Term(x) + "` is not understood"
		}
		here := append(append([]Fact{}, FactsAtInstr(x)...), fs...)
		if x.High == nil {
			// x[l:] is not longer than x
			return h3qLenLE(p, x.X, param, bound, here, depth+1, seen)
		}
		// x[l:h] has length h-l <= h (l >= 0 or the slice expression panics)
		if !h3qDerives(x.X, param, 0) {
			return false, "`" + Term(x) + "` is not a slice of " + param
		}
		if !h3qLinLE(p, x.High, bound, here) {
			return false, fmt.Sprintf("upper index of `%s` is not provably <= %s; facts: {%s}", Term(x), bound, factStrings(here))
		}
		return true, ""
	}
	if Term(v) != param {
		return false, "`" + Term(v) + "` is neither " + param + " nor a slice of it"
	}
	want, err := p.ParseAtom("len(" + param + ") <= " + bound)
	if err != nil {
		return false, "bad bound " + bound
	}
	if !holds(fs, want, false) {
		return false, fmt.Sprintf("the unsliced %s arrives without %s being established; facts on that path: {%s}", param, want, factStrings(fs))
	}
	return true, ""
}

// h3qDerives: v is param or obtained from it by slicing / merging.
func h3qDerives(v ssa.Value, param string, depth int) bool {
	v = h3qStrip(v)
	if depth > 8 {
		return false
	}
	if Term(v) == param {
		return true
	}
	switch x := v.(type) {
	case *ssa.Slice:
		return h3qDerives(x.X, param, depth+1)
	case *ssa.Phi:
		for _, e := range x.Edges {
			if !h3qDerives(e, param, depth+1) {
				return false
			}
		}
		return len(x.Edges) > 0
	}
	return false
}

// H3qBufClamped: argument idx of every selected call is the buffer `param` itself or a
// reslice of it, and its length is provably <= bound: where the unsliced buffer arrives
// the branch facts give len(param) <= bound, and a slice param[:h] has h <= bound (h is
// bound, min(.., bound, ..), or bounded through a dominating comparison / guarded merge).
func (c *Ctx) H3qBufClamped(fnName string, sel Sel, idx int, param, bound string) bool {
	rule := "buffer-clamped"
	construct := fmt.Sprintf("%s: arg%d of [%s] is (a slice of) %s with length <= %s", fnName, idx, sel.Name, param, bound)
	_, ins := c.sites(rule, fnName, sel)
	if ins == nil {
		return false
	}
	for _, in := range ins {
		ci, ok := in.(ssa.CallInstruction)
		if !ok || idx >= len(BaselineArgs(ci.Common())) {
			c.Undecided(rule, construct, "site is not a call with that many arguments")
			return false
		}
		a := BaselineArgs(ci.Common())[idx]
		if ok, why := h3qLenLE(c.P, a, param, bound, FactsAtInstr(in), 0, map[ssa.Value]bool{}); !ok {
			c.Fail(rule, construct, InstrPos(in), fmt.Sprintf("argument `%s`: %s", Term(a), why))
			return false
		}
	}
	c.OK(rule, construct, fmt.Sprintf("%d site(s)", len(ins)))
	return true
}

// H3qSlicesInBounds: every slice expression over base (rendered term) in the function has the
// form base[:h] or base[l:] / base[:] with h provably <= len(base): h is min(.., len(base), ..),
// or a dominating comparison establishes h <= len(base) (the `if len(p) > lim { p = p[:lim] }`
// form establishes lim < len(p)). Element accesses base[i] and other slice forms are not
// recognised and fail. At least one slice site is required.
func (c *Ctx) H3qSlicesInBounds(fnName, base string) bool {
	rule := "slice-in-bounds"
	construct := fmt.Sprintf("%s: every slice of %s has its upper index <= len(%s)", fnName, base, base)
	_, ins := c.sites(rule, fnName, Indexing(base))
	if ins == nil {
		return false
	}
	for _, in := range ins {
		sl, ok := in.(*ssa.Slice)
		if !ok || sl.Max != nil {
			c.Fail(rule, construct, InstrPos(in), "`"+DescribeInstr(in)+"` is not a two-index slice expression")
			return false
		}
		if sl.High == nil {
			if sl.Low != nil {
				c.Fail(rule, construct, InstrPos(in), "`"+DescribeInstr(in)+"`: lower index without an upper index is not understood")
				return false
			}
			continue
		}
		if sl.Low != nil {
			if k, isK := sl.Low.(*ssa.Const); !isK || k.Value == nil || k.Int64() != 0 {
				c.Fail(rule, construct, InstrPos(in), "`"+DescribeInstr(in)+"`: non-zero lower index is not understood")
				return false
			}
		}
		fs := FactsAtInstr(in)
		if !h3qLinLE(c.P, sl.High, "len("+base+")", fs) {
			c.Fail(rule, construct, InstrPos(in), fmt.Sprintf("upper index of `%s` is not provably <= len(%s); facts here: {%s}", DescribeInstr(in), base, factStrings(fs)))
			return false
		}
	}
	c.OK(rule, construct, fmt.Sprintf("%d site(s)", len(ins)))
	return true
}

// ---------------------------------------------------------------------------
// Constant-folding path enumeration of a small pure function.
//
// H3qConstPaths walks every path of fn from the entry to a return, folding what is
// constant on that path: integer/boolean constants, arithmetic and comparisons over
// them, phis (by the edge the block was entered through) and the cells of local,
// non-escaping integer arrays (a lookup table written in the function). A branch whose
// condition folds to a constant is followed one way; any other branch forks, and when
// its condition is a comparison of linear expressions over parameters and path constants
// the atom (with the constants substituted) is recorded as a fact of the path. Edges that
// contradict a recorded fact are pruned. So
//
//	switch { case d < 0x80: return 1; case d < 0x8000: return 2; ... }
//
// and a scan `for i, lim := range [...]T{0x80, 0x8000, ...} { if d < lim { return i + 1 } }`
// produce the same list of (result, facts) pairs: the loop over the constant-length table
// is unrolled by the walk. Conditions that are not understood fork without a fact (more
// paths, never fewer); unbounded walks end with an error.

// H3qPath is one entry-to-return path.
type H3qPath struct {
	Ret   *ssa.Return
	Vals  []int64 // folded results
	Known []bool  // Vals[i] is meaningful
	Facts []Atom
}

type h3qVal struct {
	kind  int // 0 unknown, 1 int, 2 bool, 3 array value, 4 pointer into a tracked local
	i     int64
	b     bool
	cells map[int64]int64
	al    *ssa.Alloc
	idx   int64 // -1: the whole object
	idxOK bool
}

type h3qState struct {
	env   map[ssa.Value]h3qVal
	mem   map[*ssa.Alloc]map[int64]int64 // known cells of tracked locals
	facts []Atom
	steps int
}

func (s *h3qState) fork() *h3qState {
	n := &h3qState{env: make(map[ssa.Value]h3qVal, len(s.env)), mem: map[*ssa.Alloc]map[int64]int64{}, steps: s.steps}
	for k, v := range s.env {
		n.env[k] = v
	}
	for a, cells := range s.mem {
		c := make(map[int64]int64, len(cells))
		for k, v := range cells {
			c[k] = v
		}
		n.mem[a] = c
	}
	n.facts = append([]Atom{}, s.facts...)
	return n
}

// h3qTracked: al is a local array of integers that is only indexed, loaded and stored into.
func h3qTracked(al *ssa.Alloc) (int64, bool) {
	pt, ok := al.Type().Underlying().(*types.Pointer)
	if !ok {
		return 0, false
	}
	at, ok := pt.Elem().Underlying().(*types.Array)
	if !ok || !isIntegral(at.Elem()) {
		return 0, false
	}
	refs := al.Referrers()
	if refs == nil {
		return 0, false
	}
	okUse := func(user ssa.Instruction, addr ssa.Value) bool {
		switch u := user.(type) {
		case *ssa.Store:
			return u.Addr == addr && u.Val != addr
		case *ssa.UnOp:
			return u.Op == token.MUL
		case *ssa.DebugRef:
			return true
		}
		return false
	}
	for _, r := range *refs {
		if ia, isIA := r.(*ssa.IndexAddr); isIA && ia.X == ssa.Value(al) {
			if ia.Referrers() == nil {
				return 0, false
			}
			for _, r2 := range *ia.Referrers() {
				if !okUse(r2, ia) {
					return 0, false
				}
			}
			continue
		}
		if !okUse(r, al) {
			return 0, false
		}
	}
	return at.Len(), true
}

func h3qIntRange(t types.Type) (lo, hi int64, ok bool) {
	b, isB := t.Underlying().(*types.Basic)
	if !isB || b.Info()&types.IsInteger == 0 {
		return 0, 0, false
	}
	switch b.Kind() {
	case types.Int8:
		return -1 << 7, 1<<7 - 1, true
	case types.Int16:
		return -1 << 15, 1<<15 - 1, true
	case types.Int32:
		return -1 << 31, 1<<31 - 1, true
	case types.Int, types.Int64:
		return -1 << 63, 1<<63 - 1, true
	case types.Uint8:
		return 0, 1<<8 - 1, true
	case types.Uint16:
		return 0, 1<<16 - 1, true
	case types.Uint32:
		return 0, 1<<32 - 1, true
	case types.Uint, types.Uint64, types.Uintptr:
		return 0, 1<<63 - 1, true // larger values are not represented: treated as unknown
	}
	return 0, 0, false
}

func h3qFits(v int64, t types.Type) bool {
	lo, hi, ok := h3qIntRange(t)
	return ok && v >= lo && v <= hi
}

func (s *h3qState) val(v ssa.Value) h3qVal {
	if x, ok := s.env[v]; ok {
		return x
	}
	if c, ok := v.(*ssa.Const); ok {
		if c.Value == nil {
			if isIntegral(c.Type()) {
				return h3qVal{kind: 1}
			}
			return h3qVal{}
		}
		switch c.Value.Kind() {
		case constant.Bool:
			return h3qVal{kind: 2, b: constant.BoolVal(c.Value)}
		case constant.Int:
			if i, exact := constant.Int64Val(c.Value); exact && isIntegral(c.Type()) && h3qFits(i, c.Type()) {
				return h3qVal{kind: 1, i: i}
			}
		}
	}
	return h3qVal{}
}

func h3qFoldInt(op token.Token, a, b int64, t types.Type) (int64, bool) {
	var r int64
	switch op {
	case token.ADD:
		r = a + b
		if (b > 0 && r < a) || (b < 0 && r > a) {
			return 0, false
		}
	case token.SUB:
		r = a - b
		if (b > 0 && r > a) || (b < 0 && r < a) {
			return 0, false
		}
	case token.MUL:
		if a != 0 && (a > 1<<31 || a < -(1<<31) || b > 1<<31 || b < -(1<<31)) {
			return 0, false
		}
		r = a * b
	case token.SHL:
		if b < 0 || b > 62 || a < 0 || a > (1<<62)>>uint(b) {
			return 0, false
		}
		r = a << uint(b)
	case token.SHR:
		if b < 0 || b > 63 || a < 0 {
			return 0, false
		}
		r = a >> uint(b)
	case token.AND:
		if a < 0 || b < 0 {
			return 0, false
		}
		r = a & b
	case token.OR:
		if a < 0 || b < 0 {
			return 0, false
		}
		r = a | b
	default:
		return 0, false
	}
	if !h3qFits(r, t) {
		return 0, false // would wrap in the machine type: not folded
	}
	return r, true
}

func (s *h3qState) eval(in ssa.Value) h3qVal {
	switch x := in.(type) {
	case *ssa.Alloc:
		if n, ok := h3qTracked(x); ok {
			cells := make(map[int64]int64, n)
			for i := int64(0); i < n; i++ {
				cells[i] = 0
			}
			s.mem[x] = cells
			return h3qVal{kind: 4, al: x, idx: -1, idxOK: true}
		}
	case *ssa.IndexAddr:
		base := s.val(x.X)
		if base.kind == 4 && base.idx == -1 {
			if i := s.val(x.Index); i.kind == 1 {
				return h3qVal{kind: 4, al: base.al, idx: i.i, idxOK: true}
			}
			return h3qVal{kind: 4, al: base.al}
		}
	case *ssa.Index:
		if arr, i := s.val(x.X), s.val(x.Index); arr.kind == 3 && i.kind == 1 {
			if c, ok := arr.cells[i.i]; ok {
				return h3qVal{kind: 1, i: c}
			}
		}
	case *ssa.UnOp:
		o := s.val(x.X)
		switch x.Op {
		case token.MUL:
			if o.kind == 4 && o.idxOK {
				cells := s.mem[o.al]
				if o.idx == -1 {
					cp := make(map[int64]int64, len(cells))
					for k, v := range cells {
						cp[k] = v
					}
					return h3qVal{kind: 3, cells: cp}
				}
				if c, ok := cells[o.idx]; ok {
					return h3qVal{kind: 1, i: c}
				}
			}
		case token.NOT:
			if o.kind == 2 {
				return h3qVal{kind: 2, b: !o.b}
			}
		case token.SUB:
			if o.kind == 1 && o.i != -1<<63 && h3qFits(-o.i, x.Type()) {
				return h3qVal{kind: 1, i: -o.i}
			}
		}
	case *ssa.Convert:
		if o := s.val(x.X); o.kind == 1 && isIntegral(x.Type()) && isIntegral(x.X.Type()) && h3qFits(o.i, x.Type()) {
			return o
		}
	case *ssa.ChangeType:
		return s.val(x.X)
	case *ssa.BinOp:
		a, b := s.val(x.X), s.val(x.Y)
		if a.kind == 1 && b.kind == 1 {
			switch x.Op {
			case token.EQL:
				return h3qVal{kind: 2, b: a.i == b.i}
			case token.NEQ:
				return h3qVal{kind: 2, b: a.i != b.i}
			case token.LSS:
				return h3qVal{kind: 2, b: a.i < b.i}
			case token.LEQ:
				return h3qVal{kind: 2, b: a.i <= b.i}
			case token.GTR:
				return h3qVal{kind: 2, b: a.i > b.i}
			case token.GEQ:
				return h3qVal{kind: 2, b: a.i >= b.i}
			}
			if r, ok := h3qFoldInt(x.Op, a.i, b.i, x.Type()); ok {
				return h3qVal{kind: 1, i: r}
			}
		}
		if a.kind == 2 && b.kind == 2 {
			switch x.Op {
			case token.EQL:
				return h3qVal{kind: 2, b: a.b == b.b}
			case token.NEQ:
				return h3qVal{kind: 2, b: a.b != b.b}
			}
		}
	}
	return h3qVal{}
}

func (s *h3qState) store(st *ssa.Store) {
	addr := s.val(st.Addr)
	if addr.kind != 4 {
		return // tracked locals do not escape: no other pointer aliases them
	}
	cells := s.mem[addr.al]
	v := s.val(st.Val)
	switch {
	case !addr.idxOK:
		for k := range cells {
			delete(cells, k)
		}
	case addr.idx == -1:
		for k := range cells {
			delete(cells, k)
		}
		if v.kind == 3 {
			for k, c := range v.cells {
				cells[k] = c
			}
		}
	case v.kind == 1:
		cells[addr.idx] = v.i
	default:
		delete(cells, addr.idx)
	}
}

// lin renders v as a linear form over parameters with the constants of the path substituted.
func (s *h3qState) lin(v ssa.Value, d int) (Lin, bool) {
	if k := s.val(v); k.kind == 1 {
		return Lin{Coef: map[string]int64{}, K: k.i}, true
	}
	if d > 10 {
		return Lin{}, false
	}
	switch x := v.(type) {
	case *ssa.Parameter:
		if isIntegral(x.Type()) {
			return Lin{Coef: map[string]int64{Term(x): 1}}, true
		}
	case *ssa.Convert:
		if isIntegral(x.Type()) && isIntegral(x.X.Type()) {
			return s.lin(x.X, d+1)
		}
	case *ssa.ChangeType:
		return s.lin(x.X, d+1)
	case *ssa.BinOp:
		if !isIntegral(x.Type()) {
			break
		}
		a, okA := s.lin(x.X, d+1)
		b, okB := s.lin(x.Y, d+1)
		if !okA || !okB {
			break
		}
		switch x.Op {
		case token.ADD:
			return a.add(b, 1), true
		case token.SUB:
			return a.add(b, -1), true
		case token.MUL:
			if a.isConst() {
				return b.scale(a.K), true
			}
			if b.isConst() {
				return a.scale(b.K), true
			}
		}
	}
	return Lin{}, false
}

// condAtom: the atom that holds when cond is true, when cond is understood.
func (s *h3qState) condAtom(cond ssa.Value) (Atom, bool) {
	if u, ok := cond.(*ssa.UnOp); ok && u.Op == token.NOT {
		a, ok := s.condAtom(u.X)
		if !ok {
			return Atom{}, false
		}
		return a.Negate(), true
	}
	x, ok := cond.(*ssa.BinOp)
	if !ok || !isIntegral(x.X.Type()) {
		return Atom{}, false
	}
	a, okA := s.lin(x.X, 0)
	b, okB := s.lin(x.Y, 0)
	if !okA || !okB {
		return Atom{}, false
	}
	nn := nonNegValue(x.X) || nonNegValue(x.Y)
	switch x.Op {
	case token.EQL:
		at := Atom{Kind: EQ, L: a.add(b, -1)}.norm()
		at.NonNeg = nn
		return at, true
	case token.NEQ:
		at := Atom{Kind: NE, L: a.add(b, -1)}.norm()
		at.NonNeg = nn
		return at, true
	case token.LSS:
		l := a.add(b, -1)
		l.K++
		return Atom{Kind: LE, L: l, NonNeg: nn}, true
	case token.LEQ:
		return Atom{Kind: LE, L: a.add(b, -1), NonNeg: nn}, true
	case token.GTR:
		l := b.add(a, -1)
		l.K++
		return Atom{Kind: LE, L: l, NonNeg: nn}, true
	case token.GEQ:
		return Atom{Kind: LE, L: b.add(a, -1), NonNeg: nn}, true
	}
	return Atom{}, false
}

// H3qConstPaths enumerates the entry-to-return paths of fn (see above).
func H3qConstPaths(fn *ssa.Function) ([]H3qPath, error) {
	if fn == nil || len(fn.Blocks) == 0 {
		return nil, fmt.Errorf("no body")
	}
	const maxPaths, maxSteps, maxForks = 256, 20000, 48
	var out []H3qPath
	var fail error
	var run func(s *h3qState, blk, prev *ssa.BasicBlock, forks int)
	run = func(s *h3qState, blk, prev *ssa.BasicBlock, forks int) {
		for fail == nil {
			var next *ssa.BasicBlock
			// phis are evaluated simultaneously from the state at block entry
			phiVals := map[*ssa.Phi]h3qVal{}
			for _, in := range blk.Instrs {
				ph, ok := in.(*ssa.Phi)
				if !ok {
					break
				}
				for k, p := range blk.Preds {
					if p == prev && k < len(ph.Edges) {
						phiVals[ph] = s.val(ph.Edges[k])
					}
				}
			}
			for ph, v := range phiVals {
				s.env[ph] = v
			}
			for _, in := range blk.Instrs {
				s.steps++
				if s.steps > maxSteps {
					fail = fmt.Errorf("a path does not end within %d steps (loop not bounded by path constants?)", maxSteps)
					return
				}
				switch x := in.(type) {
				case *ssa.Phi:
					if _, ok := phiVals[x]; !ok {
						s.env[x] = h3qVal{}
					}
				case *ssa.Store:
					s.store(x)
				case *ssa.Jump:
					next = blk.Succs[0]
				case *ssa.Panic:
					return
				case *ssa.Return:
					p := H3qPath{Ret: x, Facts: append([]Atom{}, s.facts...)}
					for _, r := range x.Results {
						v := s.val(r)
						p.Vals = append(p.Vals, v.i)
						p.Known = append(p.Known, v.kind == 1)
					}
					out = append(out, p)
					if len(out) > maxPaths {
						fail = fmt.Errorf("more than %d paths", maxPaths)
					}
					return
				case *ssa.If:
					if c := s.val(x.Cond); c.kind == 2 {
						if c.b {
							next = blk.Succs[0]
						} else {
							next = blk.Succs[1]
						}
						break
					}
					if forks >= maxForks {
						fail = fmt.Errorf("a path takes more than %d undecided branches", maxForks)
						return
					}
					at, understood := s.condAtom(x.Cond)
					for k, succ := range blk.Succs {
						n := s.fork()
						if understood {
							e := at
							if k == 1 {
								e = at.Negate()
							}
							dead := false
							for _, f := range n.facts {
								if Unsat(e, f) {
									dead = true
								}
							}
							if dead {
								continue
							}
							n.facts = append(n.facts, e)
						}
						run(n, succ, blk, forks+1)
					}
					return
				case ssa.Value:
					s.env[x] = s.eval(x)
				}
				if next != nil {
					break
				}
			}
			if next == nil {
				return
			}
			prev, blk = blk, next
		}
	}
	run(&h3qState{env: map[ssa.Value]h3qVal{}, mem: map[*ssa.Alloc]map[int64]int64{}}, fn.Blocks[0], nil, 0)
	if fail != nil {
		return nil, fail
	}
	if len(out) == 0 {
		return nil, fmt.Errorf("no path reaches a return")
	}
	return out, nil
}
