package core

import (
	"fmt"
	"go/constant"
	"go/token"
	"go/types"
	"strings"

	"golang.org/x/tools/go/ssa"
)

// ---------------------------------------------------------------------------
// E5b: abstract interpretation over the bit-provenance domain.
//
// An integer is abstracted to a vector of 64 bit sources: the constants 0 and
// 1, "bit k of input v", or unknown (⊤). Transfer functions exist for constant
// shifts, & | ^ &^, + of operands with disjoint possibly-non-zero bits,
// integer conversions, comparisons decidable from known bits, and byte
// sequences built with append / indexed by constants. A function is
// interpreted abstractly along the path selected by a set of assumed branch
// atoms (taken from the dominating facts of the chosen return); a branch whose
// condition is neither decidable in the domain nor assumed makes the result
// undecided. No golang/net code is executed: values are provenance vectors.

// Bit kinds.
const (
	bZero uint8 = iota
	bOne
	bIn
	bTop
)

// Bit is one abstract bit.
type Bit struct {
	K   uint8
	Src string
	Idx uint8
}

// BV is an abstract integer of width W (bits >= W are zero).
type BV struct {
	W      int
	Signed bool
	B      [64]Bit
}

// AVal is an abstract value: BV, *ASlice, *APtr, ATuple, *AObj, ATop, ABool(BV W=1), AOpaque.
type AVal interface{}

// ATop is an unknown value.
type ATop struct{ Why string }

// AOpaque is a named unknown (function values, globals, strings).
type AOpaque struct{ Name string }

// ATuple is a multi-value.
type ATuple []AVal

// AObj is a memory object: struct fields or array elements, lazily unknown.
type AObj struct {
	Name  string
	Cells map[int]AVal
	N     int // number of elements for arrays, -1 unknown
	Zero  func(i int) AVal
}

// APtr points at a cell of an object (Idx -1: the object itself).
type APtr struct {
	Obj *AObj
	Idx int
}

// ASlice is a view [Lo,Hi) of an array object; Sym names an unknown prefix
// that precedes Lo==0 (append to a symbolic slice).
type ASlice struct {
	Obj    *AObj
	Lo, Hi int
	Sym    string
}

// ConstBV is the abstract constant u of width w.
func ConstBV(u uint64, w int, signed bool) BV {
	b := constBV(u, w)
	b.Signed = signed
	return b
}

func constBV(u uint64, w int) BV {
	var b BV
	b.W = w
	for i := 0; i < 64; i++ {
		if i < w && u&(1<<uint(i)) != 0 {
			b.B[i] = Bit{K: bOne}
		}
	}
	return b
}

// InputBV is the symbolic input named src of width w; bits >= knownZeroFrom are zero.
func InputBV(src string, w, knownZeroFrom int) BV {
	var b BV
	b.W = w
	for i := 0; i < w && i < knownZeroFrom; i++ {
		b.B[i] = Bit{K: bIn, Src: src, Idx: uint8(i)}
	}
	return b
}

func topBV(w int) BV {
	var b BV
	b.W = w
	for i := 0; i < w; i++ {
		b.B[i] = Bit{K: bTop}
	}
	return b
}

// Const reports the concrete value if every bit is known.
func (b BV) Const() (uint64, bool) {
	var u uint64
	for i := 0; i < 64; i++ {
		switch b.B[i].K {
		case bOne:
			u |= 1 << uint(i)
		case bZero:
		default:
			return 0, false
		}
	}
	return u, true
}

func (b BV) String() string {
	if u, ok := b.Const(); ok {
		return fmt.Sprintf("%d", u)
	}
	var sb strings.Builder
	// run-length: src[hi:lo]
	i := 63
	for i >= 0 && b.B[i].K == bZero {
		i--
	}
	first := true
	for i >= 0 {
		bit := b.B[i]
		j := i
		switch bit.K {
		case bIn:
			for j-1 >= 0 && b.B[j-1].K == bIn && b.B[j-1].Src == bit.Src && b.B[j-1].Idx == b.B[j].Idx-1 {
				j--
			}
		default:
			for j-1 >= 0 && b.B[j-1].K == bit.K {
				j--
			}
		}
		if !first {
			sb.WriteString(" ")
		}
		first = false
		switch bit.K {
		case bIn:
			fmt.Fprintf(&sb, "%s[%d:%d]@%d", bit.Src, bit.Idx, b.B[j].Idx, j)
		case bZero:
			fmt.Fprintf(&sb, "0x%d", i-j+1)
		case bOne:
			fmt.Fprintf(&sb, "1x%d", i-j+1)
		default:
			fmt.Fprintf(&sb, "?x%d", i-j+1)
		}
		i = j - 1
	}
	return sb.String()
}

func (b BV) trunc(w int, signed bool) BV {
	out := b
	out.W = w
	out.Signed = signed
	for i := w; i < 64; i++ {
		out.B[i] = Bit{}
	}
	return out
}

// convert to width w. Widening a signed value sign-extends (unknown unless
// the sign bit is known zero).
func (b BV) convert(w int, signed bool) BV {
	if w <= b.W {
		return b.trunc(w, signed)
	}
	out := b
	out.W = w
	out.Signed = signed
	if b.Signed && b.W > 0 {
		sb := b.B[b.W-1]
		for i := b.W; i < w; i++ {
			switch sb.K {
			case bZero:
				out.B[i] = Bit{}
			case bOne:
				out.B[i] = Bit{K: bOne}
			default:
				out.B[i] = Bit{K: bTop}
			}
		}
	}
	return out
}

func bitAnd(x, y Bit) Bit {
	switch {
	case x.K == bZero || y.K == bZero:
		return Bit{}
	case x.K == bOne:
		return y
	case y.K == bOne:
		return x
	case x == y && x.K == bIn:
		return x
	}
	return Bit{K: bTop}
}

func bitOr(x, y Bit) Bit {
	switch {
	case x.K == bOne || y.K == bOne:
		return Bit{K: bOne}
	case x.K == bZero:
		return y
	case y.K == bZero:
		return x
	case x == y && x.K == bIn:
		return x
	}
	return Bit{K: bTop}
}

func bitXor(x, y Bit) Bit {
	switch {
	case x.K == bZero:
		return y
	case y.K == bZero:
		return x
	case x.K == bOne && y.K == bOne:
		return Bit{}
	case x == y && x.K == bIn:
		return Bit{}
	}
	return Bit{K: bTop}
}

func bitNot(x Bit) Bit {
	switch x.K {
	case bZero:
		return Bit{K: bOne}
	case bOne:
		return Bit{}
	}
	return Bit{K: bTop}
}

func (b BV) shl(n int) BV {
	out := BV{W: b.W, Signed: b.Signed}
	for i := 0; i < b.W; i++ {
		if i-n >= 0 && i-n < 64 {
			out.B[i] = b.B[i-n]
		}
	}
	return out
}

func (b BV) shr(n int) BV {
	out := BV{W: b.W, Signed: b.Signed}
	for i := 0; i < b.W; i++ {
		if i+n < b.W {
			out.B[i] = b.B[i+n]
		} else if b.Signed && b.W > 0 && b.B[b.W-1].K != bZero {
			out.B[i] = Bit{K: bTop}
		}
	}
	return out
}

func (b BV) bitwise(o BV, f func(Bit, Bit) Bit) BV {
	out := BV{W: b.W, Signed: b.Signed}
	for i := 0; i < b.W; i++ {
		out.B[i] = f(b.B[i], o.B[i])
	}
	return out
}

func (b BV) add(o BV) BV {
	if x, ok := b.Const(); ok {
		if y, ok := o.Const(); ok {
			return constBV(x+y, 64).trunc(b.W, b.Signed)
		}
	}
	disjoint := true
	for i := 0; i < b.W; i++ {
		if b.B[i].K != bZero && o.B[i].K != bZero {
			disjoint = false
		}
	}
	if disjoint {
		return b.bitwise(o, bitOr)
	}
	// carries may propagate upward from the lowest overlapping bit
	out := BV{W: b.W, Signed: b.Signed}
	low := 0
	for low < b.W && (b.B[low].K == bZero || o.B[low].K == bZero) {
		out.B[low] = bitOr(b.B[low], o.B[low])
		low++
	}
	for i := low; i < b.W; i++ {
		out.B[i] = Bit{K: bTop}
	}
	return out
}

func binConst(op token.Token, x, y uint64, w int, signed bool) (uint64, bool) {
	mask := ^uint64(0)
	if w < 64 {
		mask = 1<<uint(w) - 1
	}
	switch op {
	case token.ADD:
		return (x + y) & mask, true
	case token.SUB:
		return (x - y) & mask, true
	case token.MUL:
		return (x * y) & mask, true
	case token.QUO:
		if y == 0 {
			return 0, false
		}
		return (x / y) & mask, !signed
	case token.REM:
		if y == 0 {
			return 0, false
		}
		return (x % y) & mask, !signed
	}
	return 0, false
}

// highestPossible returns the index of the highest bit that may be one (-1 if the value is 0).
func (b BV) highestPossible() int {
	for i := 63; i >= 0; i-- {
		if b.B[i].K != bZero {
			return i
		}
	}
	return -1
}

// lowestCertain returns the index of the highest bit that is certainly one (-1 none).
func (b BV) highestCertain() int {
	for i := 63; i >= 0; i-- {
		if b.B[i].K == bOne {
			return i
		}
	}
	return -1
}

// cmp decides x op y when possible from known bits (unsigned interpretation,
// valid when both are non-negative).
func cmpBV(op token.Token, x, y BV) (bool, bool) {
	if a, ok := x.Const(); ok {
		if b, ok := y.Const(); ok {
			if x.Signed || y.Signed {
				sa, sb := signExt(a, x.W), signExt(b, y.W)
				switch op {
				case token.EQL:
					return sa == sb, true
				case token.NEQ:
					return sa != sb, true
				case token.LSS:
					return sa < sb, true
				case token.LEQ:
					return sa <= sb, true
				case token.GTR:
					return sa > sb, true
				case token.GEQ:
					return sa >= sb, true
				}
			}
			switch op {
			case token.EQL:
				return a == b, true
			case token.NEQ:
				return a != b, true
			case token.LSS:
				return a < b, true
			case token.LEQ:
				return a <= b, true
			case token.GTR:
				return a > b, true
			case token.GEQ:
				return a >= b, true
			}
		}
	}
	// equality decided by a differing known bit / all bits identical sources
	if op == token.EQL || op == token.NEQ {
		same := true
		for i := 0; i < 64; i++ {
			p, q := x.B[i], y.B[i]
			if (p.K == bZero && q.K == bOne) || (p.K == bOne && q.K == bZero) {
				return op == token.NEQ, true
			}
			if p != q || p.K == bTop {
				same = false
			}
		}
		if same {
			return op == token.EQL, true
		}
		return false, false
	}
	// interval reasoning for unsigned magnitudes
	if (x.Signed && x.W > 0 && x.B[x.W-1].K != bZero) || (y.Signed && y.W > 0 && y.B[y.W-1].K != bZero) {
		return false, false
	}
	minOf := func(b BV) uint64 {
		var u uint64
		for i := 0; i < 64; i++ {
			if b.B[i].K == bOne {
				u |= 1 << uint(i)
			}
		}
		return u
	}
	maxOf := func(b BV) uint64 {
		var u uint64
		for i := 0; i < 64; i++ {
			if b.B[i].K != bZero {
				u |= 1 << uint(i)
			}
		}
		return u
	}
	xmin, xmax, ymin, ymax := minOf(x), maxOf(x), minOf(y), maxOf(y)
	switch op {
	case token.LSS:
		if xmax < ymin {
			return true, true
		}
		if xmin >= ymax {
			return false, true
		}
	case token.LEQ:
		if xmax <= ymin {
			return true, true
		}
		if xmin > ymax {
			return false, true
		}
	case token.GTR:
		if xmin > ymax {
			return true, true
		}
		if xmax <= ymin {
			return false, true
		}
	case token.GEQ:
		if xmin >= ymax {
			return true, true
		}
		if xmax < ymin {
			return false, true
		}
	}
	return false, false
}

func signExt(u uint64, w int) int64 {
	if w >= 64 || w <= 0 {
		return int64(u)
	}
	if u&(1<<uint(w-1)) != 0 {
		return int64(u | ^uint64(0)<<uint(w))
	}
	return int64(u)
}

func boolBV(v bool) BV {
	if v {
		return constBV(1, 1)
	}
	return constBV(0, 1)
}

func typeWidth(t types.Type) (int, bool, bool) {
	b, ok := t.Underlying().(*types.Basic)
	if !ok {
		return 0, false, false
	}
	switch b.Kind() {
	case types.Bool, types.UntypedBool:
		return 1, false, true
	case types.Int8:
		return 8, true, true
	case types.Uint8:
		return 8, false, true
	case types.Int16:
		return 16, true, true
	case types.Uint16:
		return 16, false, true
	case types.Int32, types.UntypedRune:
		return 32, true, true
	case types.Uint32:
		return 32, false, true
	case types.Int64, types.Int, types.UntypedInt:
		return 64, true, true
	case types.Uint64, types.Uint, types.Uintptr:
		return 64, false, true
	}
	return 0, false, false
}

// ---------------------------------------------------------------------------
// The abstract interpreter.

// Interp interprets SSA functions over abstract values.
type Interp struct {
	P      *Prog
	Assume []Atom // branch atoms assumed to hold on the explored path
	// Hooks replace calls of the named callees (FnName form) by an abstract
	// model, e.g. a byte tape standing for an external stream.
	Hooks map[string]func(args []AVal) (AVal, error)
	Steps   int
	Trace   []string
	MaxCall int
}

type frame struct {
	fn  *ssa.Function
	env map[ssa.Value]AVal
	mem map[*ssa.Alloc]*AObj
}

// ErrUndecided is returned when a branch cannot be decided.
type ErrUndecided struct{ Why string }

func (e ErrUndecided) Error() string { return e.Why }

// ErrPanic is returned when the explored path reaches a panic.
type ErrPanic struct{ Where string }

func (e ErrPanic) Error() string { return "path reaches panic at " + e.Where }

// Call interprets fn on abstract arguments (receiver first).
func (it *Interp) Call(fn *ssa.Function, args []AVal) (AVal, error) {
	return it.call(fn, args, 0)
}

func (it *Interp) call(fn *ssa.Function, args []AVal, depth int) (AVal, error) {
	if fn.Blocks == nil {
		return nil, ErrUndecided{"no body for " + fn.String()}
	}
	if depth > 12 {
		return nil, ErrUndecided{"call depth exceeded"}
	}
	fr := &frame{fn: fn, env: map[ssa.Value]AVal{}, mem: map[*ssa.Alloc]*AObj{}}
	for i, p := range fn.Params {
		if i < len(args) {
			fr.env[p] = args[i]
		} else {
			fr.env[p] = ATop{"missing arg"}
		}
	}
	blk := fn.Blocks[0]
	var prev *ssa.BasicBlock
	for {
		var next *ssa.BasicBlock
		for _, in := range blk.Instrs {
			it.Steps++
			if it.Steps > 200000 {
				return nil, ErrUndecided{"step limit"}
			}
			switch x := in.(type) {
			case *ssa.Phi:
				idx := -1
				for k, p := range blk.Preds {
					if p == prev {
						idx = k
					}
				}
				if idx < 0 {
					return nil, ErrUndecided{"phi without predecessor"}
				}
				fr.env[x] = it.val(fr, x.Edges[idx])
			case *ssa.If:
				c := it.val(fr, x.Cond)
				taken := -1
				if bv, ok := c.(BV); ok {
					if u, ok := bv.Const(); ok {
						if u != 0 {
							taken = 0
						} else {
							taken = 1
						}
					}
				}
				if taken < 0 {
					ca := CondAtom(x.Cond)
					for _, a := range it.Assume {
						if SameAtom(a, ca) {
							taken = 0
						} else if SameAtom(a, ca.Negate()) {
							taken = 1
						}
					}
				}
				if taken < 0 {
					return nil, ErrUndecided{fmt.Sprintf("branch `%s` at %s is neither decidable from known bits nor assumed", CondAtom(x.Cond), it.P.Pos(InstrPos(x)))}
				}
				next = blk.Succs[taken]
			case *ssa.Jump:
				next = blk.Succs[0]
			case *ssa.Return:
				if len(x.Results) == 1 {
					return it.val(fr, x.Results[0]), nil
				}
				var t ATuple
				for _, r := range x.Results {
					t = append(t, it.val(fr, r))
				}
				return t, nil
			case *ssa.Panic:
				return nil, ErrPanic{it.P.Pos(InstrPos(x))}
			case *ssa.Store:
				if err := it.store(fr, x); err != nil {
					return nil, err
				}
			case *ssa.DebugRef, *ssa.RunDefers:
			case *ssa.Defer, *ssa.Go, *ssa.Send, *ssa.MapUpdate:
				return nil, ErrUndecided{fmt.Sprintf("unsupported instruction %T", in)}
			case ssa.Value:
				v, err := it.eval(fr, x, depth)
				if err != nil {
					return nil, err
				}
				fr.env[x] = v
			}
			if next != nil {
				break
			}
		}
		if next == nil {
			return nil, ErrUndecided{"fell off block"}
		}
		prev, blk = blk, next
	}
}

func (it *Interp) val(fr *frame, v ssa.Value) AVal {
	if a, ok := fr.env[v]; ok {
		return a
	}
	switch x := v.(type) {
	case *ssa.Const:
		if w, signed, ok := typeWidth(x.Type()); ok {
			if x.Value == nil {
				b := constBV(0, w)
				b.Signed = signed
				return b
			}
			switch x.Value.Kind() {
			case constant.Bool:
				return boolBV(constant.BoolVal(x.Value))
			case constant.Int:
				if u, ok := constant.Uint64Val(x.Value); ok {
					b := constBV(u, w)
					b.Signed = signed
					return b
				}
				if i, ok := constant.Int64Val(x.Value); ok {
					b := constBV(uint64(i), 64).trunc(w, signed)
					return b
				}
			}
		}
		if x.Value == nil {
			return AOpaque{"nil"}
		}
		return AOpaque{"const:" + x.Value.ExactString()}
	case *ssa.Function:
		return AOpaque{"func:" + x.String()}
	case *ssa.Global:
		return AOpaque{"global:" + x.String()}
	case *ssa.Builtin:
		return AOpaque{"builtin:" + x.Name()}
	}
	return ATop{"unevaluated " + v.Name()}
}

func zeroOf(t types.Type, name string) AVal {
	if w, signed, ok := typeWidth(t); ok {
		b := constBV(0, w)
		b.Signed = signed
		return b
	}
	switch u := t.Underlying().(type) {
	case *types.Array:
		n := int(u.Len())
		elem := u.Elem()
		o := &AObj{Name: name, Cells: map[int]AVal{}, N: n}
		o.Zero = func(int) AVal { return zeroOf(elem, name+"[]") }
		return o
	case *types.Struct:
		o := &AObj{Name: name, Cells: map[int]AVal{}, N: u.NumFields()}
		o.Zero = func(i int) AVal { return zeroOf(u.Field(i).Type(), name+"."+u.Field(i).Name()) }
		return o
	case *types.Slice:
		elem := u.Elem()
		o := &AObj{Name: name, Cells: map[int]AVal{}, N: 0}
		o.Zero = func(int) AVal { return zeroOf(elem, name+"[]") }
		return &ASlice{Obj: o, Lo: 0, Hi: 0}
	}
	return AOpaque{"zero"}
}

func (o *AObj) get(i int) AVal {
	if v, ok := o.Cells[i]; ok {
		return v
	}
	if o.Zero != nil {
		v := o.Zero(i)
		o.Cells[i] = v
		return v
	}
	return ATop{"unknown cell of " + o.Name}
}

func (it *Interp) store(fr *frame, s *ssa.Store) error {
	addr := it.val(fr, s.Addr)
	v := it.val(fr, s.Val)
	p, ok := addr.(*APtr)
	if !ok {
		return ErrUndecided{fmt.Sprintf("store through unknown pointer at %s", it.P.Pos(InstrPos(s)))}
	}
	if p.Idx < 0 {
		// whole object store: copy cells
		if src, ok := v.(*AObj); ok {
			p.Obj.Cells = map[int]AVal{}
			for k, c := range src.Cells {
				p.Obj.Cells[k] = c
			}
			p.Obj.Zero = src.Zero
			p.Obj.N = src.N
			return nil
		}
		p.Obj.Cells[-1] = v
		return nil
	}
	p.Obj.Cells[p.Idx] = v
	return nil
}

func (it *Interp) eval(fr *frame, v ssa.Value, depth int) (AVal, error) {
	switch x := v.(type) {
	case *ssa.Alloc:
		elem := x.Type().Underlying().(*types.Pointer).Elem()
		z := zeroOf(elem, "%"+allocName(x))
		if o, ok := z.(*AObj); ok {
			return &APtr{Obj: o, Idx: -1}, nil
		}
		o := &AObj{Name: "%" + allocName(x), Cells: map[int]AVal{-1: z}, N: 1}
		return &APtr{Obj: o, Idx: -1}, nil
	case *ssa.FieldAddr:
		base := it.val(fr, x.X)
		if p, ok := base.(*APtr); ok {
			o := p.Obj
			if p.Idx >= 0 {
				sub, ok := o.get(p.Idx).(*AObj)
				if !ok {
					return ATop{"field of non-object"}, nil
				}
				o = sub
			}
			return &APtr{Obj: o, Idx: x.Field}, nil
		}
		return ATop{"fieldaddr of unknown"}, nil
	case *ssa.IndexAddr:
		base := it.val(fr, x.X)
		idx, ok := it.val(fr, x.Index).(BV)
		if !ok {
			return ATop{"index"}, nil
		}
		i, ok := idx.Const()
		if !ok {
			return ATop{"symbolic index"}, nil
		}
		switch b := base.(type) {
		case *ASlice:
			if int(i) >= b.Hi-b.Lo {
				return nil, ErrPanic{"index out of range at " + it.P.Pos(InstrPos(x))}
			}
			return &APtr{Obj: b.Obj, Idx: b.Lo + int(i)}, nil
		case *APtr:
			o := b.Obj
			if b.Idx >= 0 {
				sub, ok := o.get(b.Idx).(*AObj)
				if !ok {
					return ATop{"index of non-array"}, nil
				}
				o = sub
			}
			if o.N >= 0 && int(i) >= o.N {
				return nil, ErrPanic{"index out of range at " + it.P.Pos(InstrPos(x))}
			}
			return &APtr{Obj: o, Idx: int(i)}, nil
		}
		return ATop{"indexaddr of unknown"}, nil
	case *ssa.Index:
		base := it.val(fr, x.X)
		idx, ok := it.val(fr, x.Index).(BV)
		if o, isObj := base.(*AObj); isObj && ok {
			if i, ok := idx.Const(); ok {
				return o.get(int(i)), nil
			}
		}
		return ATop{"index"}, nil
	case *ssa.Field:
		if o, ok := it.val(fr, x.X).(*AObj); ok {
			return o.get(x.Field), nil
		}
		return ATop{"field"}, nil
	case *ssa.UnOp:
		a := it.val(fr, x.X)
		switch x.Op {
		case token.MUL:
			p, ok := a.(*APtr)
			if !ok {
				return ATop{"load through unknown pointer"}, nil
			}
			if p.Idx < 0 {
				if c, ok := p.Obj.Cells[-1]; ok {
					return c, nil
				}
				return p.Obj, nil
			}
			return p.Obj.get(p.Idx), nil
		case token.NOT:
			if b, ok := a.(BV); ok {
				if u, ok := b.Const(); ok {
					return boolBV(u == 0), nil
				}
			}
			return topBV(1), nil
		case token.XOR:
			if b, ok := a.(BV); ok {
				out := BV{W: b.W, Signed: b.Signed}
				for i := 0; i < b.W; i++ {
					out.B[i] = bitNot(b.B[i])
				}
				return out, nil
			}
		case token.SUB:
			if b, ok := a.(BV); ok {
				if u, ok := b.Const(); ok {
					return constBV(-u, 64).trunc(b.W, b.Signed), nil
				}
				return topBV(b.W), nil
			}
		}
		return ATop{"unop"}, nil
	case *ssa.BinOp:
		return it.binop(fr, x), nil
	case *ssa.Convert:
		a := it.val(fr, x.X)
		if b, ok := a.(BV); ok {
			if w, signed, ok := typeWidth(x.Type()); ok {
				return b.convert(w, signed), nil
			}
		}
		return a, nil
	case *ssa.ChangeType:
		a := it.val(fr, x.X)
		if b, ok := a.(BV); ok {
			if w, signed, ok := typeWidth(x.Type()); ok {
				return b.convert(w, signed), nil
			}
		}
		return a, nil
	case *ssa.MakeInterface:
		return it.val(fr, x.X), nil
	case *ssa.ChangeInterface:
		return it.val(fr, x.X), nil
	case *ssa.Slice:
		return it.slice(fr, x)
	case *ssa.Extract:
		if t, ok := it.val(fr, x.Tuple).(ATuple); ok && x.Index < len(t) {
			return t[x.Index], nil
		}
		return ATop{"extract"}, nil
	case *ssa.MakeSlice:
		if l, ok := it.val(fr, x.Len).(BV); ok {
			if n, ok := l.Const(); ok && n < 1<<16 {
				elem := x.Type().Underlying().(*types.Slice).Elem()
				o := &AObj{Name: "make", Cells: map[int]AVal{}, N: int(n)}
				o.Zero = func(int) AVal { return zeroOf(elem, "make[]") }
				return &ASlice{Obj: o, Lo: 0, Hi: int(n)}, nil
			}
		}
		return ATop{"makeslice"}, nil
	case *ssa.Call:
		return it.callInstr(fr, x, depth)
	case *ssa.TypeAssert, *ssa.Lookup, *ssa.MakeMap, *ssa.MakeChan, *ssa.MakeClosure, *ssa.Range, *ssa.Next, *ssa.Select, *ssa.SliceToArrayPointer, *ssa.MultiConvert:
		return ATop{fmt.Sprintf("%T", v)}, nil
	}
	return ATop{fmt.Sprintf("%T", v)}, nil
}

func (it *Interp) binop(fr *frame, x *ssa.BinOp) AVal {
	a, aok := it.val(fr, x.X).(BV)
	b, bok := it.val(fr, x.Y).(BV)
	w, signed, wok := typeWidth(x.Type())
	switch x.Op {
	case token.EQL, token.NEQ, token.LSS, token.LEQ, token.GTR, token.GEQ:
		if !aok && !bok && (x.Op == token.EQL || x.Op == token.NEQ) {
			// nil == nil for the abstract nil value (errors returned by hooks)
			oa, isA := it.val(fr, x.X).(AOpaque)
			ob, isB := it.val(fr, x.Y).(AOpaque)
			if isA && isB && oa.Name == "nil" && ob.Name == "nil" {
				return boolBV(x.Op == token.EQL)
			}
		}
		if aok && bok {
			if r, ok := cmpBV(x.Op, a, b); ok {
				return boolBV(r)
			}
		}
		return topBV(1)
	}
	if !aok || !bok || !wok {
		if wok {
			return topBV(w)
		}
		return ATop{"binop"}
	}
	a.W, b.W = w, w
	a.Signed, b.Signed = signed, signed
	switch x.Op {
	case token.AND:
		return a.bitwise(b, bitAnd)
	case token.OR:
		return a.bitwise(b, bitOr)
	case token.XOR:
		return a.bitwise(b, bitXor)
	case token.AND_NOT:
		nb := BV{W: w, Signed: signed}
		for i := 0; i < w; i++ {
			nb.B[i] = bitNot(b.B[i])
		}
		return a.bitwise(nb, bitAnd)
	case token.SHL:
		if n, ok := it.shiftCount(fr, x.Y); ok {
			return a.shl(n)
		}
		return topBV(w)
	case token.SHR:
		if n, ok := it.shiftCount(fr, x.Y); ok {
			return a.shr(n)
		}
		return topBV(w)
	case token.ADD:
		return a.add(b)
	}
	if u, ok := a.Const(); ok {
		if v, ok := b.Const(); ok {
			if r, ok := binConst(x.Op, u, v, w, signed); ok {
				out := constBV(r, w)
				out.Signed = signed
				return out
			}
		}
	}
	// x*2^k and x/2^k by constants are shifts
	if v, ok := b.Const(); ok && v != 0 && v&(v-1) == 0 && !signed {
		k := 0
		for v>>uint(k) != 1 {
			k++
		}
		switch x.Op {
		case token.MUL:
			return a.shl(k)
		case token.QUO:
			return a.shr(k)
		case token.REM:
			out := BV{W: w}
			for i := 0; i < k; i++ {
				out.B[i] = a.B[i]
			}
			return out
		}
	}
	if x.Op == token.SUB {
		// x - 0
		if v, ok := b.Const(); ok && v == 0 {
			return a
		}
	}
	return topBV(w)
}

func (it *Interp) shiftCount(fr *frame, v ssa.Value) (int, bool) {
	b, ok := it.val(fr, v).(BV)
	if !ok {
		return 0, false
	}
	u, ok := b.Const()
	if !ok || u > 64 {
		return 0, false
	}
	return int(u), true
}

func (it *Interp) slice(fr *frame, x *ssa.Slice) (AVal, error) {
	base := it.val(fr, x.X)
	bound := func(v ssa.Value, def int) (int, bool) {
		if v == nil {
			return def, true
		}
		b, ok := it.val(fr, v).(BV)
		if !ok {
			return 0, false
		}
		u, ok := b.Const()
		return int(u), ok
	}
	switch b := base.(type) {
	case *APtr: // pointer to array
		o := b.Obj
		if b.Idx >= 0 {
			sub, ok := o.get(b.Idx).(*AObj)
			if !ok {
				return ATop{"slice of non-array"}, nil
			}
			o = sub
		}
		lo, ok1 := bound(x.Low, 0)
		hi, ok2 := bound(x.High, o.N)
		if !ok1 || !ok2 || o.N < 0 {
			return ATop{"symbolic slice bounds"}, nil
		}
		if lo > hi || hi > o.N {
			return nil, ErrPanic{"slice bounds out of range at " + it.P.Pos(InstrPos(x))}
		}
		return &ASlice{Obj: o, Lo: lo, Hi: hi}, nil
	case *ASlice:
		n := b.Hi - b.Lo
		lo, ok1 := bound(x.Low, 0)
		hi, ok2 := bound(x.High, n)
		if !ok1 || !ok2 {
			return ATop{"symbolic slice bounds"}, nil
		}
		if lo > hi || hi > n && b.Obj.N >= 0 && b.Lo+hi > b.Obj.N {
			return nil, ErrPanic{"slice bounds out of range at " + it.P.Pos(InstrPos(x))}
		}
		if hi > n {
			return nil, ErrPanic{"slice bounds out of range at " + it.P.Pos(InstrPos(x))}
		}
		sym := b.Sym
		if lo > 0 {
			sym = ""
		}
		return &ASlice{Obj: b.Obj, Lo: b.Lo + lo, Hi: b.Lo + hi, Sym: sym}, nil
	}
	return ATop{"slice of unknown"}, nil
}

func (it *Interp) callInstr(fr *frame, x *ssa.Call, depth int) (AVal, error) {
	cc := &x.Call
	var args []AVal
	for _, a := range cc.Args {
		args = append(args, it.val(fr, a))
	}
	if b, ok := cc.Value.(*ssa.Builtin); ok {
		switch b.Name() {
		case "len", "cap":
			switch s := args[0].(type) {
			case *ASlice:
				if s.Sym != "" {
					return topBV(64), nil
				}
				out := constBV(uint64(s.Hi-s.Lo), 64)
				out.Signed = true
				return out, nil
			case *AObj:
				if s.N >= 0 {
					out := constBV(uint64(s.N), 64)
					out.Signed = true
					return out, nil
				}
			}
			return topBV(64), nil
		case "append":
			dst, ok := args[0].(*ASlice)
			if !ok {
				return ATop{"append to unknown"}, nil
			}
			src, ok := args[1].(*ASlice)
			if !ok {
				return ATop{"append of unknown"}, nil
			}
			o := &AObj{Name: dst.Obj.Name, Cells: map[int]AVal{}, N: -1, Zero: dst.Obj.Zero}
			n := 0
			for i := dst.Lo; i < dst.Hi; i++ {
				o.Cells[n] = dst.Obj.get(i)
				n++
			}
			for i := src.Lo; i < src.Hi; i++ {
				o.Cells[n] = src.Obj.get(i)
				n++
			}
			o.N = n
			return &ASlice{Obj: o, Lo: 0, Hi: n, Sym: dst.Sym}, nil
		case "min", "max":
			return topBV(64), nil
		}
		return ATop{"builtin " + b.Name()}, nil
	}
	if callee := cc.StaticCallee(); callee != nil {
		if h, ok := it.Hooks[FnName(callee)]; ok {
			return h(args)
		}
		if callee.Blocks != nil {
			return it.call(callee, args, depth+1)
		}
	}
	return ATop{"call of unknown function"}, nil
}

// SymSlice is an abstract slice parameter with unknown contents named sym.
func SymSlice(sym string) *ASlice {
	return &ASlice{Obj: &AObj{Name: sym, Cells: map[int]AVal{}, N: 0}, Lo: 0, Hi: 0, Sym: sym}
}

// KnownBytes builds a slice of the given abstract bytes.
func KnownBytes(bs []AVal) *ASlice {
	o := &AObj{Name: "bytes", Cells: map[int]AVal{}, N: len(bs)}
	for i, b := range bs {
		o.Cells[i] = b
	}
	return &ASlice{Obj: o, Lo: 0, Hi: len(bs)}
}

// SliceElems returns the abstract elements of a fully known slice.
func SliceElems(v AVal) ([]AVal, string, bool) {
	s, ok := v.(*ASlice)
	if !ok {
		return nil, "", false
	}
	var out []AVal
	for i := s.Lo; i < s.Hi; i++ {
		out = append(out, s.Obj.get(i))
	}
	return out, s.Sym, true
}

// NewObj creates an abstract object (struct) for a receiver parameter whose
// fields are unknown until written.
func NewObj(name string) *APtr {
	o := &AObj{Name: name, Cells: map[int]AVal{}, N: -1}
	o.Zero = func(i int) AVal { return ATop{"unwritten field of " + name} }
	return &APtr{Obj: o, Idx: -1}
}

// FieldIndex returns the index of a struct field by name.
func FieldIndex(t types.Type, name string) int {
	if p, ok := t.Underlying().(*types.Pointer); ok {
		t = p.Elem()
	}
	st, ok := t.Underlying().(*types.Struct)
	if !ok {
		return -1
	}
	for i := 0; i < st.NumFields(); i++ {
		if st.Field(i).Name() == name {
			return i
		}
	}
	return -1
}

// RenameAtoms rewrites term names in atoms (e.g. "$1" -> "$0" when the same
// quantity is a different parameter of another function).
func RenameAtoms(as []Atom, from, to string) []Atom {
	var out []Atom
	for _, a := range as {
		n := Atom{Kind: a.Kind, L: Lin{Coef: map[string]int64{}, K: a.L.K}}
		for t, c := range a.L.Coef {
			if t == from {
				t = to
			}
			n.L.Coef[t] += c
		}
		out = append(out, n)
	}
	return out
}
