package core

import (
	"bytes"
	_ "embed"
	"encoding/json"
	"fmt"
	"go/ast"
	"go/format"
	"go/parser"
	"go/token"
	"go/types"
	"os"
	"path/filepath"
	"sort"
	"strings"

	"golang.org/x/tools/go/packages"

	"verif/sa/third_party/xtools/xinternal/refactor/inline"
)

// ---------------------------------------------------------------------------
// Helper normalisation.
//
// The rule tables anchor on the decomposition into functions that existed when
// they were written (baseline_funcs.txt). A behaviour-preserving refactoring
// that extracts a block into a new unexported helper would otherwise move
// sites, guards and writers out of the anchored function. Before analysis,
// every *new* unexported function of the repository (one that is not in the
// baseline and is only ever called statically) is inlined back into its
// callers at the source level (golang.org/x/tools' inliner, semantics
// preserving) in an in-memory overlay; its declaration is then dropped. The
// analysis runs on the overlay. Nothing else is rewritten.

//go:embed baseline_funcs.txt
var baselineFuncsTxt string

func baselineFuncs() map[string]bool {
	m := map[string]bool{}
	for _, l := range strings.Split(baselineFuncsTxt, "\n") {
		if l = strings.TrimSpace(l); l != "" {
			name, _, _ := strings.Cut(l, "\t")
			m[name] = true
		}
	}
	return m
}

var baselineSigCache, baselineTypeCache map[string][]string
var baselineResCache map[string]string

func loadBaselineSigs() {
	if baselineSigCache != nil {
		return
	}
	baselineSigCache = map[string][]string{}
	baselineTypeCache = map[string][]string{}
	baselineResCache = map[string]string{}
	for _, l := range strings.Split(baselineFuncsTxt, "\n") {
		f := strings.Split(strings.TrimRight(l, "\r\n"), "\t")
		if len(f) >= 2 && f[1] != "" {
			baselineSigCache[f[0]] = strings.Split(f[1], ",")
		}
		if len(f) >= 3 && f[2] != "" {
			baselineTypeCache[f[0]] = strings.Split(f[2], ";")
		}
		if len(f) >= 4 {
			baselineResCache[f[0]] = f[3]
		}
	}
}

// BaselineParams returns the parameter names the function had when the rules were written.
func BaselineParams(fn string) []string {
	loadBaselineSigs()
	return baselineSigCache[fn]
}

// BaselineParamTypes returns the parameter types (as written) the function had when the rules were written.
func BaselineParamTypes(fn string) []string {
	loadBaselineSigs()
	return baselineTypeCache[fn]
}

// declName renders a FuncDecl the way FnName does for the outer function.
func declName(pkgShort string, fd *ast.FuncDecl, info *types.Info) string {
	obj, _ := info.Defs[fd.Name].(*types.Func)
	if obj == nil {
		return ""
	}
	sig := obj.Type().(*types.Signature)
	if sig.Recv() == nil {
		return pkgShort + "." + fd.Name.Name
	}
	t := sig.Recv().Type()
	ptr := false
	if p, ok := t.(*types.Pointer); ok {
		t = p.Elem()
		ptr = true
	}
	named, ok := t.(*types.Named)
	if !ok {
		return ""
	}
	n := pkgShort + "." + named.Obj().Name()
	if tp := named.TypeParams(); tp != nil && tp.Len() > 0 {
		var ps []string
		for i := 0; i < tp.Len(); i++ {
			ps = append(ps, tp.At(i).Obj().Name())
		}
		n += "[" + strings.Join(ps, ",") + "]"
	}
	if ptr {
		return "(*" + n + ")." + fd.Name.Name
	}
	return "(" + n + ")." + fd.Name.Name
}

// ScanDeclNames lists, purely syntactically, the names (FnName form) of all
// function declarations in non-test .go files under repo, whatever their build tags.
func ScanDeclNames(repo string) (map[string]bool, error) {
	m, err := ScanDecls(repo)
	out := map[string]bool{}
	for k := range m {
		out[k] = true
	}
	return out, err
}

// ScanDecls is ScanDeclNames with, per function, the list of its parameter names (receiver excluded).
func ScanDecls(repo string) (map[string][]string, error) {
	out, _, err := ScanDeclsTyped(repo)
	return out, err
}

// ScanDeclsTyped is ScanDecls plus, per function, the parameter types as written in the source.
func ScanDeclsTyped(repo string) (map[string][]string, map[string][]string, error) {
	a, b, _, err := scanDeclsFull(repo)
	return a, b, err
}

// scanDeclsFull additionally returns the result types of every function ("" when none).
func scanDeclsFull(repo string) (map[string][]string, map[string][]string, map[string]string, error) {
	out := map[string][]string{}
	typesOut := map[string][]string{}
	resOut := map[string]string{}
	fset := token.NewFileSet()
	err := filepath.WalkDir(repo, func(path string, d os.DirEntry, err error) error {
		if err != nil {
			return err
		}
		if d.IsDir() {
			n := d.Name()
			if path != repo && (strings.HasPrefix(n, ".") || n == "testdata" || n == "vendor") {
				return filepath.SkipDir
			}
			return nil
		}
		if !strings.HasSuffix(path, ".go") || strings.HasSuffix(path, "_test.go") {
			return nil
		}
		f, err := parser.ParseFile(fset, path, nil, parser.SkipObjectResolution)
		if err != nil {
			return nil // unparsable files are the type checker's problem
		}
		rel, _ := filepath.Rel(repo, filepath.Dir(path))
		pkgShort := filepath.ToSlash(rel)
		for _, dcl := range f.Decls {
			fd, ok := dcl.(*ast.FuncDecl)
			if !ok {
				continue
			}
			var params, ptypes []string
			results := ""
			if fd.Type.Results != nil {
				var rs []string
				for _, f := range fd.Type.Results.List {
					n := len(f.Names)
					if n == 0 {
						n = 1
					}
					for k := 0; k < n; k++ {
						rs = append(rs, strings.ReplaceAll(types.ExprString(f.Type), " ", ""))
					}
				}
				results = strings.Join(rs, ";")
			}
			for _, f := range fd.Type.Params.List {
				ts := strings.ReplaceAll(types.ExprString(f.Type), " ", "")
				if len(f.Names) == 0 {
					params = append(params, "_")
					ptypes = append(ptypes, ts)
				}
				for _, n := range f.Names {
					params = append(params, n.Name)
					ptypes = append(ptypes, ts)
				}
			}
			if fd.Recv == nil || len(fd.Recv.List) == 0 {
				out[pkgShort+"."+fd.Name.Name] = params
				typesOut[pkgShort+"."+fd.Name.Name] = ptypes
				resOut[pkgShort+"."+fd.Name.Name] = results
				continue
			}
			t := fd.Recv.List[0].Type
			ptr := false
			if st, ok := t.(*ast.StarExpr); ok {
				t, ptr = st.X, true
			}
			tn := ""
			switch x := t.(type) {
			case *ast.Ident:
				tn = x.Name
			case *ast.IndexExpr:
				if id, ok := x.X.(*ast.Ident); ok {
					tn = id.Name + "[" + types.ExprString(x.Index) + "]"
				}
			case *ast.IndexListExpr:
				if id, ok := x.X.(*ast.Ident); ok {
					var ps []string
					for _, ix := range x.Indices {
						ps = append(ps, types.ExprString(ix))
					}
					tn = id.Name + "[" + strings.Join(ps, ",") + "]"
				}
			}
			if tn == "" {
				continue
			}
			n := pkgShort + "." + tn
			if ptr {
				out["(*"+n+")."+fd.Name.Name] = params
				typesOut["(*"+n+")."+fd.Name.Name] = ptypes
				resOut["(*"+n+")."+fd.Name.Name] = results
			} else {
				out["("+n+")."+fd.Name.Name] = params
				typesOut["("+n+")."+fd.Name.Name] = ptypes
				resOut["("+n+")."+fd.Name.Name] = results
			}
		}
		return nil
	})
	return out, typesOut, resOut, err
}

// ---------------------------------------------------------------------------
// Renamed unexported functions.
//
// An unexported function that is in the baseline but no longer declared, and a
// declared unexported function that is not in the baseline, with the same
// package, the same receiver and the same parameter and result types, are taken
// to be one function that was renamed when the pairing is unique in both
// directions. The function keeps its baseline name for the analysis (FnName,
// terms), so rules anchored on it still find it.

var renamedFns = map[string]string{} // current name -> baseline name

// splitFnName returns the prefix up to and including the last '.', and the bare name.
func splitFnName(n string) (string, string) {
	i := strings.LastIndex(n, ".")
	if i < 0 {
		return "", n
	}
	return n[:i+1], n[i+1:]
}

// DetectRenames fills the rename table for the tree under repo.
func DetectRenames(repo string) map[string]string {
	renamedFns = map[string]string{}
	_, curTypes, curRes, err := scanDeclsFull(repo)
	if err != nil {
		return renamedFns
	}
	loadBaselineSigs()
	base := baselineFuncs()
	sig := func(prefix string, ptypes []string, res string) string {
		return prefix + "(" + strings.Join(ptypes, ";") + ")" + res
	}
	missing := map[string][]string{} // signature -> baseline names no longer declared
	fresh := map[string][]string{}   // signature -> new names
	for n := range base {
		if _, ok := curTypes[n]; ok {
			continue
		}
		pre, bare := splitFnName(n)
		if bare == "" || ast.IsExported(bare) {
			continue
		}
		res, known := baselineResCache[n]
		if !known {
			continue
		}
		k := sig(pre, baselineTypeCache[n], res)
		missing[k] = append(missing[k], n)
	}
	for n, pt := range curTypes {
		if base[n] {
			continue
		}
		pre, bare := splitFnName(n)
		if bare == "" || ast.IsExported(bare) {
			continue
		}
		k := sig(pre, pt, curRes[n])
		fresh[k] = append(fresh[k], n)
	}
	for k, ms := range missing {
		if fs := fresh[k]; len(ms) == 1 && len(fs) == 1 {
			renamedFns[fs[0]] = ms[0]
		}
	}
	return renamedFns
}

// baselineName maps a current function name (FnName form, possibly of a closure) to its baseline name.
func baselineName(n string) string {
	if len(renamedFns) == 0 {
		return n
	}
	if b, ok := renamedFns[n]; ok {
		return b
	}
	if i := strings.Index(n, "$"); i > 0 {
		if b, ok := renamedFns[n[:i]]; ok {
			return b + n[i:]
		}
	}
	return n
}

// Normalize returns an overlay (absolute file name -> content) in which every
// new unexported helper has been inlined into its callers, and the list of
// helpers handled. A nil overlay means there is nothing to do.
func Normalize(repo string, env []string) (map[string][]byte, []string, error) {
	base := baselineFuncs()
	if len(base) == 0 {
		return nil, nil, nil
	}
	// cheap syntactic pre-check: is there any function declaration outside the baseline?
	if names, err := ScanDeclNames(repo); err == nil {
		fresh := false
		for n := range names {
			if !base[n] {
				fresh = true
				break
			}
		}
		if !fresh {
			return nil, nil, nil
		}
	}
	overlay := map[string][]byte{}
	var done []string
	failed := map[string]bool{}
	for iter := 0; iter < 40; iter++ {
		fset := token.NewFileSet()
		cfg := &packages.Config{
			Mode: packages.NeedName | packages.NeedFiles | packages.NeedCompiledGoFiles | packages.NeedSyntax |
				packages.NeedTypes | packages.NeedTypesInfo | packages.NeedImports | packages.NeedDeps | packages.NeedTypesSizes,
			Dir: repo, Fset: fset, Env: env, Overlay: overlay,
		}
		pkgs, err := packages.Load(cfg, "./...")
		if err != nil {
			return nil, nil, err
		}
		// find candidate helpers
		type cand struct {
			pk   *packages.Package
			fd   *ast.FuncDecl
			file *ast.File
			obj  *types.Func
			name string
		}
		var cands []cand
		for _, pk := range pkgs {
			if len(pk.Errors) > 0 || !strings.HasPrefix(pk.PkgPath, strings.TrimSuffix(ModPrefix, "/")) {
				continue
			}
			short := Short(pk.PkgPath)
			for _, f := range pk.Syntax {
				for _, d := range f.Decls {
					fd, ok := d.(*ast.FuncDecl)
					if !ok || fd.Body == nil || ast.IsExported(fd.Name.Name) || fd.Name.Name == "init" || fd.Name.Name == "main" || fd.Name.Name == "_" {
						continue
					}
					name := declName(short, fd, pk.TypesInfo)
					if name == "" || base[name] || failed[name] || renamedFns[name] != "" {
						continue
					}
					obj := pk.TypesInfo.Defs[fd.Name].(*types.Func)
					cands = append(cands, cand{pk, fd, f, obj, name})
				}
			}
		}
		if len(cands) == 0 {
			break
		}
		sort.Slice(cands, func(i, j int) bool { return cands[i].name < cands[j].name })
		progressed := false
		for _, cd := range cands {
			// all uses of the helper inside its package
			type use struct {
				file *ast.File
				call *ast.CallExpr
			}
			var uses []use
			other := false
			for _, f := range cd.pk.Syntax {
				var stack []ast.Node
				ast.Inspect(f, func(n ast.Node) bool {
					if n == nil {
						stack = stack[:len(stack)-1]
						return true
					}
					stack = append(stack, n)
					id, ok := n.(*ast.Ident)
					if !ok || cd.pk.TypesInfo.Uses[id] != cd.obj {
						return true
					}
					// the identifier must be the function operand of a call
					var fun ast.Expr = id
					k := len(stack) - 2
					if k >= 0 {
						if se, ok := stack[k].(*ast.SelectorExpr); ok && se.Sel == id {
							fun = se
							k--
						}
					}
					if k >= 0 {
						if ce, ok := stack[k].(*ast.CallExpr); ok && ce.Fun == fun {
							// go/defer statements cannot be inlined
							if k-1 >= 0 {
								switch stack[k-1].(type) {
								case *ast.GoStmt, *ast.DeferStmt:
									other = true
									return true
								}
							}
							uses = append(uses, use{f, ce})
							return true
						}
					}
					other = true
					return true
				})
			}
			// recursion or non-call uses: leave the helper alone
			selfCall := false
			for _, u := range uses {
				if u.call.Pos() >= cd.fd.Pos() && u.call.End() <= cd.fd.End() {
					selfCall = true
				}
			}
			if other || selfCall {
				failed[cd.name] = true
				continue
			}
			if len(uses) == 0 {
				// unused: drop the declaration
				path := fset.Position(cd.file.Pos()).Filename
				content, err := fileContent(path, overlay)
				if err != nil {
					return nil, nil, err
				}
				start, end := fset.Position(declStart(cd.fd)).Offset, fset.Position(cd.fd.End()).Offset
				nc := append(append([]byte{}, content[:start]...), content[end:]...)
				if fmtd, err := format.Source(nc); err == nil {
					nc = fmtd
				}
				overlay[path] = nc
				done = append(done, cd.name)
				progressed = true
				break // positions changed: reload
			}
			// inline one call per file, then reload
			calleeFile := fset.Position(cd.file.Pos()).Filename
			calleeContent, err := fileContent(calleeFile, overlay)
			if err != nil {
				return nil, nil, err
			}
			callee, err := inline.AnalyzeCallee(func(string, ...any) {}, fset, cd.pk.Types, cd.pk.TypesInfo, cd.fd, calleeContent)
			if err != nil {
				failed[cd.name] = true
				continue
			}
			seenFile := map[string]bool{}
			okAny := false
			for _, u := range uses {
				path := fset.Position(u.file.Pos()).Filename
				if seenFile[path] {
					continue
				}
				seenFile[path] = true
				content, err := fileContent(path, overlay)
				if err != nil {
					return nil, nil, err
				}
				res, err := inline.Inline(&inline.Caller{Fset: fset, Types: cd.pk.Types, Info: cd.pk.TypesInfo, File: u.file, Call: u.call, Content: content}, callee, &inline.Options{})
				if err != nil || res.Literalized {
					// fall back to the goto-based statement inliner
					nc, ok := gotoInline(fset, cd.pk, u.file, u.call, cd.fd, calleeContent, content)
					if !ok {
						// the call sits inside a larger expression (return f(x), nil / if f(x) {):
						// give it a statement of its own first, the next round inlines that
						nc, ok = hoistCall(fset, u.file, u.call, content)
					}
					if !ok {
						// the call is the right operand of && / ||: split the short-circuit
						// into control flow first (if a && f(x) {B}  =>  if a { if f(x) {B} })
						nc, ok = splitShortCircuit(fset, u.file, u.call, content)
					}
					if !ok {
						failed[cd.name] = true
						break
					}
					overlay[path] = nc
					okAny = true
					break
				}
				overlay[path] = res.Content
				okAny = true
				// the callee file changed if it is the same file: stop and reload
				break
			}
			if okAny {
				progressed = true
				break
			}
		}
		if !progressed {
			break
		}
	}
	if len(overlay) == 0 {
		return nil, nil, nil
	}
	sort.Strings(done)
	return overlay, done, nil
}

func declStart(fd *ast.FuncDecl) token.Pos {
	if fd.Doc != nil {
		return fd.Doc.Pos()
	}
	return fd.Pos()
}

func fileContent(path string, overlay map[string][]byte) ([]byte, error) {
	if c, ok := overlay[path]; ok {
		return c, nil
	}
	return os.ReadFile(path)
}

// writeOverlay materialises the overlay for `go build -overlay`.
func writeOverlay(overlay map[string][]byte) (string, func(), error) {
	dir, err := os.MkdirTemp("", "vsa-overlay-")
	if err != nil {
		return "", nil, err
	}
	repl := map[string]string{}
	i := 0
	for path, content := range overlay {
		f := filepath.Join(dir, fmt.Sprintf("f%d_%s", i, filepath.Base(path)))
		i++
		if err := os.WriteFile(f, content, 0o644); err != nil {
			os.RemoveAll(dir)
			return "", nil, err
		}
		repl[path] = f
	}
	b, _ := json.Marshal(map[string]any{"Replace": repl})
	js := filepath.Join(dir, "overlay.json")
	if err := os.WriteFile(js, b, 0o644); err != nil {
		os.RemoveAll(dir)
		return "", nil, err
	}
	return js, func() { os.RemoveAll(dir) }, nil
}

var _ = bytes.MinRead

// ---------------------------------------------------------------------------
// Fallback inliner for calls the x/tools inliner can only "literalize": a call
// that is the whole right-hand side of an assignment / if-init / expression
// statement / return is replaced by
//
//	var r0 T0 ...
//	{ params := args; <body, every `return e` -> { r0 = e; goto end }> }
//	end: <original statement with the call replaced by r0>
//
// which go/ssa turns into plain jumps. Helpers with defer, recover, named
// results, variadic parameters, or whose package-level names would be shadowed
// at the call site are left alone.

var gotoSeq int

func gotoInline(fset *token.FileSet, pk *packages.Package, callerFile *ast.File, call *ast.CallExpr, fd *ast.FuncDecl, calleeContent, callerContent []byte) ([]byte, bool) {
	info := pk.TypesInfo
	obj, _ := info.Defs[fd.Name].(*types.Func)
	if obj == nil {
		return nil, false
	}
	sig := obj.Type().(*types.Signature)
	if sig.Variadic() {
		return nil, false
	}
	// reject defer / recover / named results / nested func literals containing return rewriting issues
	bad := false
	// named results become locals of the inlined block; a bare return yields them
	var named []string
	var namedDecl strings.Builder
	if fd.Type.Results != nil {
		ri := 0
		for _, f := range fd.Type.Results.List {
			for _, n := range f.Names {
				named = append(named, n.Name)
				fmt.Fprintf(&namedDecl, "var %s %s\n_ = %s\n", n.Name, types.TypeString(sig.Results().At(ri).Type(), func(p *types.Package) string {
					if p == pk.Types {
						return ""
					}
					return p.Name()
				}), n.Name)
				ri++
			}
		}
		if len(named) > 0 && len(named) != sig.Results().Len() {
			bad = true
		}
		for _, n := range named {
			if n == "_" {
				bad = true
			}
		}
	}
	ast.Inspect(fd.Body, func(n ast.Node) bool {
		switch x := n.(type) {
		case *ast.FuncLit:
			// statements of a nested function literal belong to that function
			return false
		case *ast.DeferStmt, *ast.GoStmt, *ast.LabeledStmt, *ast.BranchStmt:
			if b, ok := x.(*ast.BranchStmt); ok && b.Label == nil {
				return true
			}
			bad = true
		case *ast.CallExpr:
			if id, ok := x.Fun.(*ast.Ident); ok && id.Name == "recover" {
				bad = true
			}
		}
		return true
	})
	if bad {
		return nil, false
	}
	// find the statement that consists of the call
	var stmt ast.Stmt
	var list *[]ast.Stmt
	var idx int
	ast.Inspect(callerFile, func(n ast.Node) bool {
		var l *[]ast.Stmt
		switch x := n.(type) {
		case *ast.BlockStmt:
			l = &x.List
		case *ast.CaseClause:
			l = &x.Body
		case *ast.CommClause:
			l = &x.Body
		}
		if l != nil {
			for i, s := range *l {
				if s.Pos() <= call.Pos() && call.End() <= s.End() && wholeCall(s, call) {
					stmt, list, idx = s, l, i
				}
			}
		}
		return true
	})
	if stmt == nil {
		return nil, false
	}
	_ = list
	_ = idx
	// package-level names used by the body must not be shadowed at the call site
	scope := pk.Types.Scope().Innermost(call.Pos())
	shadow := false
	ast.Inspect(fd.Body, func(n ast.Node) bool {
		id, ok := n.(*ast.Ident)
		if !ok {
			return true
		}
		o := info.Uses[id]
		if o == nil || o.Parent() == nil {
			return true
		}
		if o.Parent() == pk.Types.Scope() || o.Parent() == types.Universe || isFileScope(pk, o) {
			if scope != nil {
				if _, found := scope.LookupParent(id.Name, call.Pos()); found != nil && found != o {
					shadow = true
				}
			}
		}
		return true
	})
	if shadow {
		return nil, false
	}
	gotoSeq++
	suffix := fmt.Sprintf("_vsa%d", gotoSeq)
	qual := func(p *types.Package) string {
		if p == pk.Types {
			return ""
		}
		return p.Name()
	}
	// result variables
	var pre strings.Builder
	var rnames []string
	for i := 0; i < sig.Results().Len(); i++ {
		rn := fmt.Sprintf("r%d%s", i, suffix)
		rnames = append(rnames, rn)
		fmt.Fprintf(&pre, "var %s %s\n", rn, types.TypeString(sig.Results().At(i).Type(), qual))
	}
	pre.WriteString("{\n")
	// receiver and parameters
	var lhs, rhs []string
	off := func(p token.Pos) int { return fset.Position(p).Offset }
	if fd.Recv != nil && len(fd.Recv.List) == 1 {
		se, ok := call.Fun.(*ast.SelectorExpr)
		if !ok {
			return nil, false
		}
		rname := "_"
		if len(fd.Recv.List[0].Names) == 1 {
			rname = fd.Recv.List[0].Names[0].Name
		}
		recvSrc := string(callerContent[off(se.X.Pos()):off(se.X.End())])
		// pointer receiver called on an addressable value: take its address
		if _, isPtr := sig.Recv().Type().(*types.Pointer); isPtr {
			if tv, ok := info.Types[se.X]; ok {
				if _, argPtr := tv.Type.Underlying().(*types.Pointer); !argPtr {
					recvSrc = "&" + recvSrc
				}
			}
		} else if tv, ok := info.Types[se.X]; ok {
			if _, argPtr := tv.Type.Underlying().(*types.Pointer); argPtr {
				recvSrc = "*" + recvSrc
			}
		}
		lhs, rhs = append(lhs, rname), append(rhs, recvSrc)
	}
	k := 0
	for _, f := range fd.Type.Params.List {
		names := f.Names
		if len(names) == 0 {
			names = []*ast.Ident{{Name: "_"}}
		}
		for _, n := range names {
			if k >= len(call.Args) {
				return nil, false
			}
			a := call.Args[k]
			src := string(callerContent[off(a.Pos()):off(a.End())])
			// keep the parameter's declared type (untyped constants, interface conversions)
			pt := types.TypeString(sig.Params().At(k).Type(), qual)
			lhs, rhs = append(lhs, n.Name), append(rhs, "("+pt+")("+src+")")
			k++
		}
	}
	if k != len(call.Args) {
		return nil, false
	}
	allBlank := true
	for _, l := range lhs {
		if l != "_" {
			allBlank = false
		}
	}
	if len(lhs) > 0 {
		op := ":="
		if allBlank {
			op = "="
		}
		fmt.Fprintf(&pre, "%s %s %s\n", strings.Join(lhs, ", "), op, strings.Join(rhs, ", "))
		for _, l := range lhs {
			if l != "_" {
				fmt.Fprintf(&pre, "_ = %s\n", l)
			}
		}
	}
	// body with returns rewritten (not inside nested function literals)
	type edit struct {
		from, to int
		text     string
	}
	var edits []edit
	var walk func(n ast.Node)
	walk = func(n ast.Node) {
		ast.Inspect(n, func(m ast.Node) bool {
			switch x := m.(type) {
			case *ast.FuncLit:
				return false
			case *ast.ReturnStmt:
				var t string
				if len(x.Results) == 0 && len(named) > 0 {
					t = "{ " + strings.Join(rnames, ", ") + " = " + strings.Join(named, ", ") + "; goto end" + suffix + " }"
				} else if len(x.Results) == 0 {
					t = "{ goto end" + suffix + " }"
				} else {
					var rs []string
					for _, r := range x.Results {
						rs = append(rs, string(calleeContent[off(r.Pos()):off(r.End())]))
					}
					t = "{ " + strings.Join(rnames, ", ") + " = " + strings.Join(rs, ", ") + "; goto end" + suffix + " }"
				}
				edits = append(edits, edit{off(x.Pos()), off(x.End()), t})
				return false
			}
			return true
		})
	}
	walk(fd.Body)
	bodyStart, bodyEnd := off(fd.Body.Lbrace)+1, off(fd.Body.Rbrace)
	body := string(calleeContent[bodyStart:bodyEnd])
	sort.Slice(edits, func(i, j int) bool { return edits[i].from > edits[j].from })
	for _, e := range edits {
		body = body[:e.from-bodyStart] + e.text + body[e.to-bodyStart:]
	}
	pre.WriteString(namedDecl.String())
	pre.WriteString(body)
	if len(named) > 0 {
		// falling off the end is impossible for a function with results, but keep the block well-formed
	}
	pre.WriteString("\n}\n")
	// the original statement with the call replaced by the result variables
	stmtSrc := string(callerContent[off(stmt.Pos()):off(stmt.End())])
	cs, ce := off(call.Pos())-off(stmt.Pos()), off(call.End())-off(stmt.Pos())
	repl := strings.Join(rnames, ", ")
	var tail string
	if _, isExpr := stmt.(*ast.ExprStmt); isExpr {
		tail = "end" + suffix + ":\n;\n"
		if len(rnames) > 0 {
			tail = "end" + suffix + ":\n_ = " + rnames[0] + "\n"
		}
	} else {
		if len(rnames) == 0 {
			return nil, false
		}
		tail = "end" + suffix + ":\n" + stmtSrc[:cs] + repl + stmtSrc[ce:] + "\n"
	}
	out := string(callerContent[:off(stmt.Pos())]) + pre.String() + tail + string(callerContent[off(stmt.End()):])
	fmtd, err := format.Source([]byte(out))
	if err != nil {
		return nil, false
	}
	return fmtd, true
}

func isFileScope(pk *packages.Package, o types.Object) bool {
	_, isPkgName := o.(*types.PkgName)
	return isPkgName
}

// wholeCall: the statement's only "payload" is the call: x := call, x = call,
// if x := call; ..., call, return call.
func wholeCall(s ast.Stmt, call *ast.CallExpr) bool {
	switch x := s.(type) {
	case *ast.ExprStmt:
		return x.X == call
	case *ast.AssignStmt:
		return len(x.Rhs) == 1 && x.Rhs[0] == call
	case *ast.ReturnStmt:
		return len(x.Results) == 1 && x.Results[0] == call
	case *ast.IfStmt:
		if as, ok := x.Init.(*ast.AssignStmt); ok {
			return len(as.Rhs) == 1 && as.Rhs[0] == call
		}
	}
	return false
}

var hoistSeq int

// hoistCall rewrites the statement S containing call so that the call becomes
// `vsaHn := call` immediately before S and S uses vsaHn instead. It applies
// only when the call is the first thing S evaluates that could have an effect
// (everything evaluated before it is an identifier, literal, selector or an
// operator over those) and is not under the right operand of && / ||, so the
// order of evaluation is unchanged.
func hoistCall(fset *token.FileSet, file *ast.File, call *ast.CallExpr, content []byte) ([]byte, bool) {
	var stmt ast.Stmt
	ast.Inspect(file, func(n ast.Node) bool {
		var l []ast.Stmt
		switch x := n.(type) {
		case *ast.BlockStmt:
			l = x.List
		case *ast.CaseClause:
			l = x.Body
		case *ast.CommClause:
			l = x.Body
		}
		for _, s := range l {
			if s.Pos() <= call.Pos() && call.End() <= s.End() {
				stmt = s
			}
		}
		return true
	})
	if stmt == nil || wholeCall(stmt, call) {
		return nil, false
	}
	var roots []ast.Expr
	switch x := stmt.(type) {
	case *ast.ReturnStmt:
		roots = x.Results
	case *ast.ExprStmt:
		roots = []ast.Expr{x.X}
	case *ast.AssignStmt:
		if x.Tok == token.DEFINE || x.Tok == token.ASSIGN {
			for _, l := range x.Lhs {
				if !simpleExpr(l) {
					return nil, false
				}
			}
			roots = x.Rhs
		}
	case *ast.IfStmt:
		if x.Init == nil {
			roots = []ast.Expr{x.Cond}
		}
	case *ast.SwitchStmt:
		if x.Init == nil && x.Tag != nil {
			roots = []ast.Expr{x.Tag}
		}
	}
	if roots == nil {
		return nil, false
	}
	// the call must be reached before anything non-simple is evaluated
	found := false
	var first func(e ast.Expr) bool // true: keep going (e fully simple); sets found when the call is the next effect
	first = func(e ast.Expr) bool {
		if found {
			return false
		}
		if e == ast.Expr(call) {
			found = true
			return false
		}
		if !(e.Pos() <= call.Pos() && call.End() <= e.End()) {
			return simpleExpr(e)
		}
		switch x := e.(type) {
		case *ast.ParenExpr:
			return first(x.X)
		case *ast.UnaryExpr:
			if x.Op == token.ARROW {
				return false
			}
			return first(x.X)
		case *ast.StarExpr:
			return first(x.X)
		case *ast.BinaryExpr:
			if !first(x.X) {
				return false
			}
			if x.Op == token.LAND || x.Op == token.LOR {
				return false // the right operand is evaluated conditionally
			}
			return first(x.Y)
		case *ast.SelectorExpr:
			return first(x.X)
		case *ast.IndexExpr:
			return first(x.X) && first(x.Index)
		case *ast.CallExpr:
			if !first(x.Fun) {
				return false
			}
			for _, a := range x.Args {
				if !first(a) {
					return false
				}
			}
			return false // the outer call itself is an effect
		case *ast.KeyValueExpr:
			return first(x.Value)
		case *ast.CompositeLit:
			for _, el := range x.Elts {
				if !first(el) {
					return false
				}
			}
			return true
		}
		return false
	}
	for _, r := range roots {
		if !first(r) {
			break
		}
	}
	if !found {
		return nil, false
	}
	hoistSeq++
	tmp := fmt.Sprintf("vsaH%d", hoistSeq)
	so, eo := fset.Position(stmt.Pos()).Offset, fset.Position(stmt.End()).Offset
	co, ce := fset.Position(call.Pos()).Offset, fset.Position(call.End()).Offset
	if !(so <= co && ce <= eo && eo <= len(content)) {
		return nil, false
	}
	var sb bytes.Buffer
	sb.Write(content[:so])
	sb.WriteString(tmp + " := ")
	sb.Write(content[co:ce])
	sb.WriteString("\n")
	sb.Write(content[so:co])
	sb.WriteString(tmp)
	sb.Write(content[ce:])
	out := sb.Bytes()
	if f, err := format.Source(out); err == nil {
		out = f
	}
	return out, true
}

// simpleExpr: evaluating e has no effect and cannot observe one (identifiers,
// literals, selectors, and arithmetic / comparison over those).
func simpleExpr(e ast.Expr) bool {
	switch x := e.(type) {
	case nil:
		return true
	case *ast.Ident, *ast.BasicLit:
		return true
	case *ast.ParenExpr:
		return simpleExpr(x.X)
	case *ast.SelectorExpr:
		return simpleExpr(x.X)
	case *ast.UnaryExpr:
		return x.Op != token.ARROW && simpleExpr(x.X)
	case *ast.BinaryExpr:
		return simpleExpr(x.X) && simpleExpr(x.Y)
	case *ast.StarExpr:
		return simpleExpr(x.X)
	}
	return false
}

// ScanDeclsFull is scanDeclsFull for the command line.
func ScanDeclsFull(repo string) (map[string][]string, map[string][]string, map[string]string, error) {
	return scanDeclsFull(repo)
}

// splitShortCircuit rewrites the statement containing call when the call sits in the
// right operand of the statement's top-level && or ||, so that the call becomes
// the whole condition / result of a statement of its own:
//
//	if X && Y { B }      =>  if X { if Y { B } }          (no else, no init)
//	return X && Y        =>  if !(X) { return false }; return Y
//	return X || Y        =>  if X { return true }; return Y
//
// Evaluation order and short-circuiting are unchanged.
func splitShortCircuit(fset *token.FileSet, file *ast.File, call *ast.CallExpr, content []byte) ([]byte, bool) {
	var stmt ast.Stmt
	ast.Inspect(file, func(n ast.Node) bool {
		var l []ast.Stmt
		switch x := n.(type) {
		case *ast.BlockStmt:
			l = x.List
		case *ast.CaseClause:
			l = x.Body
		case *ast.CommClause:
			l = x.Body
		}
		for _, s := range l {
			if s.Pos() <= call.Pos() && call.End() <= s.End() {
				stmt = s
			}
		}
		return true
	})
	if stmt == nil {
		return nil, false
	}
	off := func(p token.Pos) int { return fset.Position(p).Offset }
	src := func(n ast.Node) string { return string(content[off(n.Pos()):off(n.End())]) }
	unparen := func(e ast.Expr) ast.Expr {
		for {
			p, ok := e.(*ast.ParenExpr)
			if !ok {
				return e
			}
			e = p.X
		}
	}
	inside := func(e ast.Expr) bool { return e.Pos() <= call.Pos() && call.End() <= e.End() }
	var repl string
	switch x := stmt.(type) {
	case *ast.IfStmt:
		be, ok := unparen(x.Cond).(*ast.BinaryExpr)
		if !ok || be.Op != token.LAND || x.Else != nil || x.Init != nil || !inside(be.Y) {
			return nil, false
		}
		repl = "if " + src(be.X) + " {\nif " + src(be.Y) + " " + src(x.Body) + "\n}"
	case *ast.ReturnStmt:
		if len(x.Results) != 1 {
			return nil, false
		}
		be, ok := unparen(x.Results[0]).(*ast.BinaryExpr)
		if !ok || !inside(be.Y) {
			return nil, false
		}
		switch be.Op {
		case token.LAND:
			repl = "if !(" + src(be.X) + ") {\nreturn false\n}\nreturn " + src(be.Y)
		case token.LOR:
			repl = "if " + src(be.X) + " {\nreturn true\n}\nreturn " + src(be.Y)
		default:
			return nil, false
		}
	default:
		return nil, false
	}
	out := string(content[:off(stmt.Pos())]) + repl + string(content[off(stmt.End()):])
	f, err := format.Source([]byte(out))
	if err != nil {
		return nil, false
	}
	return f, true
}
