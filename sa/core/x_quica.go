package core

import (
	"fmt"
	"go/ast"
	"go/constant"
	"go/token"
	"go/types"
	"sort"
	"strings"

	"golang.org/x/tools/go/ssa"
)

// Helpers added for the quic rule files (C19-C21, C25-C27). Nothing here
// changes the behaviour of the existing engines.

// qaResultAllocs maps the result slots of fn that are returned through a
// local (named results, or the synthetic slot go/ssa creates when the
// function has a defer) to those locals.
func qaResultAllocs(fn *ssa.Function) map[int]map[*ssa.Alloc]bool {
	out := map[int]map[*ssa.Alloc]bool{}
	eachInstr(fn, func(in ssa.Instruction) {
		r, ok := in.(*ssa.Return)
		if !ok {
			return
		}
		for i, v := range r.Results {
			if u, ok := v.(*ssa.UnOp); ok && u.Op == token.MUL {
				if a, ok := u.X.(*ssa.Alloc); ok {
					if out[i] == nil {
						out[i] = map[*ssa.Alloc]bool{}
					}
					out[i][a] = true
				}
			}
		}
	})
	return out
}

// QaResultIs selects the places where result i of the function is given a
// value rendering as term: a return instruction carrying it directly, or a
// store into the result slot (functions with named results or a defer).
func QaResultIs(i int, term string) Sel {
	return Sel{fmt.Sprintf("result #%d=%s", i, term), func(p *Prog, fn *ssa.Function) []ssa.Instruction {
		var out []ssa.Instruction
		ra := qaResultAllocs(fn)
		eachInstr(fn, func(in ssa.Instruction) {
			switch x := in.(type) {
			case *ssa.Return:
				if i < len(x.Results) && Term(x.Results[i]) == term {
					out = append(out, in)
				}
			case *ssa.Store:
				if a, ok := x.Addr.(*ssa.Alloc); ok && ra[i][a] && Term(x.Val) == term {
					out = append(out, in)
				}
			}
		})
		return out
	}}
}

// QaResultNilErr selects the places where the error result becomes nil.
func QaResultNilErr() Sel {
	return Sel{"error result = nil", func(p *Prog, fn *ssa.Function) []ssa.Instruction {
		res := fn.Signature.Results()
		for i := res.Len() - 1; i >= 0; i-- {
			if isErrorType(res.At(i).Type()) {
				return QaResultIs(i, "nil").F(p, fn)
			}
		}
		return nil
	}}
}

// QaGuardAny: every selected site is dominated by branch edges establishing
// all atoms of at least one alternative.
func (c *Ctx) QaGuardAny(fnName string, sel Sel, alts ...[]string) bool {
	rule := "guard-before"
	var names []string
	for _, a := range alts {
		names = append(names, stripSpaces(strings.Join(a, "&&")))
	}
	construct := fmt.Sprintf("%s: [%s] under %s", fnName, sel.Name, strings.Join(names, " or "))
	_, ins := c.sites(rule, fnName, sel)
	if ins == nil {
		return false
	}
	var parsed [][]Atom
	for _, a := range alts {
		as, ok := c.atoms(rule, construct, a)
		if !ok {
			return false
		}
		parsed = append(parsed, as)
	}
	for _, in := range ins {
		fs := FactsAtInstr(in)
		good := false
		for _, as := range parsed {
			all := true
			for _, a := range as {
				if !holds(fs, a, true) {
					all = false
					break
				}
			}
			if all {
				good = true
				break
			}
		}
		if !good && guardedByPaths(in.Parent(), parsed, ins) {
			good = true
		}
		if !good {
			c.Fail(rule, construct, InstrPos(in), fmt.Sprintf("site `%s` is not dominated by any of the required tests; facts here: {%s}", DescribeInstr(in), factStrings(fs)))
			return false
		}
	}
	c.OK(rule, construct, fmt.Sprintf("%d site(s)", len(ins)))
	return true
}

// QaIsLoadOf is a predicate: the value is a load of the named field.
func (p *Prog) QaIsLoadOf(field string) func(ssa.Value) bool {
	fv := p.Field(field)
	return func(v ssa.Value) bool {
		if fv == nil {
			return false
		}
		switch x := v.(type) {
		case *ssa.UnOp:
			return x.Op == token.MUL && fieldOfAddr(x.X) == fv
		case *ssa.Field:
			if st, ok := x.X.Type().Underlying().(*types.Struct); ok && x.Field < st.NumFields() {
				return st.Field(x.Field) == fv
			}
		}
		return false
	}
}

// QaIsAddrOf is a predicate: the value is the address of the named field.
func (p *Prog) QaIsAddrOf(field string) func(ssa.Value) bool {
	fv := p.Field(field)
	return func(v ssa.Value) bool { return fv != nil && fieldOfAddr(v) == fv }
}

// QaPaired: every `a` site is accompanied by a `b` site on the same path, in
// either order: it is dominated by a b site or every path from it to a
// normal return passes a b site.
func (c *Ctx) QaPaired(fnName string, a, b Sel) bool {
	rule := "paired"
	construct := fmt.Sprintf("%s: every [%s] has a [%s] on the same path", fnName, a.Name, b.Name)
	fn, ins := c.sites(rule, fnName, a)
	if ins == nil {
		return false
	}
	bs := b.F(c.P, fn)
	if len(bs) == 0 {
		c.Fail(rule, construct, fn.Pos(), "no ["+b.Name+"] site in this function")
		return false
	}
	barriers := instrSet(bs)
	rets := instrSet(Returns().F(c.P, fn))
	for _, in := range ins {
		pi := posOf(in)
		dom := false
		for _, f := range bs {
			pf := posOf(f)
			if pf.b == pi.b && pf.i < pi.i || pf.b != pi.b && pf.b.Dominates(pi.b) {
				dom = true
				break
			}
		}
		if dom {
			continue
		}
		if r, reach := canReach(pi, false, rets, barriers); reach {
			c.Fail(rule, construct, InstrPos(in), fmt.Sprintf("`%s` is neither preceded by [%s] nor followed by it on the path to the return at %s", DescribeInstr(in), b.Name, c.P.Pos(InstrPos(r))))
			return false
		}
	}
	c.OK(rule, construct, fmt.Sprintf("%d site(s)", len(ins)))
	return true
}

// QaConstSet evaluates v to the finite set of integer constants it can take
// (constants, phis, conversions, | & &^ + of such sets). ok=false when v is
// not of that form.
func QaConstSet(v ssa.Value) (map[int64]bool, bool) {
	return qaConstSet(v, map[ssa.Value]bool{}, 0)
}

func qaConstSet(v ssa.Value, busy map[ssa.Value]bool, d int) (map[int64]bool, bool) {
	if d > 12 {
		return nil, false
	}
	switch x := v.(type) {
	case *ssa.Const:
		if x.Value == nil || x.Value.Kind() != constant.Int {
			if x.Value == nil && isIntegral(x.Type()) {
				return map[int64]bool{0: true}, true
			}
			return nil, false
		}
		i, ok := constant.Int64Val(x.Value)
		return map[int64]bool{i: true}, ok
	case *ssa.Convert:
		return qaConstSet(x.X, busy, d+1)
	case *ssa.ChangeType:
		return qaConstSet(x.X, busy, d+1)
	case *ssa.Phi:
		if busy[x] {
			return map[int64]bool{}, true
		}
		busy[x] = true
		defer delete(busy, x)
		out := map[int64]bool{}
		for _, e := range x.Edges {
			s, ok := qaConstSet(e, busy, d+1)
			if !ok {
				return nil, false
			}
			for k := range s {
				out[k] = true
			}
		}
		return out, true
	case *ssa.BinOp:
		a, ok1 := qaConstSet(x.X, busy, d+1)
		b, ok2 := qaConstSet(x.Y, busy, d+1)
		if !ok1 || !ok2 || len(a)*len(b) > 256 {
			return nil, false
		}
		out := map[int64]bool{}
		for i := range a {
			for j := range b {
				switch x.Op {
				case token.OR:
					out[i|j] = true
				case token.AND:
					out[i&j] = true
				case token.AND_NOT:
					out[i&^j] = true
				case token.ADD:
					out[i+j] = true
				case token.XOR:
					out[i^j] = true
				default:
					return nil, false
				}
			}
		}
		return out, true
	}
	return nil, false
}

// QaSortedInts renders a set in ascending order as hexadecimal numbers.
func QaSortedInts(s map[int64]bool) string {
	var ks []int64
	for k := range s {
		ks = append(ks, k)
	}
	sort.Slice(ks, func(i, j int) bool { return ks[i] < ks[j] })
	var ss []string
	for _, k := range ks {
		ss = append(ss, fmt.Sprintf("%#x", k))
	}
	return strings.Join(ss, ",")
}

// QaByteSwitch describes one case clause of an expression switch over a
// non-enum value: the constant case values and the clause body.
type QaByteSwitch struct {
	Vals map[int64]bool
	Body []ast.Stmt
}

// QaSwitchOnCall returns the clauses of the first expression switch in fnName
// whose tag (or init statement value) is a call of a method named method.
func (p *Prog) QaSwitchOnCall(fnName, method string) (clauses []QaByteSwitch, hasDefault bool, found bool) {
	fn := p.Fn(fnName)
	if fn == nil || fn.Syntax() == nil {
		return nil, false, false
	}
	pk := p.PkgOfFn(fn)
	isCall := func(e ast.Expr) bool {
		ce, ok := ast.Unparen(e).(*ast.CallExpr)
		if !ok {
			return false
		}
		se, ok := ce.Fun.(*ast.SelectorExpr)
		return ok && se.Sel.Name == method
	}
	ast.Inspect(fn.Syntax(), func(n ast.Node) bool {
		sw, ok := n.(*ast.SwitchStmt)
		if !ok || found {
			return !found
		}
		match := false
		if sw.Tag != nil && isCall(sw.Tag) {
			match = true
		}
		if as, ok := sw.Init.(*ast.AssignStmt); ok && len(as.Rhs) == 1 && isCall(as.Rhs[0]) {
			if id, ok := ast.Unparen(sw.Tag).(*ast.Ident); ok && len(as.Lhs) == 1 {
				if l, ok := as.Lhs[0].(*ast.Ident); ok && l.Name == id.Name {
					match = true
				}
			}
		}
		if !match {
			return true
		}
		found = true
		for _, cl := range sw.Body.List {
			cc := cl.(*ast.CaseClause)
			if cc.List == nil {
				hasDefault = true
				continue
			}
			bs := QaByteSwitch{Vals: map[int64]bool{}, Body: cc.Body}
			for _, e := range cc.List {
				if tv, ok := pk.TypesInfo.Types[e]; ok && tv.Value != nil {
					if i, ok := constant.Int64Val(constant.ToInt(tv.Value)); ok {
						bs.Vals[i] = true
					}
				}
			}
			clauses = append(clauses, bs)
		}
		return false
	})
	return clauses, hasDefault, found
}

// QaMethodCallsIn lists, in source order, the names of methods among names
// that the statements call (selector calls x.name(...)), closures excluded.
func QaMethodCallsIn(body []ast.Stmt, names ...string) []string {
	want := map[string]bool{}
	for _, n := range names {
		want[n] = true
	}
	type hit struct {
		pos  token.Pos
		name string
	}
	var hits []hit
	for _, st := range body {
		ast.Inspect(st, func(n ast.Node) bool {
			if _, ok := n.(*ast.FuncLit); ok {
				return false
			}
			if ce, ok := n.(*ast.CallExpr); ok {
				if se, ok := ce.Fun.(*ast.SelectorExpr); ok && want[se.Sel.Name] {
					hits = append(hits, hit{ce.Pos(), se.Sel.Name})
				}
			}
			return true
		})
	}
	sort.Slice(hits, func(i, j int) bool { return hits[i].pos < hits[j].pos })
	var out []string
	for _, h := range hits {
		out = append(out, h.name)
	}
	return out
}

// qaFieldLin is the linear form consisting of the location addr denotes.
func qaFieldLin(addr ssa.Value) Lin {
	r := &renderer{phis: map[*ssa.Phi]bool{}}
	return Lin{Coef: map[string]int64{r.deref(addr): 1}}
}

// qaIsLoadFrom reports whether v loads the location addr denotes (same
// canonical rendering).
func qaIsLoadFrom(v ssa.Value, addr ssa.Value) bool {
	u, ok := v.(*ssa.UnOp)
	if !ok || u.Op != token.MUL {
		return false
	}
	r := &renderer{phis: map[*ssa.Phi]bool{}}
	r2 := &renderer{phis: map[*ssa.Phi]bool{}}
	return r.deref(u.X) == r2.deref(addr)
}

// qaBuiltinCall returns the arguments when v is a call of the named builtin.
func qaBuiltinCall(v ssa.Value, name string) ([]ssa.Value, bool) {
	c, ok := v.(*ssa.Call)
	if !ok {
		return nil, false
	}
	b, ok := c.Call.Value.(*ssa.Builtin)
	if !ok || b.Name() != name {
		return nil, false
	}
	return c.Call.Args, true
}

func qaStripConv(v ssa.Value) ssa.Value {
	for {
		switch x := v.(type) {
		case *ssa.Convert:
			v = x.X
		case *ssa.ChangeType:
			v = x.X
		default:
			return v
		}
	}
}

// QaStoreShape classifies how a store updates its location.
//
//	"max"      new = max(old, …)
//	"guarded"  the store is dominated by the test new > old
//	"inc"      new = old + positive constant
//	"add:T"    new = old + T (T in linear normal form; sign of T not decided)
//	"sub:T"    new = old − T
//	"dec-floor0:T" new = max(0, old − T)
//	"const:K"  new is the constant K
//	"other"
func QaStoreShape(st *ssa.Store) string {
	v := qaStripConv(st.Val)
	if args, ok := qaBuiltinCall(v, "max"); ok {
		for _, a := range args {
			if qaIsLoadFrom(qaStripConv(a), st.Addr) {
				return "max"
			}
		}
		// max(0, old - T)
		if len(args) == 2 {
			for i, a := range args {
				if s, ok := QaConstSet(a); ok && len(s) == 1 && s[0] {
					if b, ok := qaStripConv(args[1-i]).(*ssa.BinOp); ok && b.Op == token.SUB && qaIsLoadFrom(qaStripConv(b.X), st.Addr) {
						return "dec-floor0:" + Term(b.Y)
					}
				}
			}
		}
	}
	// guarded by new > old :  old - new + 1 <= 0
	want := qaFieldLin(st.Addr).add(Linearize(st.Val), -1)
	want.K++
	if holds(FactsAtInstr(st), Atom{Kind: LE, L: want}, true) {
		return "guarded"
	}
	if b, ok := v.(*ssa.BinOp); ok && b.Op == token.ADD {
		for i, side := range []ssa.Value{b.X, b.Y} {
			if qaIsLoadFrom(qaStripConv(side), st.Addr) {
				other := []ssa.Value{b.Y, b.X}[i]
				if s, ok := QaConstSet(other); ok && len(s) == 1 {
					for k := range s {
						if k > 0 {
							return "inc"
						}
					}
				}
				return "add:" + Linearize(other).String()
			}
		}
	}
	if b, ok := v.(*ssa.BinOp); ok && b.Op == token.SUB && qaIsLoadFrom(qaStripConv(b.X), st.Addr) {
		return "sub:" + Linearize(b.Y).String()
	}
	if s, ok := QaConstSet(v); ok && len(s) == 1 {
		for k := range s {
			return fmt.Sprintf("const:%d", k)
		}
	}
	return "other"
}

// QaStoreShapes: every store to field inside fnName has one of the allowed
// shapes (see QaStoreShape; an allowed entry ending in ":" matches any suffix).
func (c *Ctx) QaStoreShapes(fnName, field string, allowed ...string) bool {
	rule := "store-shape"
	construct := fmt.Sprintf("%s: stores to %s are of shape {%s}", fnName, field, strings.Join(allowed, ", "))
	_, ins := c.sites(rule, fnName, Stores(field))
	if ins == nil {
		return false
	}
	var got []string
	for _, in := range ins {
		sh := QaStoreShape(in.(*ssa.Store))
		ok := false
		for _, a := range allowed {
			if sh == a || strings.HasSuffix(a, ":") && strings.HasPrefix(sh, a) {
				ok = true
			}
		}
		if !ok {
			c.Fail(rule, construct, InstrPos(in), fmt.Sprintf("store `%s` has shape %q", DescribeInstr(in), sh))
			return false
		}
		got = append(got, sh)
	}
	c.OK(rule, construct, strings.Join(got, "; "))
	return true
}

// QaUnder filters a selector to the sites whose block is dominated by a
// branch establishing the atom.
func (c *Ctx) QaUnder(s Sel, spec string) Sel {
	return Sel{s.Name + " under " + stripSpaces(spec), func(p *Prog, fn *ssa.Function) []ssa.Instruction {
		a, err := p.ParseAtom(spec)
		if err != nil {
			return nil
		}
		var out []ssa.Instruction
		for _, in := range s.F(p, fn) {
			if holds(FactsAtInstr(in), a, true) {
				out = append(out, in)
			}
		}
		return out
	}}
}

// QaReachableFrom is Reachable keyed by function name.
func (p *Prog) QaReachableFrom(entries ...string) (map[string]bool, []string) {
	m, missing := p.Reachable(entries, nil)
	out := map[string]bool{}
	for f := range m {
		out[FnName(f)] = true
	}
	return out, missing
}

// QaCallsInOrder lists the call instructions of fn (closures excluded) in
// block/instruction order restricted to the named callees.
func (p *Prog) QaCallsInOrder(fn *ssa.Function, names ...string) []*ssa.Call {
	var out []*ssa.Call
	eachInstr(fn, func(in ssa.Instruction) {
		if c, ok := in.(*ssa.Call); ok && matchCallee(&c.Call, names) {
			out = append(out, c)
		}
	})
	sort.SliceStable(out, func(i, j int) bool { return out[i].Pos() < out[j].Pos() })
	return out
}

// QaCallsParam selects calls of the function-typed parameter $i.
func QaCallsParam(i int) Sel {
	want := fmt.Sprintf("$%d", i)
	return Sel{"call of parameter " + want, func(p *Prog, fn *ssa.Function) []ssa.Instruction {
		var out []ssa.Instruction
		eachInstr(fn, func(in ssa.Instruction) {
			if c, ok := in.(*ssa.Call); ok && !c.Call.IsInvoke() {
				if pa, ok := c.Call.Value.(*ssa.Parameter); ok && paramName(pa) == want {
					out = append(out, in)
				}
			}
		})
		return out
	}}
}

// QaMinWith is a predicate: the value is min(…) with an operand rendering as term.
func QaMinWith(term string) func(ssa.Value) bool {
	return func(v ssa.Value) bool {
		args, ok := qaBuiltinCall(qaStripConv(v), "min")
		if !ok {
			return false
		}
		for _, a := range args {
			if Term(a) == term {
				return true
			}
		}
		return false
	}
}

// QaArgSatisfies: argument idx of every selected call itself satisfies pred
// (conversions stripped) — unlike ArgFrom, which searches the whole
// backward closure.
func (c *Ctx) QaArgSatisfies(fnName string, sel Sel, idx int, desc string, pred func(ssa.Value) bool) bool {
	rule := "arg-shape"
	construct := fmt.Sprintf("%s: arg%d of [%s] is %s", fnName, idx, sel.Name, desc)
	_, ins := c.sites(rule, fnName, sel)
	if ins == nil {
		return false
	}
	for _, in := range ins {
		ci, ok := in.(ssa.CallInstruction)
		if !ok || idx >= len(BaselineArgs(ci.Common())) {
			c.Undecided(rule, construct, "site is not a call with that many arguments")
			return false
		}
		if !pred(qaStripConv(BaselineArgs(ci.Common())[idx])) {
			c.Fail(rule, construct, InstrPos(in), fmt.Sprintf("argument `%s` is not %s", Term(BaselineArgs(ci.Common())[idx]), desc))
			return false
		}
	}
	c.OK(rule, construct, fmt.Sprintf("%d site(s)", len(ins)))
	return true
}

// QaStoredSatisfies: the value of every selected store satisfies pred.
func (c *Ctx) QaStoredSatisfies(fnName string, sel Sel, desc string, pred func(ssa.Value) bool) bool {
	rule := "stored-shape"
	construct := fmt.Sprintf("%s: value of [%s] is %s", fnName, sel.Name, desc)
	_, ins := c.sites(rule, fnName, sel)
	if ins == nil {
		return false
	}
	for _, in := range ins {
		st, ok := in.(*ssa.Store)
		if !ok {
			c.Undecided(rule, construct, "site is not a store")
			return false
		}
		if !pred(qaStripConv(st.Val)) {
			c.Fail(rule, construct, InstrPos(in), fmt.Sprintf("stored value `%s` is not %s", Term(st.Val), desc))
			return false
		}
	}
	c.OK(rule, construct, fmt.Sprintf("%d site(s)", len(ins)))
	return true
}

// QaObjOfFieldStore returns the object whose field a store writes (x in x.f = v).
func QaObjOfFieldStore(in ssa.Instruction) ssa.Value {
	if st, ok := in.(*ssa.Store); ok {
		if fa, ok := st.Addr.(*ssa.FieldAddr); ok {
			return fa.X
		}
	}
	return nil
}

// QaSameObjFieldIs reports whether the facts dominating `at` include
// obj.field == k for the object obj (compared by canonical rendering).
func (p *Prog) QaSameObjFieldIs(at ssa.Instruction, obj ssa.Value, field string, k int64) bool {
	i := strings.LastIndex(field, ".")
	r := &renderer{phis: map[*ssa.Phi]bool{}}
	l := Lin{Coef: map[string]int64{r.base(obj) + "." + field[i+1:]: 1}, K: -k}
	return holds(FactsAtInstr(at), Atom{Kind: EQ, L: l}.norm(), true)
}

// QaTypestateStores: every store of one of the constants newVals to field in
// fnName is dominated by the test  <same object>.field == old.
func (c *Ctx) QaTypestateStores(fnName, field string, old int64, newVals ...int64) bool {
	rule := "typestate"
	construct := fmt.Sprintf("%s: %s leaves state %d only from a test of the same object", fnName, field, old)
	_, ins := c.sites(rule, fnName, Stores(field))
	if ins == nil {
		return false
	}
	n := 0
	for _, in := range ins {
		st := in.(*ssa.Store)
		s, ok := QaConstSet(st.Val)
		if !ok {
			c.Fail(rule, construct, InstrPos(in), fmt.Sprintf("store `%s` of a non-constant state", DescribeInstr(in)))
			return false
		}
		hit := false
		for _, v := range newVals {
			if s[v] {
				hit = true
			}
		}
		if !hit {
			continue
		}
		n++
		if !c.P.QaSameObjFieldIs(in, QaObjOfFieldStore(in), field, old) {
			c.Fail(rule, construct, InstrPos(in), fmt.Sprintf("store `%s` is not dominated by a test that the same object is in state %d; facts here: {%s}", DescribeInstr(in), old, factStrings(FactsAtInstr(in))))
			return false
		}
	}
	if n == 0 {
		c.Undecided(rule, construct, "no store of the listed states in this function")
		return false
	}
	c.OK(rule, construct, fmt.Sprintf("%d transition store(s)", n))
	return true
}

// QaSameObjAfter: from every selected field store x.f = v, every path to a
// normal return passes a call of callee whose argument idx is x itself, or
// (when unlessField != "") the branch on which x.unlessField is false.
func (c *Ctx) QaSameObjAfter(fnName string, stores Sel, callee Sel, idx int, unlessField string) bool {
	rule := "call-after"
	construct := fmt.Sprintf("%s: after [%s] always [%s on the same object]", fnName, stores.Name, callee.Name)
	if unlessField != "" {
		construct += " unless !" + unlessField
	}
	fn, ins := c.sites(rule, fnName, stores)
	if ins == nil {
		return false
	}
	rets := instrSet(Returns().F(c.P, fn))
	for _, in := range ins {
		obj := QaObjOfFieldStore(in)
		if obj == nil {
			c.Undecided(rule, construct, "selected site is not a field store")
			return false
		}
		barriers := map[ssa.Instruction]bool{}
		for _, t := range callee.F(c.P, fn) {
			if ci, ok := t.(ssa.CallInstruction); ok && idx < len(BaselineArgs(ci.Common())) && BaselineArgs(ci.Common())[idx] == obj {
				barriers[t] = true
			}
		}
		cut := map[QaCFGEdge]bool{}
		if unlessField != "" {
			pred := c.P.QaIsLoadOf(unlessField)
			eachInstr(fn, func(x ssa.Instruction) {
				ifi, ok := x.(*ssa.If)
				if !ok {
					return
				}
				u, ok := ifi.Cond.(*ssa.UnOp)
				if !ok || !pred(u) {
					return
				}
				if fa, ok := u.X.(*ssa.FieldAddr); ok && fa.X == obj {
					cut[QaCFGEdge{ifi.Block(), ifi.Block().Succs[1]}] = true
				}
			})
		}
		if len(barriers) == 0 {
			c.Fail(rule, construct, InstrPos(in), fmt.Sprintf("no [%s] call takes the object written by `%s`", callee.Name, DescribeInstr(in)))
			return false
		}
		if r := qaReachCut(posOf(in), rets, barriers, cut); r != nil {
			c.Fail(rule, construct, InstrPos(in), fmt.Sprintf("from `%s` the return at %s is reachable without [%s] on the same object", DescribeInstr(in), c.P.Pos(InstrPos(r)), callee.Name))
			return false
		}
	}
	c.OK(rule, construct, fmt.Sprintf("%d store(s)", len(ins)))
	return true
}

// QaCallArgFieldIs: every selected call is dominated by the test
// <argument idx>.field == k.
func (c *Ctx) QaCallArgFieldIs(fnName string, sel Sel, idx int, field string, k int64) bool {
	rule := "guard-before"
	construct := fmt.Sprintf("%s: [%s] under arg%d.%s == %d", fnName, sel.Name, idx, field[strings.LastIndex(field, ".")+1:], k)
	_, ins := c.sites(rule, fnName, sel)
	if ins == nil {
		return false
	}
	for _, in := range ins {
		ci, ok := in.(ssa.CallInstruction)
		if !ok || idx >= len(BaselineArgs(ci.Common())) {
			c.Undecided(rule, construct, "site is not a call with that many arguments")
			return false
		}
		if !c.P.QaSameObjFieldIs(in, BaselineArgs(ci.Common())[idx], field, k) {
			c.Fail(rule, construct, InstrPos(in), fmt.Sprintf("`%s` is not dominated by that test; facts here: {%s}", DescribeInstr(in), factStrings(FactsAtInstr(in))))
			return false
		}
	}
	c.OK(rule, construct, fmt.Sprintf("%d site(s)", len(ins)))
	return true
}

// QaPhiLeaf is one non-phi value reaching a use through phis, together with
// the control-flow edge (From → To) on which it is selected.
type QaPhiLeaf struct {
	V        ssa.Value
	From, To *ssa.BasicBlock
}

// QaPhiLeaves expands v through phis.
func QaPhiLeaves(v ssa.Value) []QaPhiLeaf {
	var out []QaPhiLeaf
	seen := map[*ssa.Phi]bool{}
	var walk func(v ssa.Value, from, to *ssa.BasicBlock)
	walk = func(v ssa.Value, from, to *ssa.BasicBlock) {
		if ph, ok := v.(*ssa.Phi); ok {
			if seen[ph] {
				return
			}
			seen[ph] = true
			for i, e := range ph.Edges {
				walk(e, ph.Block().Preds[i], ph.Block())
			}
			return
		}
		out = append(out, QaPhiLeaf{v, from, to})
	}
	walk(v, nil, nil)
	return out
}

// QaEdgeFacts returns the facts that hold when control passes from → to.
func QaEdgeFacts(from, to *ssa.BasicBlock) []Fact {
	if from == nil {
		return nil
	}
	fs := append([]Fact{}, FactsAt(from)...)
	if len(from.Instrs) > 0 {
		if ifi, ok := from.Instrs[len(from.Instrs)-1].(*ssa.If); ok && from.Succs[0] != from.Succs[1] {
			a := CondAtom(ifi.Cond)
			if from.Succs[0] == to {
				fs = append(fs, Fact{a, ifi})
			} else if from.Succs[1] == to {
				fs = append(fs, Fact{a.Negate(), ifi})
			}
		}
	}
	return fs
}

// QaClampedOrExempt: argument idx of every selected call is, on every phi
// path, either computed from a value satisfying clamp, or selected on a
// control-flow edge on which the atom exempt holds (a stronger fact counts).
func (c *Ctx) QaClampedOrExempt(fnName string, sel Sel, idx int, clampDesc string, clamp func(ssa.Value) bool, exempt string) bool {
	rule := "clamp"
	construct := fmt.Sprintf("%s: arg%d of [%s] is bounded by %s unless %s", fnName, idx, sel.Name, clampDesc, stripSpaces(exempt))
	_, ins := c.sites(rule, fnName, sel)
	if ins == nil {
		return false
	}
	as, ok := c.atoms(rule, construct, []string{exempt})
	if !ok {
		return false
	}
	n := 0
	for _, in := range ins {
		ci, ok := in.(ssa.CallInstruction)
		if !ok || idx >= len(BaselineArgs(ci.Common())) {
			c.Undecided(rule, construct, "site is not a call with that many arguments")
			return false
		}
		for _, lf := range QaPhiLeaves(qaStripConv(BaselineArgs(ci.Common())[idx])) {
			n++
			if DependsOn(lf.V, clamp) {
				continue
			}
			if holds(QaEdgeFacts(lf.From, lf.To), as[0], false) {
				continue
			}
			c.Fail(rule, construct, InstrPos(in), fmt.Sprintf("the value `%s` reaches the call without passing %s and not under %s", Term(lf.V), clampDesc, exempt))
			return false
		}
	}
	c.OK(rule, construct, fmt.Sprintf("%d site(s), %d value path(s)", len(ins), n))
	return true
}

// QaStripConv removes integer/type conversions around v.
func QaStripConv(v ssa.Value) ssa.Value { return qaStripConv(v) }

// QaLinSub returns a − b + k.
func QaLinSub(a, b Lin, k int64) Lin {
	l := a.add(b, -1)
	l.K += k
	return l
}

// QaFactsInclude reports whether the facts dominating `at` include the atom
// exactly (exact) or a fact implying it.
func QaFactsInclude(at ssa.Instruction, a Atom, exact bool) bool {
	return holds(FactsAtInstr(at), a, exact)
}

// QaFieldTest is a branch comparing a field of some object with a constant.
type QaFieldTest struct {
	If     *ssa.If
	Obj    ssa.Value       // x in x.field
	EqSucc *ssa.BasicBlock // successor on which x.field == k
	NeSucc *ssa.BasicBlock
}

// QaFieldTests lists the branches of fn of the form x.field ==/!= k.
func (p *Prog) QaFieldTests(fn *ssa.Function, field string, k int64) []QaFieldTest {
	fv := p.Field(field)
	var out []QaFieldTest
	eachInstr(fn, func(in ssa.Instruction) {
		ifi, ok := in.(*ssa.If)
		if !ok {
			return
		}
		b, ok := ifi.Cond.(*ssa.BinOp)
		if !ok || b.Op != token.EQL && b.Op != token.NEQ {
			return
		}
		for i, side := range []ssa.Value{b.X, b.Y} {
			other := []ssa.Value{b.Y, b.X}[i]
			u, ok := qaStripConv(side).(*ssa.UnOp)
			if !ok || u.Op != token.MUL || fieldOfAddr(u.X) != fv || fv == nil {
				continue
			}
			s, ok := QaConstSet(other)
			if !ok || len(s) != 1 || !s[k] {
				continue
			}
			ft := QaFieldTest{If: ifi, Obj: u.X.(*ssa.FieldAddr).X, EqSucc: ifi.Block().Succs[0], NeSucc: ifi.Block().Succs[1]}
			if b.Op == token.NEQ {
				ft.EqSucc, ft.NeSucc = ft.NeSucc, ft.EqSucc
			}
			out = append(out, ft)
		}
	})
	return out
}

// QaFirstOf is a selector for the first instruction of the given blocks.
func QaFirstOf(name string, blocks ...*ssa.BasicBlock) Sel {
	return Sel{name, func(p *Prog, fn *ssa.Function) []ssa.Instruction {
		var out []ssa.Instruction
		for _, b := range blocks {
			if f := firstInstr(b); f != nil {
				out = append(out, f)
			}
		}
		return out
	}}
}

// QaBetween: no `to` site is reachable from a `from` site without passing a
// `via` site.
func (c *Ctx) QaBetween(fnName string, from, to, via Sel, inclusive bool) bool {
	rule := "pass-through"
	construct := fmt.Sprintf("%s: between [%s] and [%s] always [%s]", fnName, from.Name, to.Name, via.Name)
	fn, ins := c.sites(rule, fnName, from)
	if ins == nil {
		return false
	}
	targets := instrSet(to.F(c.P, fn))
	if len(targets) == 0 {
		c.Undecided(rule, construct, "no ["+to.Name+"] site in this function")
		return false
	}
	barriers := instrSet(via.F(c.P, fn))
	for _, in := range ins {
		if t, reach := canReach(posOf(in), inclusive, targets, barriers); reach {
			c.Fail(rule, construct, InstrPos(in), fmt.Sprintf("from `%s` the site `%s` (%s) is reachable without [%s]", DescribeInstr(in), DescribeInstr(t), c.P.Pos(InstrPos(t)), via.Name))
			return false
		}
	}
	c.OK(rule, construct, fmt.Sprintf("%d start site(s), %d target(s), %d via site(s)", len(ins), len(targets), len(barriers)))
	return true
}

// QaCFGEdge is a control-flow edge.
type QaCFGEdge struct{ From, To *ssa.BasicBlock }

// QaNilEdgesOn lists, for every branch comparing with nil a value computed
// from a value satisfying pred, the edge taken when it is nil.
func QaNilEdgesOn(fn *ssa.Function, pred func(ssa.Value) bool) []QaCFGEdge {
	var out []QaCFGEdge
	eachInstr(fn, func(in ssa.Instruction) {
		ifi, ok := in.(*ssa.If)
		if !ok {
			return
		}
		b, ok := ifi.Cond.(*ssa.BinOp)
		if !ok || b.Op != token.EQL && b.Op != token.NEQ {
			return
		}
		for i, side := range []ssa.Value{b.X, b.Y} {
			other := []ssa.Value{b.Y, b.X}[i]
			if !isNilConst(other) || !DependsOn(side, pred) {
				continue
			}
			succ := ifi.Block().Succs[0]
			if b.Op == token.NEQ {
				succ = ifi.Block().Succs[1]
			}
			out = append(out, QaCFGEdge{ifi.Block(), succ})
		}
	})
	return out
}

// QaAtomEdges lists the edges on which the atom holds (either polarity of a
// branch testing exactly it).
func (p *Prog) QaAtomEdges(fn *ssa.Function, spec string) []QaCFGEdge {
	a, err := p.ParseAtom(spec)
	if err != nil {
		return nil
	}
	var out []QaCFGEdge
	eachInstr(fn, func(in ssa.Instruction) {
		ifi, ok := in.(*ssa.If)
		if !ok {
			return
		}
		ca := CondAtom(ifi.Cond)
		if SameAtom(ca, a) {
			out = append(out, QaCFGEdge{ifi.Block(), ifi.Block().Succs[0]})
		} else if SameAtom(ca.Negate(), a) {
			out = append(out, QaCFGEdge{ifi.Block(), ifi.Block().Succs[1]})
		}
	})
	return out
}

// QaBetweenE is QaBetween with additional barrier edges: no `to` site is
// reachable from a `from` site without passing a `via` site or one of the edges.
func (c *Ctx) QaBetweenE(fnName string, from, to, via Sel, edgeDesc string, edges []QaCFGEdge) bool {
	rule := "pass-through"
	construct := fmt.Sprintf("%s: between [%s] and [%s] always [%s] or %s", fnName, from.Name, to.Name, via.Name, edgeDesc)
	fn, ins := c.sites(rule, fnName, from)
	if ins == nil {
		return false
	}
	targets := instrSet(to.F(c.P, fn))
	if len(targets) == 0 {
		c.Undecided(rule, construct, "no ["+to.Name+"] site in this function")
		return false
	}
	barriers := instrSet(via.F(c.P, fn))
	cut := map[QaCFGEdge]bool{}
	for _, e := range edges {
		cut[e] = true
	}
	for _, in := range ins {
		seen := map[*ssa.BasicBlock]bool{}
		var hit ssa.Instruction
		var run func(b *ssa.BasicBlock, i int)
		run = func(b *ssa.BasicBlock, i int) {
			for ; i < len(b.Instrs) && hit == nil; i++ {
				x := b.Instrs[i]
				if barriers[x] {
					return
				}
				if targets[x] {
					hit = x
					return
				}
			}
			for _, s := range b.Succs {
				if hit == nil && !cut[QaCFGEdge{b, s}] && !seen[s] {
					seen[s] = true
					run(s, 0)
				}
			}
		}
		p := posOf(in)
		run(p.b, p.i+1)
		if hit != nil {
			c.Fail(rule, construct, InstrPos(in), fmt.Sprintf("from `%s` the site `%s` (%s) is reachable without [%s] and without %s", DescribeInstr(in), DescribeInstr(hit), c.P.Pos(InstrPos(hit)), via.Name, edgeDesc))
			return false
		}
	}
	c.OK(rule, construct, fmt.Sprintf("%d start site(s), %d target(s), %d via site(s), %d edge(s)", len(ins), len(targets), len(barriers), len(edges)))
	return true
}

// qaReachCut reports whether a target is reachable strictly after start
// without passing a barrier instruction or a cut edge.
func qaReachCut(start ipos, targets, barriers map[ssa.Instruction]bool, cut map[QaCFGEdge]bool) ssa.Instruction {
	seen := map[*ssa.BasicBlock]bool{}
	var hit ssa.Instruction
	var run func(b *ssa.BasicBlock, i int)
	run = func(b *ssa.BasicBlock, i int) {
		for ; i < len(b.Instrs) && hit == nil; i++ {
			x := b.Instrs[i]
			if barriers[x] {
				return
			}
			if targets[x] {
				hit = x
				return
			}
		}
		for _, s := range b.Succs {
			if hit == nil && !cut[QaCFGEdge{b, s}] && !seen[s] {
				seen[s] = true
				run(s, 0)
			}
		}
	}
	run(start.b, start.i+1)
	return hit
}
