package core

import (
	"fmt"
	"strings"

	"golang.org/x/tools/go/ssa"
)

// Per-iteration rejection, decided over paths.
//
// Reject's dominance form and its path fallback (ReachableUnder) both assume that the
// assumed atoms speak about values that do not change between the test and the site. For a
// validation performed on the current element of a loop (the atoms mention a loop-carried
// value such as msg[φoff]) that is only true inside one iteration: a walk from the function
// entry that keeps pruning by the same rendered atoms in every iteration would "prove" the
// claim even when the offending element is merely skipped and the loop goes on to succeed.
//
// D5RejectPerIteration decides: "in whichever iteration all atoms of conj hold, no selected
// site is reached, in that iteration or later". The walk starts at the loop header(s)
// defining the loop-carried values the atoms mention (an arbitrary iteration, hence an
// over-approximation of the states the loop can be in), prunes branch edges that cannot hold
// together with an assumed atom, and stops pruning as soon as a header is entered again (the
// values are redefined; the assumption has expired). It is insensitive to how the tests are
// nested or ordered (switch, if/else-if chain, tagless switch, early continue). When the atoms
// mention no loop-carried value the walk starts at the function entry and never expires,
// which is ReachableUnder.
func (c *Ctx) D5RejectPerIteration(fnName string, sel Sel, conj ...string) bool {
	rule := "reject-before"
	construct := fmt.Sprintf("%s: in the iteration where %s never [%s] (then or later)", fnName, stripSpaces(strings.Join(conj, " && ")), sel.Name)
	fn, ins := c.sites(rule, fnName, sel)
	if ins == nil {
		return false
	}
	as, good := c.atoms(rule, construct, conj)
	if !good {
		return false
	}
	for i := range as {
		for j := i + 1; j < len(as); j++ {
			if Unsat(as[i], as[j]) {
				c.Undecided(rule, construct, "the assumed atoms contradict each other")
				return false
			}
		}
	}
	if !atomsTested(fn, as) {
		c.Fail(rule, construct, fn.Pos(), "no branch in this function tests {"+atomList(as)+"}; branch conditions present: "+c.condSummary(fn))
		return false
	}
	headers := d5Headers(fn, as)
	t, from, reach := d5ReachableInIteration(fn, headers, as, instrSet(ins))
	if reach {
		where := "the function entry"
		if from != nil {
			where = fmt.Sprintf("the loop header (block %d)", from.Index)
		}
		c.Fail(rule, construct, InstrPos(t), fmt.Sprintf("`%s` is reachable from %s along a path consistent with %s", DescribeInstr(t), where, atomList(as)))
		return false
	}
	c.OK(rule, construct, fmt.Sprintf("%d site(s), %d loop header(s), by path evaluation", len(ins), len(headers)))
	return true
}

// d5Headers returns the blocks whose phis are mentioned (by rendered name) in the atoms.
func d5Headers(fn *ssa.Function, as []Atom) []*ssa.BasicBlock {
	var text []string
	for _, a := range as {
		for t := range a.L.Coef {
			text = append(text, t)
		}
	}
	mentions := func(name string) bool {
		for _, t := range text {
			for i := 0; ; {
				j := strings.Index(t[i:], name)
				if j < 0 {
					break
				}
				end := i + j + len(name)
				// whole identifier: not followed by a letter, digit or underscore
				if end == len(t) || !d5IdentByte(t[end]) {
					return true
				}
				i = end
			}
		}
		return false
	}
	var out []*ssa.BasicBlock
	for _, b := range fn.Blocks {
		for _, in := range b.Instrs {
			ph, ok := in.(*ssa.Phi)
			if !ok {
				break
			}
			if n := Term(ph); strings.HasPrefix(n, "φ") && !strings.HasPrefix(n, "φ(") && mentions(n) {
				out = append(out, b)
				break
			}
		}
	}
	return out
}

func d5IdentByte(b byte) bool {
	return b == '_' || b >= '0' && b <= '9' || b >= 'a' && b <= 'z' || b >= 'A' && b <= 'Z' || b >= 0x80
}

// d5ReachableInIteration walks from every header (from the entry when there is none) and
// reports a target reached along a path none of whose edges, up to the next entry into a
// header, is unsatisfiable together with an assumed atom.
func d5ReachableInIteration(fn *ssa.Function, headers []*ssa.BasicBlock, assume []Atom, targets map[ssa.Instruction]bool) (ssa.Instruction, *ssa.BasicBlock, bool) {
	if len(fn.Blocks) == 0 {
		return nil, nil, false
	}
	isHeader := map[*ssa.BasicBlock]bool{}
	for _, h := range headers {
		isHeader[h] = true
	}
	type key struct {
		b, pred *ssa.BasicBlock
		live    bool
	}
	var hit ssa.Instruction
	walk := func(start *ssa.BasicBlock) {
		seen := map[key]bool{}
		var run func(b, pred *ssa.BasicBlock, live bool)
		run = func(b, pred *ssa.BasicBlock, live bool) {
			if hit != nil || seen[key{b, pred, live}] {
				return
			}
			seen[key{b, pred, live}] = true
			for _, in := range b.Instrs {
				if targets[in] {
					hit = in
					return
				}
			}
			if len(b.Instrs) == 0 {
				return
			}
			next := func(s *ssa.BasicBlock) {
				run(s, b, live && !isHeader[s])
			}
			ifi, ok := b.Instrs[len(b.Instrs)-1].(*ssa.If)
			if !ok {
				for _, s := range b.Succs {
					next(s)
				}
				return
			}
			if t, known := threadIf(ifi, pred); known {
				if t {
					next(b.Succs[0])
				} else {
					next(b.Succs[1])
				}
				return
			}
			a, constant, val := branchAtom(ifi, pred)
			for k, s := range b.Succs {
				if constant {
					if (k == 0) != val {
						continue
					}
				} else if live {
					e := a
					if k == 1 {
						e = a.Negate()
					}
					pruned := false
					for _, as := range assume {
						if Unsat(e, as) {
							pruned = true
						}
					}
					if pruned {
						continue
					}
				}
				next(s)
			}
		}
		run(start, nil, true)
	}
	if len(headers) == 0 {
		walk(fn.Blocks[0])
		return hit, nil, hit != nil
	}
	for _, h := range headers {
		walk(h)
		if hit != nil {
			return hit, h, true
		}
	}
	return nil, nil, false
}
