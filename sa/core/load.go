// Package core is the shared machinery of the static checker: loading the
// type-checked program and its SSA form, naming constructs, recording
// obligations and writing evidence.
package core

import (
	"runtime"
	"fmt"
	"go/ast"
	"go/token"
	"go/types"
	"os"
	"sort"
	"strings"

	"golang.org/x/tools/go/packages"
	"golang.org/x/tools/go/ssa"
	"golang.org/x/tools/go/ssa/ssautil"
)

// ModPrefix is the module path of the analysed repository.
const ModPrefix = "golang.org/x/net/"

// Prog is the loaded program.
type Prog struct {
	Repo   string
	Fset   *token.FileSet
	Pkgs   []*packages.Package
	ByPath map[string]*packages.Package // short path ("http2/hpack") -> package
	SSA    *ssa.Program
	Funcs  map[string]*ssa.Function // short RelString -> function (incl. closures)
	All    []*ssa.Function          // every repo function with a body, sorted by name
	Env    []string
	Config string // "" for the default build configuration, else the extra env (e.g. "GOARCH=386")
	// Normalized lists new unexported helpers that were inlined back into their callers before analysis.
	Normalized []string
	Overlay    map[string][]byte
}

// Short strips the module prefix from every occurrence in s.
func Short(s string) string { return strings.ReplaceAll(s, ModPrefix, "") }

// Load type-checks ./... under repo and builds SSA for it.
func Load(repo string, extraEnv ...string) (*Prog, error) {
	env := append(os.Environ(), "GOFLAGS=-mod=mod", "GOPROXY=off", "GOWORK=off")
	env = append(env, extraEnv...)
	var overlay map[string][]byte
	var normalized []string
	// per-program caches keyed by SSA objects would keep every earlier program alive
	// (the thorough tier loads one program per configuration and self-test patch)
	deadCache = map[*ssa.Function]map[*ssa.BasicBlock]bool{}
	initStoreCache = map[*ssa.Global]ssa.Value{}
	initStoreDone = map[*ssa.Global]bool{}
	globalOfTerm = map[string]*ssa.Global{}
	absInfo = map[*ssa.Function]*absFnInfo{}
	runtime.GC()
	DetectRenames(repo)
	if os.Getenv("VSA_NO_NORMALIZE") == "" {
		ov, done, err := Normalize(repo, env)
		if err != nil {
			fmt.Fprintf(os.Stderr, "helper normalisation skipped: %v\n", err)
		} else {
			overlay, normalized = ov, done
			if d := os.Getenv("VSA_DUMP_OVERLAY"); d != "" {
				for f, b := range ov {
					os.WriteFile(d+"/"+strings.ReplaceAll(strings.TrimPrefix(f, repo+"/"), "/", "__"), b, 0o644)
				}
			}
		}
	}
	fset := token.NewFileSet()
	cfg := &packages.Config{
		Mode:    packages.LoadAllSyntax,
		Dir:     repo,
		Fset:    fset,
		Env:     env,
		Tests:   false,
		Overlay: overlay,
	}
	pkgs, err := packages.Load(cfg, "./...")
	if err != nil {
		return nil, fmt.Errorf("packages.Load: %v", err)
	}
	nerr := 0
	packages.Visit(pkgs, nil, func(p *packages.Package) {
		for _, e := range p.Errors {
			if nerr < 10 {
				fmt.Fprintf(os.Stderr, "load error: %s: %v\n", p.PkgPath, e)
			}
			nerr++
		}
	})
	if nerr > 0 {
		return nil, fmt.Errorf("%d package load/type errors", nerr)
	}
	if len(pkgs) < 40 {
		return nil, fmt.Errorf("only %d packages loaded from %s (floor 40)", len(pkgs), repo)
	}
	prog, spkgs := ssautil.AllPackages(pkgs, ssa.InstantiateGenerics)
	prog.Build()
	p := &Prog{Repo: repo, Fset: fset, Pkgs: pkgs, ByPath: map[string]*packages.Package{}, SSA: prog,
		Funcs: map[string]*ssa.Function{}, Env: env, Config: strings.Join(extraEnv, " "), Normalized: normalized, Overlay: overlay}
	repoPkgs := map[*ssa.Package]bool{}
	for i, pk := range pkgs {
		if !strings.HasPrefix(pk.PkgPath, strings.TrimSuffix(ModPrefix, "/")) {
			continue
		}
		p.ByPath[Short(pk.PkgPath)] = pk
		if spkgs[i] != nil {
			repoPkgs[spkgs[i]] = true
		}
	}
	for fn := range ssautil.AllFunctions(prog) {
		if len(fn.TypeArgs()) > 0 {
			// analyse the generic body once: the origin (template) function
			fn = fn.Origin()
			if fn == nil {
				continue
			}
		}
		if fn.Synthetic != "" && fn.Synthetic != "package initializer" {
			continue // wrappers, thunks
		}
		pk := fn.Pkg
		if pk == nil && fn.Parent() != nil {
			pk = Outer(fn).Pkg
		}
		if pk == nil || !repoPkgs[pk] {
			continue
		}
		if fn.Blocks == nil {
			continue
		}
		name := FnName(fn)
		if _, dup := p.Funcs[name]; dup {
			continue
		}
		p.Funcs[name] = fn
		p.All = append(p.All, fn)
	}
	sort.Slice(p.All, func(i, j int) bool { return FnName(p.All[i]) < FnName(p.All[j]) })
	return p, nil
}

// FnName is the short, unambiguous name used in rule tables:
// "http2.parseDataFrame", "(*http2.Framer).ReadFrame", "(*http2.Framer).readMetaFrame$1".
func FnName(fn *ssa.Function) string {
	if fn == nil {
		return "<nil>"
	}
	return baselineName(Short(fn.RelString(nil)))
}

// BaseShortName is the unqualified name of fn, by its baseline name when it was renamed.
func BaseShortName(fn *ssa.Function) string {
	if len(renamedFns) == 0 || fn.Parent() != nil {
		return fn.Name()
	}
	if b, ok := renamedFns[Short(fn.RelString(nil))]; ok {
		_, bare := splitFnName(b)
		return bare
	}
	return fn.Name()
}

// Fn returns the named function or nil.
func (p *Prog) Fn(name string) *ssa.Function { return p.Funcs[name] }

// Closures returns fn followed by all anonymous functions nested in it.
func Closures(fn *ssa.Function) []*ssa.Function {
	out := []*ssa.Function{fn}
	for _, a := range fn.AnonFuncs {
		out = append(out, Closures(a)...)
	}
	return out
}

// Outer returns the outermost enclosing source function.
func Outer(fn *ssa.Function) *ssa.Function {
	for fn.Parent() != nil {
		fn = fn.Parent()
	}
	return fn
}

// Pos renders a position relative to the repo root.
func (p *Prog) Pos(pos token.Pos) string {
	if !pos.IsValid() {
		return "-"
	}
	ps := p.Fset.Position(pos)
	f := strings.TrimPrefix(ps.Filename, p.Repo+"/")
	return fmt.Sprintf("%s:%d", f, ps.Line)
}

// InstrPos finds the best position for an instruction.
func InstrPos(in ssa.Instruction) token.Pos {
	if in == nil {
		return token.NoPos
	}
	if p := in.Pos(); p.IsValid() {
		return p
	}
	if v, ok := in.(ssa.Value); ok {
		_ = v
	}
	// fall back to any operand position
	for _, op := range in.Operands(nil) {
		if *op != nil {
			if p := (*op).Pos(); p.IsValid() {
				return p
			}
		}
	}
	if in.Block() != nil {
		for _, x := range in.Block().Instrs {
			if p := x.Pos(); p.IsValid() {
				return p
			}
		}
	}
	return in.Parent().Pos()
}

// Pkg returns the package with the short path, or nil.
func (p *Prog) Pkg(short string) *packages.Package { return p.ByPath[short] }

// Object looks up a package-level object "http2.maxFrameSize".
func (p *Prog) Object(q string) types.Object {
	i := strings.LastIndex(q, ".")
	if i < 0 {
		return nil
	}
	pk := p.ByPath[q[:i]]
	if pk == nil {
		return nil
	}
	return pk.Types.Scope().Lookup(q[i+1:])
}

// Field looks up "http2.outflow.n" (package path, type, field; embedded
// fields are not followed).
func (p *Prog) Field(q string) *types.Var {
	i := strings.LastIndex(q, ".")
	if i < 0 {
		return nil
	}
	obj := p.Object(q[:i])
	if obj == nil {
		return nil
	}
	st, ok := obj.Type().Underlying().(*types.Struct)
	if !ok {
		return nil
	}
	for k := 0; k < st.NumFields(); k++ {
		if st.Field(k).Name() == q[i+1:] {
			return st.Field(k)
		}
	}
	return nil
}

// FuncDecl returns the syntax of a source function.
func (p *Prog) FuncDecl(fn *ssa.Function) *ast.FuncDecl {
	if d, ok := fn.Syntax().(*ast.FuncDecl); ok {
		return d
	}
	return nil
}

// PkgOfFn returns the packages.Package containing fn.
func (p *Prog) PkgOfFn(fn *ssa.Function) *packages.Package {
	o := Outer(fn)
	if o.Pkg == nil {
		return nil
	}
	return p.ByPath[Short(o.Pkg.Pkg.Path())]
}
