package core

import (
	"fmt"
	"go/ast"
	"go/token"
	"regexp"
	"strconv"

	"golang.org/x/tools/go/ssa"
)

// ---------------------------------------------------------------------------
// (1) Equivalent spellings of one condition.
//
// "the string t is (not) empty" is written `len(t) == 0` or `t == ""` in Go;
// the canonical atoms differ (`len(t) ==0` vs `""-t ==0`) although the facts
// are the same. A rule that needs the fact is instantiated once per spelling
// and the first instance that discharges is kept (Ctx.Any); when none does,
// the obligations of the first spelling are reported.

// M5NonEmpty returns the spellings of "string term t is not empty"
// (`len(t) > 0` is the same atom as `len(t) != 0`: len is non-negative).
func M5NonEmpty(t string) []string { return []string{"len(" + t + ") != 0", t + ` != ""`} }

// M5Empty returns the spellings of "string term t is empty".
func M5Empty(t string) []string { return []string{"len(" + t + ") == 0", t + ` == ""`} }

// M5AnySpelling runs rule once per spelling under Ctx.Any.
func (c *Ctx) M5AnySpelling(spellings []string, rule func(spec string)) bool {
	alts := make([]func(), len(spellings))
	for i, s := range spellings {
		s := s
		alts[i] = func() { rule(s) }
	}
	return c.Any(alts...)
}

// ---------------------------------------------------------------------------
// (2) Call sites reached directly or through a new predicate helper.
//
// A rule anchored on "function F consults X" (a call site in F) must survive
// the extraction of the consulting loop into a new unexported helper when the
// source-level normaliser (inline.go) cannot inline it back, e.g. because the
// helper call sits on the right of `&&`. M5SitesVia lists the selected call
// sites of F together with those of the new unexported helpers F calls
// statically (one level); a helper site can be rendered in F's vocabulary
// (parameters replaced by the actual arguments), and M5PredicateHelper checks
// that the helper's boolean result is true exactly on the paths on which the
// inner call returned true, so that a branch on the helper's result in F means
// the same as a branch on the inner call's result.

// M5Site is one selected call site.
type M5Site struct {
	Call  *ssa.Call // the selected call (in the anchored function or in the helper)
	Outer *ssa.Call // the helper call in the anchored function; nil when Call is in the anchored function
}

// Anchor is the instruction of the anchored function that stands for the site.
func (s M5Site) Anchor() *ssa.Call {
	if s.Outer != nil {
		return s.Outer
	}
	return s.Call
}

// Helper is the helper containing the site, nil when direct.
func (s M5Site) Helper() *ssa.Function {
	if s.Outer == nil {
		return nil
	}
	return s.Outer.Call.StaticCallee()
}

var m5Base map[string]bool

// M5IsNewHelper: h is an unexported repository function with a body that did
// not exist (under this or, if renamed, another name) when the rules were written.
func M5IsNewHelper(h *ssa.Function) bool {
	if h == nil || h.Blocks == nil || h.Parent() != nil || !isRepoPkg(h) || ast.IsExported(h.Name()) {
		return false
	}
	if m5Base == nil {
		m5Base = baselineFuncs()
	}
	n := FnName(h)
	return len(m5Base) > 0 && !m5Base[n] && !m5Base[baselineName(n)] && renamedFns[n] == ""
}

// M5SitesVia lists the sites of sel in fn and in the new helpers fn calls statically.
func (p *Prog) M5SitesVia(fn *ssa.Function, sel Sel) []M5Site {
	var out []M5Site
	for _, in := range sel.F(p, fn) {
		if cl, ok := in.(*ssa.Call); ok {
			out = append(out, M5Site{Call: cl})
		}
	}
	eachInstr(fn, func(in ssa.Instruction) {
		oc, ok := in.(*ssa.Call)
		if !ok {
			return
		}
		h := oc.Call.StaticCallee()
		if h == fn || !M5IsNewHelper(h) || h.Pkg != fn.Pkg {
			return
		}
		for _, hin := range sel.F(p, h) {
			if cl, ok := hin.(*ssa.Call); ok {
				out = append(out, M5Site{Call: cl, Outer: oc})
			}
		}
	})
	return out
}

// Lift maps a value of the helper to the anchored function when it is one of
// the helper's parameters (the actual argument); other values are returned
// unchanged with ok=false (ok is true for every value of a direct site).
func (s M5Site) Lift(v ssa.Value) (ssa.Value, bool) {
	if s.Outer == nil {
		return v, true
	}
	if pa, ok := v.(*ssa.Parameter); ok {
		for i, q := range pa.Parent().Params {
			if q == pa && i < len(s.Outer.Call.Args) {
				return s.Outer.Call.Args[i], true
			}
		}
	}
	return v, false
}

var m5ParamRE = regexp.MustCompile(`\$(r|[0-9]+)`)

// LiftText rewrites a rendered term or fact of the helper into the anchored
// function's vocabulary: `$r`, `$0`, ... become the terms of the actual arguments.
func (s M5Site) LiftText(t string) string {
	h := s.Helper()
	if h == nil {
		return t
	}
	off := 0
	if h.Signature.Recv() != nil {
		off = 1
	}
	args := s.Outer.Call.Args
	return m5ParamRE.ReplaceAllStringFunc(t, func(m string) string {
		if m == "$r" {
			if off == 1 && len(args) > 0 {
				return Term(args[0])
			}
			return m
		}
		i, err := strconv.Atoi(m[1:])
		if err != nil || off+i >= len(args) {
			return m
		}
		return Term(args[off+i])
	})
}

// M5RetCase is one way a function with a single result returns: the result
// of a Return, with negations folded and a phi in the Return's own block split
// by incoming edge (a result variable assigned on several paths before a
// common `return r`).
type M5RetCase struct {
	Ret   *ssa.Return
	Pred  *ssa.BasicBlock // the case applies when Ret's block is entered from Pred; nil: however it is entered
	Const string          // "true" / "false" when the result is that constant in this case, else ""
	Val   ssa.Value       // otherwise: the result is Val, or !Val when Neg
	Neg   bool
}

func m5StripNot(v ssa.Value) (ssa.Value, bool) {
	neg := false
	for {
		u, ok := v.(*ssa.UnOp)
		if !ok || u.Op != token.NOT {
			return v, neg
		}
		v, neg = u.X, !neg
	}
}

func m5RetCases(r *ssa.Return) []M5RetCase {
	if len(r.Results) != 1 {
		return nil
	}
	mk := func(v ssa.Value, pred *ssa.BasicBlock, neg bool) M5RetCase {
		v, n2 := m5StripNot(v)
		neg = neg != n2
		c := M5RetCase{Ret: r, Pred: pred, Val: v, Neg: neg}
		if _, isConst := v.(*ssa.Const); isConst {
			switch t := Term(v); {
			case t == "true" && !neg, t == "false" && neg:
				c.Const, c.Val, c.Neg = "true", nil, false
			case t == "false" && !neg, t == "true" && neg:
				c.Const, c.Val, c.Neg = "false", nil, false
			}
		}
		return c
	}
	v, neg := m5StripNot(r.Results[0])
	if ph, ok := v.(*ssa.Phi); ok && ph.Block() == r.Block() {
		var out []M5RetCase
		for i, e := range ph.Edges {
			out = append(out, mk(e, ph.Block().Preds[i], neg))
		}
		return out
	}
	return []M5RetCase{mk(v, nil, neg)}
}

// M5BoolRetCases lists the return cases of a function with a single result.
func M5BoolRetCases(fn *ssa.Function) []M5RetCase {
	var out []M5RetCase
	eachInstr(fn, func(in ssa.Instruction) {
		if r, ok := in.(*ssa.Return); ok {
			out = append(out, m5RetCases(r)...)
		}
	})
	return out
}

// m5ReturnsOnly walks every path from the start of block b (entered from
// pred) and objects to the first return case that is not the constant ret.
// Branches decided by the edge they are entered through are threaded as in
// walkFrom.
func m5ReturnsOnly(b, pred *ssa.BasicBlock, ret bool) string {
	want := "false"
	if ret {
		want = "true"
	}
	type key struct{ b, pred *ssa.BasicBlock }
	seen := map[key]bool{}
	why := ""
	var run func(b, pred *ssa.BasicBlock)
	run = func(b, pred *ssa.BasicBlock) {
		if why != "" || seen[key{b, pred}] {
			return
		}
		seen[key{b, pred}] = true
		for _, in := range b.Instrs {
			r, ok := in.(*ssa.Return)
			if !ok {
				continue
			}
			cs := m5RetCases(r)
			if cs == nil {
				why = "`" + DescribeInstr(r) + "` is not a single result"
				return
			}
			for _, c := range cs {
				if c.Pred != nil && pred != nil && c.Pred != pred {
					continue
				}
				if c.Const != want {
					why = "`" + DescribeInstr(r) + "` is reachable and does not return " + want + " there"
					return
				}
			}
		}
		succs := b.Succs
		if len(b.Instrs) > 0 {
			if ifi, ok := b.Instrs[len(b.Instrs)-1].(*ssa.If); ok && len(b.Succs) == 2 {
				if t, known := threadIf(ifi, pred); known {
					if t {
						succs = b.Succs[:1]
					} else {
						succs = b.Succs[1:2]
					}
				}
			}
		}
		for _, s := range succs {
			run(s, b)
		}
	}
	run(b, pred)
	return why
}

// M5WhenTrue explains ("" = nothing to object) why the function containing the
// boolean value v might, when v is true, return something else than the
// constant ret. Recognised uses of v: the condition of an If (every return
// case reachable from the edge taken when v is true must be the constant ret),
// the single result of a Return (the function then returns true), and a
// negation (recursively, with v false). Any other use, or no use at all, is
// an objection.
func M5WhenTrue(v ssa.Value, ret bool) string { return m5When(v, true, ret, 0) }

func m5When(v ssa.Value, val, ret bool, depth int) string {
	refs := v.Referrers()
	if refs == nil || depth > 4 {
		return "uses of `" + Term(v) + "` cannot be followed"
	}
	n := 0
	for _, r := range *refs {
		switch x := r.(type) {
		case *ssa.DebugRef:
			continue
		case *ssa.UnOp:
			if x.Op != token.NOT {
				return "`" + Term(v) + "` is used in `" + DescribeInstr(x) + "`"
			}
			if why := m5When(x, !val, ret, depth+1); why != "" {
				return why
			}
		case *ssa.If:
			b := x.Block()
			if len(b.Succs) != 2 || b.Succs[0] == b.Succs[1] {
				return "`" + Term(v) + "` is tested by a branch that decides nothing"
			}
			succ := b.Succs[0]
			if !val {
				succ = b.Succs[1]
			}
			if why := m5ReturnsOnly(succ, b, ret); why != "" {
				return fmt.Sprintf("when `%s` is %v: %s", Term(v), val, why)
			}
		case *ssa.Return:
			if len(x.Results) != 1 || x.Results[0] != v {
				return "`" + Term(v) + "` is returned as part of `" + DescribeInstr(x) + "`"
			}
			if val != ret {
				return fmt.Sprintf("`%s` returns %v when the test is true", DescribeInstr(x), val)
			}
		default:
			return "`" + Term(v) + "` is used in `" + DescribeInstr(r) + "` (not a branch, negation or return)"
		}
		n++
	}
	if n == 0 {
		return "the result `" + Term(v) + "` is not used"
	}
	return ""
}

// M5PredicateHelper explains ("" = nothing to object) why the helper of a
// via-site is not a faithful predicate wrapper of its inner call: the helper
// must return only the constants true/false; when the inner call is true the
// helper returns true at once; every `return true` is entered only through
// the true edge of a test of the inner call; and the inner call is made on
// every iteration (its only dominating conditions are loop headers).
func (p *Prog) M5PredicateHelper(s M5Site) string {
	h := s.Helper()
	if h == nil {
		return ""
	}
	name := FnName(h)
	var retTrue, retOther []ssa.Instruction
	for _, in := range Returns().F(p, h) {
		r := in.(*ssa.Return)
		if len(r.Results) != 1 {
			return name + " does not return a single boolean"
		}
		switch Term(r.Results[0]) {
		case "true":
			retTrue = append(retTrue, in)
		case "false":
			retOther = append(retOther, in)
		default:
			return name + ": `" + DescribeInstr(in) + "` is not a constant result"
		}
	}
	if len(retTrue) == 0 || len(retOther) == 0 {
		return name + " does not return both true and false"
	}
	if why := M5WhenTrue(s.Call, true); why != "" {
		return name + ": " + why
	}
	// the true edges of the tests of the inner call
	type edge struct{ from, to *ssa.BasicBlock }
	var edges []edge
	var collect func(v ssa.Value, val bool, depth int)
	collect = func(v ssa.Value, val bool, depth int) {
		if v.Referrers() == nil || depth > 4 {
			return
		}
		for _, r := range *v.Referrers() {
			switch x := r.(type) {
			case *ssa.UnOp:
				if x.Op == token.NOT {
					collect(x, !val, depth+1)
				}
			case *ssa.If:
				b := x.Block()
				if val {
					edges = append(edges, edge{b, b.Succs[0]})
				} else {
					edges = append(edges, edge{b, b.Succs[1]})
				}
			}
		}
	}
	collect(s.Call, true, 0)
	for _, in := range retTrue {
		ok := false
		for _, e := range edges {
			if edgeDominates(e.from, e.to, in.Block()) {
				ok = true
			}
		}
		if !ok {
			return name + ": `return true` at " + p.Pos(InstrPos(in)) + " is reachable without a positive `" + Term(s.Call) + "`"
		}
	}
	for _, f := range FactsAtInstr(s.Call) {
		if f.If == nil || !isLoopHeader(f.If.Block()) {
			return name + ": `" + Term(s.Call) + "` is consulted only under " + f.Atom.String()
		}
	}
	return ""
}

// M5SiteWhenTrue: when the call of the site yields true, the anchored function
// returns nothing but the constant ret; for a via-site this goes through the
// helper (M5PredicateHelper) and the uses of the helper's result.
func (p *Prog) M5SiteWhenTrue(s M5Site, ret bool) string {
	if s.Outer != nil {
		if why := p.M5PredicateHelper(s); why != "" {
			return why
		}
	}
	return M5WhenTrue(s.Anchor(), ret)
}

// M5Only selects exactly the given instruction (for Guard/NeverAfter on a site found by other means).
func M5Only(name string, in ssa.Instruction) Sel {
	return Sel{Name: name, F: func(p *Prog, fn *ssa.Function) []ssa.Instruction {
		if in == nil || in.Parent() != fn {
			return nil
		}
		return []ssa.Instruction{in}
	}}
}
