package core

import (
	"fmt"
	"go/token"
	"go/types"
	"sort"

	"golang.org/x/tools/go/ssa"
)

// NilScan lists struct fields of pointer or interface type that are assigned nil
// somewhere, loaded and used somewhere, and never compared with nil anywhere in the
// repository (Engler-style contradiction: one side believes the field can be nil,
// the other side never checks). Exploration aid; not a check.
func NilScan(p *Prog) string {
	type info struct {
		nilStores, loads, nilTests int
		where                      []string
	}
	m := map[*types.Var]*info{}
	get := func(v *types.Var) *info {
		if m[v] == nil {
			m[v] = &info{}
		}
		return m[v]
	}
	for _, fn := range p.All {
		eachInstr(fn, func(in ssa.Instruction) {
			switch x := in.(type) {
			case *ssa.Store:
				if f := fieldOfAddr(x.Addr); f != nil {
					if k, ok := x.Val.(*ssa.Const); ok && k.Value == nil {
						switch f.Type().Underlying().(type) {
						case *types.Pointer, *types.Interface:
							i := get(f)
							i.nilStores++
							i.where = append(i.where, FnName(fn)+" "+p.Pos(in.Pos()))
						}
					}
				}
			case *ssa.UnOp:
				if x.Op != token.MUL {
					return
				}
				f := fieldOfAddr(x.X)
				if f == nil {
					return
				}
				i := get(f)
				i.loads++
				if refs := x.Referrers(); refs != nil {
					for _, r := range *refs {
						if bo, ok := r.(*ssa.BinOp); ok && (bo.Op == token.EQL || bo.Op == token.NEQ) && (isNilConst(bo.X) || isNilConst(bo.Y)) {
							i.nilTests++
						}
					}
				}
			}
		})
	}
	var out []string
	for f, i := range m {
		if i.nilStores > 0 && i.loads > 0 && i.nilTests == 0 {
			out = append(out, fmt.Sprintf("%s.%s (%s): %d nil store(s), %d load(s), no nil test; stores: %v", f.Pkg().Path(), f.Name(), f.Type(), i.nilStores, i.loads, i.where))
		}
	}
	sort.Strings(out)
	s := ""
	for _, l := range out {
		s += l + "\n"
	}
	return s
}

// NilScan2 ranks struct fields of pointer type by how consistently their
// dereferences are guarded by a nil test (Engler et al.: a belief held at most
// sites and contradicted at a few). Exploration aid; not a check.
func NilScan2(p *Prog) string {
	type site struct {
		fn  *ssa.Function
		in  ssa.Instruction
		ld  *ssa.UnOp
		okg bool
	}
	by := map[*types.Var][]site{}
	tested := map[*types.Var]int{}
	for _, fn := range p.All {
		eachInstr(fn, func(in ssa.Instruction) {
			ld, ok := in.(*ssa.UnOp)
			if !ok || ld.Op != token.MUL || ld.Referrers() == nil {
				return
			}
			f := fieldOfAddr(ld.X)
			if f == nil {
				return
			}
			if _, isPtr := f.Type().Underlying().(*types.Pointer); !isPtr {
				return
			}
			for _, r := range *ld.Referrers() {
				switch x := r.(type) {
				case *ssa.BinOp:
					if (x.Op == token.EQL || x.Op == token.NEQ) && (isNilConst(x.X) || isNilConst(x.Y)) {
						tested[f]++
					}
				case *ssa.FieldAddr:
					if x.X == ssa.Value(ld) {
						by[f] = append(by[f], site{fn, r, ld, false})
					}
				case *ssa.UnOp:
					if x.Op == token.MUL && x.X == ssa.Value(ld) {
						by[f] = append(by[f], site{fn, r, ld, false})
					}
				}
			}
		})
	}
	var out []string
	for f, ss := range by {
		if tested[f] == 0 || len(ss) == 0 {
			continue
		}
		g := 0
		var bad []string
		for i := range ss {
			a := Atom{Kind: NE, L: Lin{Coef: map[string]int64{Term(ss[i].ld): 1}}}
			if guardedByPaths(ss[i].fn, [][]Atom{{a}}, []ssa.Instruction{ss[i].in}) {
				g++
			} else {
				bad = append(bad, FnName(ss[i].fn)+" "+p.Pos(ss[i].in.Pos()))
			}
		}
		if g == 0 || len(bad) == 0 {
			continue
		}
		out = append(out, fmt.Sprintf("%3d%% guarded (%d/%d, %d nil tests) %s.%s: unguarded: %v", 100*g/len(ss), g, len(ss), tested[f], f.Pkg().Path(), f.Name(), bad))
	}
	sort.Sort(sort.Reverse(sort.StringSlice(out)))
	s := ""
	for _, l := range out {
		s += l + "\n"
	}
	return s
}
