package core

import (
	"fmt"
	"go/constant"
	"go/token"
	"go/types"

	"golang.org/x/tools/go/ssa"
)

// ---------------------------------------------------------------------------
// Abstract evaluation of loop-poor SSA functions (constant propagation with
// case splitting). Values are either known constants, opaque symbols, or
// unknown; a branch on an unknown condition is explored both ways. Nothing of
// the analysed repository is executed: this is an interpreter over go/ssa with
// a flat three-point value lattice, used to enumerate what a decoder/encoder
// can return once some inputs (e.g. an opcode) are fixed.

// M1Val is an abstract value: M1Unknown, M1Int, M1Bool, M1Str, M1Nil, M1NonNil, M1Sym,
// M1Struct, M1Tuple, M1Iface or a pointer (*M1Cell).
type M1Val interface{}

type (
	// M1Unknown is any value.
	M1Unknown struct{}
	// M1Int is a known integer (bits normalised to its static type; signed values are sign-extended).
	M1Int struct{ Bits uint64 }
	// M1Bool is a known boolean.
	M1Bool bool
	// M1Str is a known string.
	M1Str string
	// M1Nil is the nil pointer/interface/slice/map/func.
	M1Nil struct{}
	// M1NonNil is an opaque value known not to be nil (e.g. the result of fmt.Errorf).
	M1NonNil struct{}
	// M1Sym is an opaque scalar with an identity (survives value-preserving conversions and copies).
	M1Sym struct{ Name string }
	// M1Struct is a struct value, field by field.
	M1Struct struct{ F []M1Val }
	// M1Tuple is a multi-value result.
	M1Tuple []M1Val
	// M1Iface is an interface value holding a concrete value of dynamic type T.
	M1Iface struct {
		T types.Type
		V M1Val
	}
)

// M1Cell is an abstract memory location (an Alloc or a field of one).
type M1Cell struct {
	v   M1Val
	sub []*M1Cell // struct cells only
}

func newCell(t types.Type, init M1Val) *M1Cell {
	c := &M1Cell{}
	if st, ok := t.Underlying().(*types.Struct); ok {
		is, _ := init.(M1Struct)
		for i := 0; i < st.NumFields(); i++ {
			var fv M1Val = M1Unknown{}
			if is.F != nil && i < len(is.F) {
				fv = is.F[i]
			}
			c.sub = append(c.sub, newCell(st.Field(i).Type(), fv))
		}
		return c
	}
	c.v = init
	return c
}

func (c *M1Cell) load() M1Val {
	if c.sub != nil {
		s := M1Struct{}
		for _, f := range c.sub {
			s.F = append(s.F, f.load())
		}
		return s
	}
	return c.v
}

func (c *M1Cell) store(v M1Val) {
	if c.sub != nil {
		is, _ := v.(M1Struct)
		for i, f := range c.sub {
			if is.F != nil && i < len(is.F) {
				f.store(is.F[i])
			} else {
				f.store(M1Unknown{})
			}
		}
		return
	}
	c.v = v
}

// M1Zero is the abstract zero value of t.
func M1Zero(t types.Type) M1Val {
	switch u := t.Underlying().(type) {
	case *types.Basic:
		switch {
		case u.Info()&types.IsInteger != 0:
			return M1Int{0}
		case u.Info()&types.IsBoolean != 0:
			return M1Bool(false)
		case u.Info()&types.IsString != 0:
			return M1Str("")
		}
		return M1Unknown{}
	case *types.Struct:
		s := M1Struct{}
		for i := 0; i < u.NumFields(); i++ {
			s.F = append(s.F, M1Zero(u.Field(i).Type()))
		}
		return s
	case *types.Pointer, *types.Interface, *types.Slice, *types.Map, *types.Signature, *types.Chan:
		return M1Nil{}
	}
	return M1Unknown{}
}

func intInfo(t types.Type) (bits uint, signed, ok bool) {
	b, isB := t.Underlying().(*types.Basic)
	if !isB || b.Info()&types.IsInteger == 0 {
		return 0, false, false
	}
	switch b.Kind() {
	case types.Int8:
		return 8, true, true
	case types.Int16:
		return 16, true, true
	case types.Int32:
		return 32, true, true
	case types.Int64, types.Int, types.UntypedInt, types.UntypedRune:
		return 64, true, true
	case types.Uint8:
		return 8, false, true
	case types.Uint16:
		return 16, false, true
	case types.Uint32:
		return 32, false, true
	case types.Uint64, types.Uint, types.Uintptr:
		return 64, false, true
	}
	return 0, false, false
}

// M1Norm wraps bits to the integer type t (two's complement; 64-bit int/uint).
func M1Norm(bits uint64, t types.Type) M1Val {
	n, signed, ok := intInfo(t)
	if !ok {
		return M1Unknown{}
	}
	if n < 64 {
		bits &= (1 << n) - 1
		if signed && bits&(1<<(n-1)) != 0 {
			bits |= ^uint64(0) << n
		}
	}
	return M1Int{bits}
}

// M1Outcome is the result of one explored path.
type M1Outcome struct {
	Results []M1Val
	Panic   bool
}

type absEval struct {
	p      *Prog
	prefix []bool
	made   []bool
	steps  int
	err    error
}

const (
	absMaxSteps = 200000
	absMaxPaths = 4096
	absMaxDepth = 8
)

// AbsRun explores every path of fn for the given abstract arguments (receiver
// first) and returns one outcome per path. Calls to repository functions are
// evaluated recursively; other calls yield unknown (fmt.Errorf / errors.New:
// non-nil). An error means the exploration was abandoned (undecided).
func (p *Prog) AbsRun(fn *ssa.Function, args []M1Val) ([]M1Outcome, error) {
	if fn == nil || fn.Blocks == nil {
		return nil, fmt.Errorf("no body")
	}
	var outs []M1Outcome
	work := [][]bool{nil}
	for len(work) > 0 {
		prefix := work[len(work)-1]
		work = work[:len(work)-1]
		e := &absEval{p: p, prefix: prefix}
		res, pan := e.call(fn, args, 0)
		if e.err != nil {
			return nil, e.err
		}
		outs = append(outs, M1Outcome{res, pan})
		if len(outs) > absMaxPaths {
			return nil, fmt.Errorf("more than %d paths", absMaxPaths)
		}
		for i := len(prefix); i < len(e.made); i++ {
			alt := append(append([]bool{}, e.made[:i]...), !e.made[i])
			work = append(work, alt)
		}
	}
	return outs, nil
}

func (e *absEval) decide() bool {
	k := len(e.made)
	d := true
	if k < len(e.prefix) {
		d = e.prefix[k]
	}
	e.made = append(e.made, d)
	return d
}

// absFnInfo caches a dense numbering of a function's values.
type absFnInfo struct {
	idx    map[ssa.Value]int
	n      int
	name   string
	consts map[*ssa.Const]M1Val
}

var absInfo = map[*ssa.Function]*absFnInfo{}

func absInfoOf(fn *ssa.Function) *absFnInfo {
	if fi, ok := absInfo[fn]; ok {
		return fi
	}
	fi := &absFnInfo{idx: map[ssa.Value]int{}, name: FnName(fn), consts: map[*ssa.Const]M1Val{}}
	for _, pa := range fn.Params {
		fi.idx[pa] = fi.n
		fi.n++
	}
	for _, fv := range fn.FreeVars {
		fi.idx[fv] = fi.n
		fi.n++
	}
	for _, b := range fn.Blocks {
		for _, in := range b.Instrs {
			if v, ok := in.(ssa.Value); ok {
				fi.idx[v] = fi.n
				fi.n++
			}
		}
	}
	absInfo[fn] = fi
	return fi
}

type absEnv struct {
	fi *absFnInfo
	v  []M1Val
}

func (e absEnv) set(k ssa.Value, a M1Val) { e.v[e.fi.idx[k]] = a }

func (e *absEval) call(fn *ssa.Function, args []M1Val, depth int) ([]M1Val, bool) {
	fi := absInfoOf(fn)
	env := absEnv{fi, make([]M1Val, fi.n)}
	for i, pa := range fn.Params {
		if i < len(args) {
			env.set(pa, args[i])
		}
	}
	val := func(v ssa.Value) M1Val {
		switch x := v.(type) {
		case *ssa.Const:
			if a, ok := fi.consts[x]; ok {
				return a
			}
			a := constVal(x)
			fi.consts[x] = a
			return a
		case *ssa.Function, *ssa.Global, *ssa.Builtin:
			return M1NonNil{}
		}
		if i, ok := fi.idx[v]; ok {
			if a := env.v[i]; a != nil {
				return a
			}
		}
		return M1Unknown{}
	}
	b := fn.Blocks[0]
	var prev *ssa.BasicBlock
	for {
		// phis in parallel
		if prev != nil {
			idx := -1
			for i, pb := range b.Preds {
				if pb == prev {
					idx = i
				}
			}
			tmp := map[*ssa.Phi]M1Val{}
			for _, in := range b.Instrs {
				ph, ok := in.(*ssa.Phi)
				if !ok {
					break
				}
				if idx >= 0 {
					tmp[ph] = val(ph.Edges[idx])
				} else {
					tmp[ph] = M1Unknown{}
				}
			}
			for ph, v := range tmp {
				env.set(ph, v)
			}
		}
		var next *ssa.BasicBlock
		for _, in := range b.Instrs {
			e.steps++
			if e.steps > absMaxSteps {
				e.err = fmt.Errorf("step limit exceeded in %s", FnName(fn))
				return nil, false
			}
			switch x := in.(type) {
			case *ssa.Phi, *ssa.DebugRef:
			case *ssa.Alloc:
				et := x.Type().Underlying().(*types.Pointer).Elem()
				env.set(x, newCell(et, M1Zero(et)))
			case *ssa.Store:
				if c, ok := val(x.Addr).(*M1Cell); ok {
					c.store(val(x.Val))
				}
			case *ssa.FieldAddr:
				if c, ok := val(x.X).(*M1Cell); ok && c.sub != nil && x.Field < len(c.sub) {
					env.set(x, c.sub[x.Field])
				} else {
					env.set(x, newCell(x.Type().Underlying().(*types.Pointer).Elem(), M1Unknown{}))
				}
			case *ssa.Field:
				if s, ok := val(x.X).(M1Struct); ok && x.Field < len(s.F) {
					env.set(x, s.F[x.Field])
				} else {
					env.set(x, M1Unknown{})
				}
			case *ssa.UnOp:
				env.set(x, absUnOp(x, val(x.X)))
			case *ssa.BinOp:
				env.set(x, absBinOp(x.Op, val(x.X), val(x.Y), x.X.Type(), x.Type()))
			case *ssa.Convert:
				env.set(x, absConv(val(x.X), x.X.Type(), x.Type()))
			case *ssa.ChangeType:
				env.set(x, val(x.X))
			case *ssa.MakeInterface:
				env.set(x, M1Iface{x.X.Type(), val(x.X)})
			case *ssa.ChangeInterface:
				env.set(x, val(x.X))
			case *ssa.Extract:
				if t, ok := val(x.Tuple).(M1Tuple); ok && x.Index < len(t) {
					env.set(x, t[x.Index])
				} else {
					env.set(x, M1Unknown{})
				}
			case *ssa.Call:
				res, pan := e.doCall(&x.Call, val, depth)
				if e.err != nil {
					return nil, false
				}
				if pan {
					return nil, true
				}
				env.set(x, res)
			case *ssa.If:
				c := val(x.Cond)
				var take bool
				if cb, ok := c.(M1Bool); ok {
					take = bool(cb)
				} else {
					take = e.decide()
				}
				if take {
					next = b.Succs[0]
				} else {
					next = b.Succs[1]
				}
			case *ssa.Jump:
				next = b.Succs[0]
			case *ssa.Return:
				var out []M1Val
				for _, r := range x.Results {
					out = append(out, val(r))
				}
				return out, false
			case *ssa.Panic:
				return nil, true
			case *ssa.Defer, *ssa.Go, *ssa.RunDefers, *ssa.Send, *ssa.MapUpdate:
				// no effect on the tracked state
			case *ssa.IndexAddr:
				env.set(x, newCell(x.Type().Underlying().(*types.Pointer).Elem(), M1Unknown{}))
			case ssa.Value:
				env.set(x, M1Unknown{})
			default:
				e.err = fmt.Errorf("unsupported instruction %T in %s", in, FnName(fn))
				return nil, false
			}
		}
		if next == nil {
			e.err = fmt.Errorf("block without terminator in %s", FnName(fn))
			return nil, false
		}
		prev, b = b, next
	}
}

func (e *absEval) doCall(c *ssa.CallCommon, val func(ssa.Value) M1Val, depth int) (M1Val, bool) {
	nres := c.Signature().Results().Len()
	unknown := func() M1Val {
		if nres > 1 {
			t := M1Tuple{}
			for i := 0; i < nres; i++ {
				t = append(t, M1Unknown{})
			}
			return t
		}
		return M1Unknown{}
	}
	if c.IsInvoke() {
		return unknown(), false
	}
	switch f := c.Value.(type) {
	case *ssa.Builtin:
		if f.Name() == "len" && len(c.Args) == 1 {
			if s, ok := val(c.Args[0]).(M1Str); ok {
				return M1Int{uint64(len(s))}, false
			}
		}
		return unknown(), false
	case *ssa.Function:
		if f.Blocks == nil || f.Pkg == nil || !isRepoPkg(f) {
			name := FnName(f)
			if name == "fmt.Errorf" || name == "errors.New" {
				return M1NonNil{}, false
			}
			return unknown(), false
		}
		if e.p.Funcs[absInfoOf(f).name] == f && depth < absMaxDepth {
			var args []M1Val
			for _, a := range c.Args {
				args = append(args, val(a))
			}
			res, pan := e.call(f, args, depth+1)
			if e.err != nil || pan {
				return nil, pan
			}
			if nres > 1 {
				return M1Tuple(res), false
			}
			if nres == 1 && len(res) == 1 {
				return res[0], false
			}
			return M1Unknown{}, false
		}
	}
	return unknown(), false
}

func isRepoPkg(f *ssa.Function) bool {
	return f.Pkg != nil && f.Pkg.Pkg != nil && len(f.Pkg.Pkg.Path()) >= len(ModPrefix)-1 && f.Pkg.Pkg.Path()[:len(ModPrefix)-1] == ModPrefix[:len(ModPrefix)-1]
}

func constVal(c *ssa.Const) M1Val {
	if c.Value == nil {
		return M1Zero(c.Type())
	}
	switch c.Value.Kind() {
	case constant.Bool:
		return M1Bool(constant.BoolVal(c.Value))
	case constant.String:
		return M1Str(constant.StringVal(c.Value))
	case constant.Int:
		if u, ok := constant.Uint64Val(c.Value); ok {
			return M1Norm(u, c.Type())
		}
		if i, ok := constant.Int64Val(c.Value); ok {
			return M1Norm(uint64(i), c.Type())
		}
	}
	return M1Unknown{}
}

func absUnOp(x *ssa.UnOp, v M1Val) M1Val {
	switch x.Op {
	case token.MUL:
		if c, ok := v.(*M1Cell); ok {
			return c.load()
		}
		return M1Unknown{}
	case token.NOT:
		if b, ok := v.(M1Bool); ok {
			return !b
		}
	case token.SUB:
		if i, ok := v.(M1Int); ok {
			return M1Norm(-i.Bits, x.Type())
		}
	case token.XOR:
		if i, ok := v.(M1Int); ok {
			return M1Norm(^i.Bits, x.Type())
		}
	}
	return M1Unknown{}
}

func absConv(v M1Val, from, to types.Type) M1Val {
	fb, _, fok := intInfo(from)
	tb, _, tok := intInfo(to)
	switch a := v.(type) {
	case M1Int:
		if tok {
			return M1Norm(a.Bits, to)
		}
	case M1Sym:
		// value-preserving only when not narrowing
		if fok && tok && tb >= fb {
			return a
		}
	}
	return M1Unknown{}
}

func absBinOp(op token.Token, x, y M1Val, opType, resType types.Type) M1Val {
	xi, xok := x.(M1Int)
	yi, yok := y.(M1Int)
	if xok && yok {
		n, signed, ok := intInfo(opType)
		if !ok {
			return M1Unknown{}
		}
		a, b := xi.Bits, yi.Bits
		cmp := func(lt, eq bool) M1Val { return M1Bool(lt || eq) }
		less := a < b
		if signed {
			less = int64(a) < int64(b)
		}
		switch op {
		case token.ADD:
			return M1Norm(a+b, resType)
		case token.SUB:
			return M1Norm(a-b, resType)
		case token.MUL:
			return M1Norm(a*b, resType)
		case token.QUO, token.REM:
			if b == 0 {
				return M1Unknown{}
			}
			if signed {
				if op == token.QUO {
					return M1Norm(uint64(int64(a)/int64(b)), resType)
				}
				return M1Norm(uint64(int64(a)%int64(b)), resType)
			}
			if op == token.QUO {
				return M1Norm(a/b, resType)
			}
			return M1Norm(a%b, resType)
		case token.AND:
			return M1Norm(a&b, resType)
		case token.OR:
			return M1Norm(a|b, resType)
		case token.XOR:
			return M1Norm(a^b, resType)
		case token.AND_NOT:
			return M1Norm(a&^b, resType)
		case token.SHL:
			if b >= uint64(n) {
				return M1Norm(0, resType)
			}
			return M1Norm(a<<b, resType)
		case token.SHR:
			if signed {
				if b >= 64 {
					b = 63
				}
				return M1Norm(uint64(int64(a)>>b), resType)
			}
			if b >= uint64(n) {
				return M1Norm(0, resType)
			}
			return M1Norm(a>>b, resType)
		case token.EQL:
			return M1Bool(a == b)
		case token.NEQ:
			return M1Bool(a != b)
		case token.LSS:
			return cmp(less, false)
		case token.LEQ:
			return cmp(less, a == b)
		case token.GTR:
			return M1Bool(!less && a != b)
		case token.GEQ:
			return M1Bool(!less)
		}
		return M1Unknown{}
	}
	// absorbing elements with one unknown side
	if op == token.AND && (xok && xi.Bits == 0 || yok && yi.Bits == 0) {
		return M1Norm(0, resType)
	}
	if op == token.MUL && (xok && xi.Bits == 0 || yok && yi.Bits == 0) {
		return M1Norm(0, resType)
	}
	if xb, ok := x.(M1Bool); ok {
		if yb, ok := y.(M1Bool); ok {
			switch op {
			case token.EQL:
				return M1Bool(xb == yb)
			case token.NEQ:
				return M1Bool(xb != yb)
			}
		}
	}
	if xs, ok := x.(M1Str); ok {
		if ys, ok := y.(M1Str); ok {
			switch op {
			case token.EQL:
				return M1Bool(xs == ys)
			case token.NEQ:
				return M1Bool(xs != ys)
			case token.ADD:
				return xs + ys
			}
		}
	}
	// nil comparisons
	if op == token.EQL || op == token.NEQ {
		known, eq := false, false
		switch x.(type) {
		case M1Nil:
			switch y.(type) {
			case M1Nil:
				known, eq = true, true
			case M1NonNil, M1Iface, *M1Cell:
				known, eq = true, false
			}
		case M1NonNil, M1Iface, *M1Cell:
			if _, ok := y.(M1Nil); ok {
				known, eq = true, false
			}
		}
		if xs, ok := x.(M1Sym); ok {
			if ys, ok := y.(M1Sym); ok && xs == ys {
				known, eq = true, true
			}
		}
		if known {
			return M1Bool(eq == (op == token.EQL))
		}
	}
	return M1Unknown{}
}

// ---------------------------------------------------------------------------
// Per-element validation inside a loop.

func isLoopHeader(b *ssa.BasicBlock) bool {
	for _, p := range b.Preds {
		if b.Dominates(p) {
			return true
		}
	}
	return false
}

func isTypeAssertCond(v ssa.Value) bool {
	if u, ok := v.(*ssa.UnOp); ok && u.Op == token.NOT {
		v = u.X
	}
	ex, ok := v.(*ssa.Extract)
	if !ok {
		return false
	}
	ta, ok := ex.Tuple.(*ssa.TypeAssert)
	return ok && ta.CommaOk
}

// RejectInLoop is Reject for validations performed per element inside a loop,
// where the test cannot dominate the acceptance site: some branch edge carries
// all atoms of conj (its own condition being one of them), no selected site is
// reachable from that edge, and every other fact holding at that edge is
// structural (a loop-header condition or a type-switch/type-assertion test) or
// is itself a rejection (its opposite edge reaches no selected site) - so the
// rejection does not depend on an extra condition.
func (c *Ctx) RejectInLoop(fnName string, sel Sel, conj ...string) bool {
	rule := "reject-in-loop"
	construct := fmt.Sprintf("%s: when %s never [%s]", fnName, stripSpaces(joinAnd(conj)), sel.Name)
	fn, ins := c.sites(rule, fnName, sel)
	if ins == nil {
		return false
	}
	as, good := c.atoms(rule, construct, conj)
	if !good {
		return false
	}
	targets := instrSet(ins)
	inConj := func(a Atom) bool {
		for _, x := range as {
			if SameAtom(a, x) {
				return true
			}
		}
		return false
	}
	why := "no branch in this function establishes exactly {" + atomList(as) + "}; branch conditions present: " + c.condSummary(fn)
	pos := fn.Pos()
	for _, blk := range fn.Blocks {
		if len(blk.Instrs) == 0 {
			continue
		}
		ifi, ok := blk.Instrs[len(blk.Instrs)-1].(*ssa.If)
		if !ok {
			continue
		}
		base := FactsAt(blk)
		ca := CondAtom(ifi.Cond)
		for k, edgeAtom := range []Atom{ca, ca.Negate()} {
			if !inConj(edgeAtom) {
				continue
			}
			fs := append(append([]Fact{}, base...), Fact{edgeAtom, ifi})
			all := true
			for _, a := range as {
				hit := false
				for _, f := range fs {
					if SameAtom(f.Atom, a) {
						hit = true
					}
				}
				if !hit {
					all = false
				}
			}
			if !all {
				continue
			}
			pos = ifi.Pos()
			if _, reach := canReach(ipos{blk.Succs[k], 0}, true, targets, nil); reach {
				why = fmt.Sprintf("the branch where %s holds still reaches [%s]", joinAnd(conj), sel.Name)
				continue
			}
			extra := ""
			for _, f := range base {
				if inConj(f.Atom) || isTypeAssertCond(f.If.Cond) || isLoopHeader(f.If.Block()) {
					continue
				}
				// which successor of f.If leads here? the opposite one must be a rejection
				fb := f.If.Block()
				opp := fb.Succs[0]
				if edgeDominates(fb, fb.Succs[0], blk) {
					opp = fb.Succs[1]
				}
				if _, reach := canReach(ipos{opp, 0}, true, targets, nil); reach {
					extra = f.Atom.String()
				}
			}
			if extra != "" {
				why = "the rejection additionally depends on " + extra
				continue
			}
			c.OK(rule, construct, fmt.Sprintf("rejecting edge at %s; %d acceptance site(s)", c.P.Pos(ifi.Pos()), len(ins)))
			return true
		}
	}
	c.Fail(rule, construct, pos, why)
	return false
}

func joinAnd(ss []string) string {
	out := ""
	for i, s := range ss {
		if i > 0 {
			out += " && "
		}
		out += s
	}
	return out
}

// PhiEdgeUnder returns the incoming value of phi on the edge whose
// predecessor block is reached only when spec holds.
func (p *Prog) PhiEdgeUnder(phi *ssa.Phi, spec string) (ssa.Value, bool) {
	a, err := p.ParseAtom(spec)
	if err != nil {
		return nil, false
	}
	var found ssa.Value
	n := 0
	for i, e := range phi.Edges {
		pb := phi.Block().Preds[i]
		for _, f := range FactsAt(pb) {
			if SameAtom(f.Atom, a) {
				found = e
				n++
				break
			}
		}
	}
	return found, n == 1
}

// PhiLeaves returns the non-phi values reaching v through phis only.
func PhiLeaves(v ssa.Value) []ssa.Value {
	var out []ssa.Value
	seen := map[ssa.Value]bool{}
	var walk func(x ssa.Value)
	walk = func(x ssa.Value) {
		if seen[x] {
			return
		}
		seen[x] = true
		if ph, ok := x.(*ssa.Phi); ok {
			for _, e := range ph.Edges {
				walk(e)
			}
			return
		}
		out = append(out, x)
	}
	walk(v)
	return out
}

// StoreDesc selects every store whose rendering "addr = value" equals desc.
func StoreDesc(desc string) Sel {
	return Sel{"store " + desc, func(p *Prog, fn *ssa.Function) []ssa.Instruction {
		var out []ssa.Instruction
		eachInstr(fn, func(in ssa.Instruction) {
			if s, ok := in.(*ssa.Store); ok && DescribeInstr(s) == desc {
				out = append(out, in)
			}
		})
		return out
	}}
}

// NeverAfterUntil: after a `from` site (inclusive) no `to` site is reached
// before passing a `barrier` site (e.g. the call that starts the next loop
// iteration's element).
func (c *Ctx) NeverAfterUntil(fnName string, from, to, barrier Sel) bool {
	rule := "never-after"
	construct := fmt.Sprintf("%s: after [%s] never [%s] before [%s]", fnName, from.Name, to.Name, barrier.Name)
	fn, ins := c.sites(rule, fnName, from)
	if ins == nil {
		return false
	}
	targets := instrSet(to.F(c.P, fn))
	if len(targets) == 0 {
		c.Undecided(rule, construct, "no ["+to.Name+"] site in this function")
		return false
	}
	barriers := instrSet(barrier.F(c.P, fn))
	for _, in := range ins {
		if t, reach := canReach(posOf(in), true, targets, barriers); reach {
			c.Fail(rule, construct, InstrPos(t), fmt.Sprintf("`%s` is reachable after `%s` (%s)", DescribeInstr(t), DescribeInstr(in), c.P.Pos(InstrPos(in))))
			return false
		}
	}
	c.OK(rule, construct, fmt.Sprintf("%d start site(s), %d forbidden site(s), %d barrier(s)", len(ins), len(targets), len(barriers)))
	return true
}

// PhiEdgesUnder returns the incoming values of phi on all edges whose
// predecessor block is reached only when spec holds, and the others.
func (p *Prog) PhiEdgesUnder(phi *ssa.Phi, spec string) (under, other []ssa.Value, err error) {
	a, err := p.ParseAtom(spec)
	if err != nil {
		return nil, nil, err
	}
	for i, e := range phi.Edges {
		pb := phi.Block().Preds[i]
		hit := false
		for _, f := range FactsAt(pb) {
			if SameAtom(f.Atom, a) {
				hit = true
				break
			}
		}
		if hit {
			under = append(under, e)
		} else {
			other = append(other, e)
		}
	}
	return under, other, nil
}

// FactStringsAt renders the facts dominating an instruction.
func FactStringsAt(in ssa.Instruction) []string {
	var out []string
	for _, f := range FactsAtInstr(in) {
		out = append(out, f.Atom.String())
	}
	return out
}
