package core

import (
	"fmt"
	"go/token"
	"sort"
	"strings"

	"golang.org/x/tools/go/ssa"
)

// MustFn resolves a function by short name, recording an undecided
// obligation when it has disappeared.
func (c *Ctx) MustFn(name string) *ssa.Function {
	fn := c.P.Fn(name)
	if fn == nil {
		c.Undecided("anchor", name, "function not found in /repo (renamed or removed?)")
		return nil
	}
	c.Touch(name)
	return fn
}

func (c *Ctx) sites(rule, fnName string, sel Sel) (*ssa.Function, []ssa.Instruction) {
	fn := c.MustFn(fnName)
	if fn == nil {
		return nil, nil
	}
	ins := sel.F(c.P, fn)
	if len(ins) == 0 {
		c.Undecided(rule, fnName+": "+sel.Name, "no such site in this function")
		return fn, nil
	}
	c.Stats["sites"] += len(ins)
	return fn, ins
}

func (c *Ctx) atoms(rule, construct string, specs []string) ([]Atom, bool) {
	var out []Atom
	for _, s := range specs {
		a, err := c.P.ParseAtom(s)
		if err != nil {
			c.Undecided(rule, construct, "bad spec "+s+": "+err.Error())
			return nil, false
		}
		out = append(out, a)
	}
	return out, true
}

// Guard: every selected site is dominated by branch edges establishing each
// spec atom exactly (canonical linear form).
func (c *Ctx) Guard(fnName string, sel Sel, specs ...string) bool {
	return c.guard(fnName, sel, true, specs)
}

// GuardImp: like Guard but a dominating fact that implies the spec suffices.
func (c *Ctx) GuardImp(fnName string, sel Sel, specs ...string) bool {
	return c.guard(fnName, sel, false, specs)
}

func (c *Ctx) guard(fnName string, sel Sel, exact bool, specs []string) bool {
	rule := "guard-before"
	_, ins := c.sites(rule, fnName, sel)
	if ins == nil {
		return false
	}
	ok := true
	for _, spec := range specs {
		construct := fmt.Sprintf("%s: [%s] under %s", fnName, sel.Name, stripSpaces(spec))
		as, good := c.atoms(rule, construct, []string{spec})
		if !good {
			ok = false
			continue
		}
		var bad ssa.Instruction
		for _, in := range ins {
			if !holds(FactsAtInstr(in), as[0], exact) {
				bad = in
				break
			}
		}
		if bad != nil && guardedByPaths(bad.Parent(), [][]Atom{{as[0]}}, ins) {
			// not by dominance, but on no path consistent with the negated atom is a site reached
			c.OK(rule, construct, fmt.Sprintf("%d site(s), by path evaluation", len(ins)))
			continue
		}
		if bad != nil {
			ok = false
			c.Fail(rule, construct, InstrPos(bad), fmt.Sprintf("site `%s` is not dominated by a branch establishing %s; facts here: {%s}",
				DescribeInstr(bad), as[0], factStrings(FactsAtInstr(bad))))
		} else {
			c.OK(rule, construct, fmt.Sprintf("%d site(s)", len(ins)))
		}
	}
	return ok
}

// Reject: when all atoms of conj hold, no selected site is reached: there is a
// block X whose dominating branch facts include conj exactly, X cannot reach
// a site, and the deciding branches dominate every site (the test happens first).
func (c *Ctx) Reject(fnName string, sel Sel, conj ...string) bool {
	rule := "reject-before"
	construct := fmt.Sprintf("%s: when %s never [%s]", fnName, stripSpaces(strings.Join(conj, " && ")), sel.Name)
	fn, ins := c.sites(rule, fnName, sel)
	if ins == nil {
		return false
	}
	as, good := c.atoms(rule, construct, conj)
	if !good {
		return false
	}
	// candidate rejecting edges: an If edge on which all atoms of conj hold
	type cand struct {
		succ  *ssa.BasicBlock
		outer *ssa.If
	}
	var cands []cand
	for _, blk := range fn.Blocks {
		if len(blk.Instrs) == 0 {
			continue
		}
		ifi, ok := blk.Instrs[len(blk.Instrs)-1].(*ssa.If)
		if !ok {
			continue
		}
		base := FactsAt(blk)
		ca := CondAtom(ifi.Cond)
		for k, edgeAtom := range []Atom{ca, ca.Negate()} {
			fs := append(append([]Fact{}, base...), Fact{edgeAtom, ifi})
			all := true
			var outer *ssa.If
			// A conj atom is matched by a fact it is the same as or that it implies (x == 4
			// implies 2 <= x and x <= 5: a range test stands for each of its values). Every
			// numeric fact about the same terms must then be implied too, otherwise the edge
			// is not taken whenever the atom holds.
			ordered := func(k string) bool { return k == LE || k == EQ || k == NE }
			for _, a := range as {
				hit := false
				for _, f := range fs {
					same := SameAtom(f.Atom, a)
					// only a value (x == k) may stand for the range test it falls in; a
					// bound matched by a weaker bound would hide a moved boundary
					imp := !same && a.Kind == EQ && ordered(f.Atom.Kind) && Implies(a, f.Atom)
					if same || imp {
						if !hit || imp {
							if outer == nil || f.If.Block().Dominates(outer.Block()) {
								outer = f.If
							}
						}
						hit = true
						if same {
							break
						}
					}
				}
				if hit && ordered(a.Kind) {
					for _, f := range fs {
						if ordered(f.Atom.Kind) && SameTerms(f.Atom, a) && !SameAtom(f.Atom, a) && !Implies(a, f.Atom) {
							// only disqualifying when the match relied on implication
							exact := false
							for _, g := range fs {
								if SameAtom(g.Atom, a) {
									exact = true
								}
							}
							if !exact {
								hit = false
							}
						}
					}
				}
				if !hit {
					all = false
					break
				}
			}
			// the edge's own condition must be (implied by) one of the conj atoms
			own := false
			for _, a := range as {
				if SameAtom(edgeAtom, a) || a.Kind == EQ && ordered(edgeAtom.Kind) && Implies(a, edgeAtom) {
					own = true
				}
			}
			if all && own {
				cands = append(cands, cand{blk.Succs[k], outer})
			}
		}
	}
	if len(cands) == 0 {
		if _, ok := unreachableUnder(fn, as, ins); ok && atomsTested(fn, as) {
			c.OK(rule, construct, fmt.Sprintf("%d site(s), by path evaluation", len(ins)))
			return true
		}
		c.Fail(rule, construct, fn.Pos(), "no branch in this function establishes exactly {"+atomList(as)+"}; branch conditions present: "+c.condSummary(fn))
		return false
	}
	for _, in := range ins {
		ok := false
		why := ""
		for _, cd := range cands {
			if _, reach := canReach(ipos{cd.succ, 0}, true, map[ssa.Instruction]bool{in: true}, nil); reach {
				why = fmt.Sprintf("the branch where %s holds still reaches `%s`", strings.Join(conj, " && "), DescribeInstr(in))
				continue
			}
			if !cd.outer.Block().Dominates(in.Block()) && bypasses(fn, cd.outer.Block(), in, as) {
				if why == "" {
					why = fmt.Sprintf("site `%s` is reachable without passing the test", DescribeInstr(in))
				}
				continue
			}
			ok = true
			break
		}
		if !ok {
			if _, unreach := unreachableUnder(fn, as, ins); unreach && atomsTested(fn, as) {
				c.OK(rule, construct, fmt.Sprintf("%d site(s), by path evaluation", len(ins)))
				return true
			}
			c.Fail(rule, construct, InstrPos(in), why)
			return false
		}
	}
	c.OK(rule, construct, fmt.Sprintf("%d rejecting edge(s); %d site(s)", len(cands), len(ins)))
	return true
}

func firstInstr(b *ssa.BasicBlock) ssa.Instruction {
	if len(b.Instrs) > 0 {
		return b.Instrs[0]
	}
	return nil
}

func atomList(as []Atom) string {
	var ss []string
	for _, a := range as {
		ss = append(ss, a.String())
	}
	return strings.Join(ss, " ; ")
}

func (c *Ctx) condSummary(fn *ssa.Function) string {
	set := map[string]bool{}
	eachInstr(fn, func(in ssa.Instruction) {
		if ifi, ok := in.(*ssa.If); ok {
			set[CondAtom(ifi.Cond).String()] = true
		}
	})
	var ss []string
	for s := range set {
		ss = append(ss, s)
	}
	sort.Strings(ss)
	if len(ss) > 40 {
		ss = append(ss[:40], "…")
	}
	return strings.Join(ss, " ; ")
}

// Edge selects the first instruction of the branch successor on which the
// atom holds (either polarity of a matching If).
func (c *Ctx) Edge(spec string) Sel {
	return Sel{"branch " + stripSpaces(spec), func(p *Prog, fn *ssa.Function) []ssa.Instruction {
		a, err := p.ParseAtom(spec)
		if err != nil {
			return nil
		}
		var out []ssa.Instruction
		eachInstr(fn, func(in ssa.Instruction) {
			ifi, ok := in.(*ssa.If)
			if !ok {
				return
			}
			ca := CondAtom(ifi.Cond)
			b := ifi.Block()
			if SameAtom(ca, a) {
				if f := firstInstr(b.Succs[0]); f != nil {
					out = append(out, f)
				}
			} else if SameAtom(ca.Negate(), a) {
				if f := firstInstr(b.Succs[1]); f != nil {
					out = append(out, f)
				}
			}
		})
		return out
	}}
}

// CallAfter: from every `from` site, every path to a normal return passes a
// call (or runs a dominating defer) of one of the named callees.
func (c *Ctx) CallAfter(fnName string, from Sel, callees ...string) bool {
	return c.passThrough("call-after", fnName, from, Calls(callees...), Defers(callees...), false)
}

// PassThrough: from every `from` site every path to a normal return passes a `to` site.
func (c *Ctx) PassThrough(fnName string, from Sel, to Sel) bool {
	return c.passThrough("pass-through", fnName, from, to, Sel{"", func(*Prog, *ssa.Function) []ssa.Instruction { return nil }}, false)
}

// PassThroughIncl is PassThrough where the from instruction itself may be the `to` site's block start (edge selectors).
func (c *Ctx) PassThroughIncl(fnName string, from Sel, to Sel) bool {
	return c.passThrough("pass-through", fnName, from, to, Sel{"", func(*Prog, *ssa.Function) []ssa.Instruction { return nil }}, true)
}

// CallAfterIncl is CallAfter for edge selectors (the selected instruction itself is inspected).
func (c *Ctx) CallAfterIncl(fnName string, from Sel, callees ...string) bool {
	return c.passThrough("call-after", fnName, from, Calls(callees...), Defers(callees...), true)
}

func (c *Ctx) passThrough(rule, fnName string, from, to, deferred Sel, inclusive bool) bool {
	construct := fmt.Sprintf("%s: after [%s] always [%s]", fnName, from.Name, to.Name)
	fn, ins := c.sites(rule, fnName, from)
	if ins == nil {
		return false
	}
	barriers := instrSet(to.F(c.P, fn))
	defs := deferred.F(c.P, fn)
	rets := instrSet(Returns().F(c.P, fn))
	for _, in := range ins {
		covered := false
		for _, d := range defs {
			if d.Block().Dominates(in.Block()) {
				covered = true
			}
		}
		if covered {
			continue
		}
		if r, reach := canReach(posOf(in), inclusive, rets, barriers); reach {
			c.Fail(rule, construct, InstrPos(in), fmt.Sprintf("from `%s` the return at %s is reachable without [%s]", DescribeInstr(in), c.P.Pos(InstrPos(r)), to.Name))
			return false
		}
	}
	c.OK(rule, construct, fmt.Sprintf("%d start site(s), %d target site(s)", len(ins), len(barriers)+len(defs)))
	return true
}

// NeverAfter: no `to` site is reachable after a `from` site.
func (c *Ctx) NeverAfter(fnName string, from Sel, to Sel, inclusive bool) bool {
	rule := "never-after"
	construct := fmt.Sprintf("%s: after [%s] never [%s]", fnName, from.Name, to.Name)
	fn, ins := c.sites(rule, fnName, from)
	if ins == nil {
		return false
	}
	targets := instrSet(to.F(c.P, fn))
	for _, in := range ins {
		if t, reach := canReach(posOf(in), inclusive, targets, nil); reach {
			c.Fail(rule, construct, InstrPos(t), fmt.Sprintf("`%s` is reachable after `%s` (%s)", DescribeInstr(t), DescribeInstr(in), c.P.Pos(InstrPos(in))))
			return false
		}
	}
	c.OK(rule, construct, fmt.Sprintf("%d start site(s), %d forbidden site(s)", len(ins), len(targets)))
	return true
}

// Before: every `then` site is dominated by some `first` site.
func (c *Ctx) Before(fnName string, first, then Sel) bool {
	rule := "call-before"
	construct := fmt.Sprintf("%s: [%s] precedes every [%s]", fnName, first.Name, then.Name)
	fn, ins := c.sites(rule, fnName, then)
	if ins == nil {
		return false
	}
	firsts := first.F(c.P, fn)
	if len(firsts) == 0 {
		c.Fail(rule, construct, fn.Pos(), "no ["+first.Name+"] site in this function")
		return false
	}
	for _, in := range ins {
		ok := false
		pi := posOf(in)
		for _, f := range firsts {
			pf := posOf(f)
			if pf.b == pi.b && pf.i < pi.i || pf.b != pi.b && pf.b.Dominates(pi.b) {
				ok = true
				break
			}
		}
		if !ok {
			c.Fail(rule, construct, InstrPos(in), fmt.Sprintf("`%s` is reachable without a preceding [%s]", DescribeInstr(in), first.Name))
			return false
		}
	}
	c.OK(rule, construct, fmt.Sprintf("%d site(s)", len(ins)))
	return true
}

// Count: the number of selected sites is within [min,max] (max<0: unbounded).
func (c *Ctx) Count(fnName string, sel Sel, min, max int) bool {
	rule := "site-count"
	construct := fmt.Sprintf("%s: [%s] count in [%d,%d]", fnName, sel.Name, min, max)
	fn := c.MustFn(fnName)
	if fn == nil {
		return false
	}
	n := len(sel.F(c.P, fn))
	if n < min || max >= 0 && n > max {
		c.Fail(rule, construct, fn.Pos(), fmt.Sprintf("found %d", n))
		return false
	}
	c.OK(rule, construct, fmt.Sprintf("found %d", n))
	return true
}

// Has: at least one selected site exists.
func (c *Ctx) Has(fnName string, sel Sel) bool { return c.Count(fnName, sel, 1, -1) }

// HasBranch: the function contains a branch on exactly this condition (either polarity).
func (c *Ctx) HasBranch(fnName string, spec string) bool {
	rule := "branch-present"
	construct := fmt.Sprintf("%s: tests %s", fnName, stripSpaces(spec))
	fn := c.MustFn(fnName)
	if fn == nil {
		return false
	}
	a, err := c.P.ParseAtom(spec)
	if err != nil {
		c.Undecided(rule, construct, err.Error())
		return false
	}
	found := false
	eachInstr(fn, func(in ssa.Instruction) {
		if ifi, ok := in.(*ssa.If); ok {
			ca := CondAtom(ifi.Cond)
			if SameAtom(ca, a) || SameAtom(ca.Negate(), a) {
				found = true
			}
		}
	})
	if !found {
		c.Fail(rule, construct, fn.Pos(), "no such branch; conditions present: "+c.condSummary(fn))
		return false
	}
	c.OK(rule, construct, "")
	return true
}

// DumpFacts prints, for debugging and rule writing, every call/store/return
// of fn with the facts that dominate it.
func DumpFacts(p *Prog, fn *ssa.Function) string {
	var sb strings.Builder
	for _, f := range Closures(fn) {
		fmt.Fprintf(&sb, "== %s\n", FnName(f))
		for _, b := range f.Blocks {
			fs := factStrings(FactsAt(b))
			if len(fs) > 400 {
				fs = fs[:400] + "…"
			}
			fmt.Fprintf(&sb, " block %d  facts{%s}\n", b.Index, fs)
			for _, in := range b.Instrs {
				switch x := in.(type) {
				case *ssa.Call, *ssa.Store, *ssa.Return, *ssa.Go, *ssa.Defer, *ssa.Panic, *ssa.If, *ssa.MapUpdate, *ssa.Send:
					extra := ""
					if cc, ok := in.(ssa.CallInstruction); ok {
						extra = "   <" + CalleeName(cc.Common()) + ">"
					}
					if _, ok := x.(*ssa.If); ok {
						extra = fmt.Sprintf("   -> %d / %d", b.Succs[0].Index, b.Succs[1].Index)
					}
					fmt.Fprintf(&sb, "   %-6s %s%s\n", p.Pos(InstrPos(in)), DescribeInstr(in), extra)
				}
			}
		}
	}
	return sb.String()
}

var _ = token.NoPos

// Via: every path from a `from` site to a `to` site passes a `via` site
// (the `to` site is not reachable from `from` once `via` sites are barriers).
func (c *Ctx) Via(fnName string, from, to, via Sel) bool {
	rule := "via"
	construct := fmt.Sprintf("%s: from [%s] to [%s] only through [%s]", fnName, from.Name, to.Name, via.Name)
	fn, ins := c.sites(rule, fnName, from)
	if ins == nil {
		return false
	}
	tos := to.F(c.P, fn)
	vias := via.F(c.P, fn)
	if len(tos) == 0 || len(vias) == 0 {
		c.Undecided(rule, construct, fmt.Sprintf("%d target site(s), %d via site(s)", len(tos), len(vias)))
		return false
	}
	for _, in := range ins {
		if t, reach := canReach(posOf(in), false, instrSet(tos), instrSet(vias)); reach {
			c.Fail(rule, construct, InstrPos(in), fmt.Sprintf("`%s` (%s) is reachable from `%s` without passing [%s]", DescribeInstr(t), c.P.Pos(InstrPos(t)), DescribeInstr(in), via.Name))
			return false
		}
	}
	c.OK(rule, construct, fmt.Sprintf("%d start, %d target, %d via site(s)", len(ins), len(tos), len(vias)))
	return true
}

// EveryCyclePasses: every CFG cycle that contains a selected site's block also
// has to pass one of the selected sites, i.e. no loop iteration around those
// sites can skip all of them (a `continue` that bypasses the step).
func (c *Ctx) EveryCyclePasses(fnName string, sel Sel) bool {
	rule := "every-iteration"
	construct := fmt.Sprintf("%s: every iteration of the loop around [%s] passes it", fnName, sel.Name)
	fn, ins := c.sites(rule, fnName, sel)
	if ins == nil {
		return false
	}
	sb := map[*ssa.BasicBlock]bool{}
	for _, in := range ins {
		sb[in.Block()] = true
	}
	reach := func(from *ssa.BasicBlock, avoid map[*ssa.BasicBlock]bool) map[*ssa.BasicBlock]bool {
		seen := map[*ssa.BasicBlock]bool{}
		var walk func(b *ssa.BasicBlock)
		walk = func(b *ssa.BasicBlock) {
			for _, s := range b.Succs {
				if seen[s] || avoid[s] {
					continue
				}
				seen[s] = true
				walk(s)
			}
		}
		walk(from)
		return seen
	}
	inLoop := false
	for b := range sb {
		fromS := reach(b, nil)
		if !fromS[b] {
			continue // this site is not in a loop
		}
		inLoop = true
		for _, other := range fn.Blocks {
			if sb[other] || !fromS[other] {
				continue
			}
			// other is reachable from the site; is it in the same loop (reaches the site back)?
			if !reach(other, nil)[b] {
				continue
			}
			// a cycle through other that avoids every site block?
			if reach(other, sb)[other] {
				c.Fail(rule, construct, InstrPos(firstInstr(other)), "a cycle of this loop avoids every selected site (an iteration can skip the step)")
				return false
			}
		}
	}
	if !inLoop {
		c.Undecided(rule, construct, "the selected sites are not inside a loop")
		return false
	}
	c.OK(rule, construct, fmt.Sprintf("%d site(s)", len(ins)))
	return true
}

// bypasses reports whether site can be reached from the entry without going
// through block test, using only edges whose condition does not contradict
// the atoms conj (a path that took `x == 0` cannot be one on which `x == 4`
// holds: earlier cases of a switch chain are no way around a later case's test).
func bypasses(fn *ssa.Function, test *ssa.BasicBlock, site ssa.Instruction, conj []Atom) bool {
	type key struct{ b, pred *ssa.BasicBlock }
	seen := map[key]bool{}
	target := site.Block()
	var walk func(b, pred *ssa.BasicBlock) bool
	walk = func(b, pred *ssa.BasicBlock) bool {
		if b == test || seen[key{b, pred}] {
			return false
		}
		if b == target {
			return true
		}
		seen[key{b, pred}] = true
		if len(b.Instrs) > 0 {
			if ifi, ok := b.Instrs[len(b.Instrs)-1].(*ssa.If); ok {
				// a branch decided by the edge the block was entered through (an error
				// variable set on the way and tested at a merge) has one feasible successor
				taken, known := threadIf(ifi, pred)
				for k, s := range b.Succs {
					if known && (k == 0) != taken {
						continue
					}
					contra := false
					for _, f := range condFacts(ifi, ifi.Cond, k == 0, 0) {
						if f.If != ifi {
							continue
						}
						for _, a := range conj {
							if Contradicts(f.Atom, a) {
								contra = true
							}
						}
					}
					if !contra && walk(s, b) {
						return true
					}
				}
				return false
			}
		}
		for _, s := range b.Succs {
			if walk(s, b) {
				return true
			}
		}
		return false
	}
	if len(fn.Blocks) == 0 {
		return true
	}
	return walk(fn.Blocks[0], nil)
}

// Contradicts: atoms a and b cannot hold together (decided only for the simple
// forms: t == k1 vs t == k2, t == k vs t != k, boolean t vs !t, and t <= k1 vs t >= k2 with k2 > k1).
func Contradicts(a, b Atom) bool {
	a, b = a.norm(), b.norm()
	if SameAtom(a, b.Negate()) {
		return true
	}
	sameVec := func(x, y Lin) bool {
		if len(x.Coef) != len(y.Coef) {
			return false
		}
		for t, c := range x.Coef {
			if y.Coef[t] != c {
				return false
			}
		}
		return true
	}
	if a.Kind == EQ && b.Kind == EQ && sameVec(a.L, b.L) && a.L.K != b.L.K {
		return true
	}
	if a.Kind == LE && b.Kind == LE && sameVec(a.L, b.L.scale(-1)) {
		// Σ + ka <= 0 and -Σ + kb <= 0  =>  Σ <= -ka and Σ >= kb : empty iff kb > -ka
		return b.L.K > -a.L.K
	}
	if a.Kind == EQ && b.Kind == LE && sameVec(a.L, b.L) {
		return -a.L.K+b.L.K > 0 // Σ = -ka ; need Σ + kb <= 0
	}
	if b.Kind == EQ && a.Kind == LE && sameVec(a.L, b.L) {
		return -b.L.K+a.L.K > 0
	}
	return false
}

// atomsTested: every atom of the assumption is decided by some branch of fn (a
// condition over the same terms), so the path evaluation rests on tests that exist.
func atomsTested(fn *ssa.Function, as []Atom) bool {
	for _, a := range as {
		// a bound must be, exactly, the condition of some branch (or its negation): the path
		// form would otherwise accept a moved boundary (> turned into >=) as "still rejecting";
		// a value atom x == k may be decided by any test over the same terms (case list vs range)
		if a.Kind != EQ {
			if !atomIsBranchCondition(fn, a) {
				return false
			}
			continue
		}
		found := false
		eachInstr(fn, func(in ssa.Instruction) {
			ifi, ok := in.(*ssa.If)
			if !ok || found {
				return
			}
			for _, f := range append(condFacts(ifi, ifi.Cond, true, 0), condFacts(ifi, ifi.Cond, false, 0)...) {
				if SameTerms(f.Atom, a) || f.Atom.L.String() == a.L.String() {
					found = true
				}
			}
		})
		if !found {
			return false
		}
	}
	return true
}
