package core

// x_quicb.go: helpers written for the QUIC properties C28, C29, C31, C32.
//
//   XGenericMethod   bodies of methods of generic types (Load lists no generic method)
//   XPaths           acyclic path enumeration of a small function with select / phi resolution
//   XReject          Reject with value holes instead of literal local-dependent terms
//   XCheckedAfter    "from this site every accepting exit passes the test on its good edge"
//   XLockBalanced    acquire/release typestate with entry state, result-acquire, path-sensitive defers
//   XFieldRefs       every reference (load, store, address) of a field is inside the allowed functions

import (
	"fmt"
	"go/constant"
	"go/token"
	"go/types"
	"os"
	"strings"

	"golang.org/x/tools/go/ssa"
)

// ---------------------------------------------------------------------------
// generic methods

// XGenericMethod returns the generic body of method name of the generic named
// type typeQ ("quic.queue"). Load does not list such bodies (only their
// instantiations are reachable, and those are skipped). The function is
// registered in p.Funcs (not p.All) under its FnName so that rules can address it.
func (p *Prog) XGenericMethod(typeQ, name string) *ssa.Function {
	tn, ok := p.Object(typeQ).(*types.TypeName)
	if !ok {
		return nil
	}
	named, ok := tn.Type().(*types.Named)
	if !ok {
		return nil
	}
	for i := 0; i < named.NumMethods(); i++ {
		m := named.Method(i)
		if m.Name() != name {
			continue
		}
		fn := p.SSA.FuncValue(m)
		if fn == nil || fn.Blocks == nil {
			return nil
		}
		if _, dup := p.Funcs[FnName(fn)]; !dup {
			p.Funcs[FnName(fn)] = fn
		}
		return fn
	}
	return nil
}

// XGenericMethods returns all methods (with bodies) of the generic named type.
func (p *Prog) XGenericMethods(typeQ string) []*ssa.Function {
	tn, ok := p.Object(typeQ).(*types.TypeName)
	if !ok {
		return nil
	}
	named, ok := tn.Type().(*types.Named)
	if !ok {
		return nil
	}
	var out []*ssa.Function
	for i := 0; i < named.NumMethods(); i++ {
		if fn := p.XGenericMethod(typeQ, named.Method(i).Name()); fn != nil {
			out = append(out, fn)
		}
	}
	return out
}

// ---------------------------------------------------------------------------
// selectors

// xSameField compares struct fields modulo generic instantiation.
func xSameField(a, b *types.Var) bool {
	return a != nil && b != nil && a.Origin() == b.Origin()
}

// XStores is Stores that also matches the field inside generic bodies and
// instantiations (fields compared by their origin).
func XStores(field string) Sel {
	return Sel{"store " + field, func(p *Prog, fn *ssa.Function) []ssa.Instruction {
		fv := p.Field(field)
		var out []ssa.Instruction
		eachInstr(fn, func(in ssa.Instruction) {
			if s, ok := in.(*ssa.Store); ok && xSameField(fieldOfAddr(s.Addr), fv) {
				out = append(out, in)
			}
		})
		return out
	}}
}

// XEntry selects the first instruction of the function.
func XEntry() Sel {
	return Sel{"entry", func(p *Prog, fn *ssa.Function) []ssa.Instruction {
		if len(fn.Blocks) == 0 || len(fn.Blocks[0].Instrs) == 0 {
			return nil
		}
		return []ssa.Instruction{fn.Blocks[0].Instrs[0]}
	}}
}

// XRetVal returns the value of the i-th result of a return. In functions
// with a defer go/ssa keeps results in allocs ("return %t0"): the value is
// then the one stored into that alloc last in the return's own block. nil
// when it cannot be determined (the synthetic recover block).
func XRetVal(r *ssa.Return, i int) ssa.Value {
	if i >= len(r.Results) {
		return nil
	}
	v := r.Results[i]
	u, ok := v.(*ssa.UnOp)
	if !ok || u.Op != token.MUL {
		return v
	}
	a, ok := u.X.(*ssa.Alloc)
	if !ok {
		return v
	}
	b := r.Block()
	for k := len(b.Instrs) - 1; k >= 0; k-- {
		if st, ok := b.Instrs[k].(*ssa.Store); ok && st.Addr == a {
			return st.Val
		}
	}
	if spilledParam(a) != nil || len(b.Preds) > 0 {
		return v
	}
	return nil
}

// XRet selects returns whose i-th result (see XRetVal) satisfies pred.
func XRet(i int, desc string, pred func(v ssa.Value) bool) Sel {
	return Sel{fmt.Sprintf("return #%d %s", i, desc), func(p *Prog, fn *ssa.Function) []ssa.Instruction {
		var out []ssa.Instruction
		eachInstr(fn, func(in ssa.Instruction) {
			if r, ok := in.(*ssa.Return); ok {
				if v := XRetVal(r, i); v != nil && pred(v) {
					out = append(out, in)
				}
			}
		})
		return out
	}}
}

func errIndex(fn *ssa.Function) int {
	res := fn.Signature.Results()
	ei := -1
	for i := 0; i < res.Len(); i++ {
		if isErrorType(res.At(i).Type()) {
			ei = i
		}
	}
	return ei
}

// XRetOK is RetOK that also works in functions with a defer.
func XRetOK() Sel {
	return Sel{"return <nil error>", func(p *Prog, fn *ssa.Function) []ssa.Instruction {
		ei := errIndex(fn)
		var out []ssa.Instruction
		eachInstr(fn, func(in ssa.Instruction) {
			r, ok := in.(*ssa.Return)
			if !ok {
				return
			}
			if ei < 0 {
				if len(r.Block().Preds) > 0 || r.Block().Index == 0 {
					out = append(out, in)
				}
				return
			}
			if c, ok := XRetVal(r, ei).(*ssa.Const); ok && c.Value == nil {
				out = append(out, in)
			}
		})
		return out
	}}
}

// XRetIs selects returns whose i-th result renders as term.
func XRetIs(i int, term string) Sel {
	return XRet(i, "= "+term, func(v ssa.Value) bool { return Term(v) == term })
}

// XRetNot selects returns whose i-th result is not the constant val
// (through phis: some incoming value is not that constant).
func XRetNot(i int, val string) Sel {
	return Sel{fmt.Sprintf("return #%d≠%s", i, val), func(p *Prog, fn *ssa.Function) []ssa.Instruction {
		var out []ssa.Instruction
		eachInstr(fn, func(in ssa.Instruction) {
			r, ok := in.(*ssa.Return)
			if !ok || i >= len(r.Results) {
				return
			}
			rv := XRetVal(r, i)
			if rv == nil {
				return
			}
			other := false
			returnLeaf(rv, map[ssa.Value]bool{}, func(v ssa.Value) {
				if c, ok := v.(*ssa.Const); !ok || constString(c) != val {
					other = true
				}
			})
			if other {
				out = append(out, in)
			}
		})
		return out
	}}
}

// XRetErrNonNil selects returns whose error result is not the constant nil.
func XRetErrNonNil() Sel {
	return Sel{"return <non-nil error>", func(p *Prog, fn *ssa.Function) []ssa.Instruction {
		ok := instrSet(XRetOK().F(p, fn))
		ei := errIndex(fn)
		var out []ssa.Instruction
		for _, in := range Returns().F(p, fn) {
			if !ok[in] && ei >= 0 && XRetVal(in.(*ssa.Return), ei) != nil {
				out = append(out, in)
			}
		}
		return out
	}}
}

// ---------------------------------------------------------------------------
// path enumeration

// XEvent is one observable step on a path.
type XEvent struct {
	Kind string // "recv", "send", "call", "defer", "go"
	On   string // channel term, or callee name
	In   ssa.Instruction
}

// XPath is one acyclic entry→exit path.
type XPath struct {
	Blocks []*ssa.BasicBlock
	Conds  []Atom // branch facts taken (data-dependent branches only)
	Events []XEvent
	Exit   ssa.Instruction // *ssa.Return or *ssa.Panic
	sel    map[*ssa.Select]int
}

// Resolve follows phis according to the path taken.
func (x *XPath) Resolve(v ssa.Value) ssa.Value {
	for d := 0; d < 16; d++ {
		ph, ok := v.(*ssa.Phi)
		if !ok {
			return v
		}
		idx := -1
		for i, b := range x.Blocks {
			if b == ph.Block() {
				idx = i
			}
		}
		if idx <= 0 {
			return v
		}
		pred := x.Blocks[idx-1]
		found := false
		for k, pb := range ph.Block().Preds {
			if pb == pred && k < len(ph.Edges) {
				v = ph.Edges[k]
				found = true
				break
			}
		}
		if !found {
			return v
		}
	}
	return v
}

// Ret renders the i-th result of the path's return ("" for a panic exit).
func (x *XPath) Ret(i int) string {
	r, ok := x.Exit.(*ssa.Return)
	if !ok || i >= len(r.Results) {
		return ""
	}
	v := XRetVal(r, i)
	if v == nil {
		return ""
	}
	return Term(x.Resolve(v))
}

// Arg renders argument i of a call event under the path's phi choices.
func (x *XPath) Arg(ev XEvent, i int) string {
	ci, ok := ev.In.(ssa.CallInstruction)
	if !ok || i >= len(BaselineArgs(ci.Common())) {
		return ""
	}
	return Term(x.Resolve(BaselineArgs(ci.Common())[i]))
}

// ArgValue returns argument i of a call event under the path's phi choices.
func (x *XPath) ArgValue(ev XEvent, i int) ssa.Value {
	ci, ok := ev.In.(ssa.CallInstruction)
	if !ok || i >= len(BaselineArgs(ci.Common())) {
		return nil
	}
	return x.Resolve(BaselineArgs(ci.Common())[i])
}

// Holds reports whether the path took a branch establishing exactly atom a.
func (x *XPath) Holds(a Atom) bool {
	for _, c := range x.Conds {
		if SameAtom(c, a) {
			return true
		}
	}
	return false
}

// Count counts events of a kind whose On satisfies pred.
func (x *XPath) Count(kind string, pred func(on string) bool) int {
	n := 0
	for _, e := range x.Events {
		if e.Kind == kind && pred(e.On) {
			n++
		}
	}
	return n
}

func (x *XPath) clone() *XPath {
	y := &XPath{sel: map[*ssa.Select]int{}}
	y.Blocks = append(y.Blocks, x.Blocks...)
	y.Conds = append(y.Conds, x.Conds...)
	y.Events = append(y.Events, x.Events...)
	for k, v := range x.sel {
		y.sel[k] = v
	}
	return y
}

// XPaths enumerates the acyclic entry→exit paths of fn. A select forks over
// its cases (and default when non-blocking); the dispatch branches on the
// select index are resolved, not forked. cyclic reports that a back edge was
// cut (paths through loops are not represented); truncated that limit was hit.
func XPaths(fn *ssa.Function, limit int) (paths []*XPath, cyclic, truncated bool) {
	if len(fn.Blocks) == 0 {
		return nil, false, false
	}
	var walk func(b *ssa.BasicBlock, i int, x *XPath)
	enter := func(b *ssa.BasicBlock, x *XPath) {
		for _, pb := range x.Blocks {
			if pb == b {
				cyclic = true
				return
			}
		}
		x.Blocks = append(x.Blocks, b)
		walk(b, 0, x)
	}
	walk = func(b *ssa.BasicBlock, i int, x *XPath) {
		if len(paths) >= limit {
			truncated = true
			return
		}
		for ; i < len(b.Instrs); i++ {
			switch in := b.Instrs[i].(type) {
			case *ssa.Select:
				lo := 0
				if !in.Blocking {
					lo = -1
				}
				for k := lo; k < len(in.States); k++ {
					y := x.clone()
					y.sel[in] = k
					if k >= 0 {
						st := in.States[k]
						kind := "recv"
						if st.Dir == types.SendOnly {
							kind = "send"
						}
						y.Events = append(y.Events, XEvent{kind, Term(st.Chan), in})
					}
					walk(b, i+1, y)
				}
				return
			case *ssa.UnOp:
				if in.Op == token.ARROW {
					x.Events = append(x.Events, XEvent{"recv", Term(in.X), in})
				}
			case *ssa.Send:
				x.Events = append(x.Events, XEvent{"send", Term(in.Chan), in})
			case *ssa.Call:
				x.Events = append(x.Events, XEvent{"call", xCallee(&in.Call), in})
			case *ssa.Defer:
				x.Events = append(x.Events, XEvent{"defer", xCallee(&in.Call), in})
			case *ssa.Go:
				x.Events = append(x.Events, XEvent{"go", xCallee(&in.Call), in})
			case *ssa.Return:
				x.Exit = in
				paths = append(paths, x)
				return
			case *ssa.Panic:
				x.Exit = in
				paths = append(paths, x)
				return
			case *ssa.Jump:
				enter(b.Succs[0], x)
				return
			case *ssa.If:
				if v, known := x.evalCond(in.Cond); known {
					k := 1
					if v {
						k = 0
					}
					enter(b.Succs[k], x)
					return
				}
				a := CondAtom(in.Cond)
				// a repeated test of a pure condition follows the edge taken before
				if xPure(in.Cond) {
					if x.Holds(a) {
						enter(b.Succs[0], x)
						return
					}
					if x.Holds(a.Negate()) {
						enter(b.Succs[1], x)
						return
					}
				}
				y := x.clone()
				x.Conds = append(x.Conds, a)
				enter(b.Succs[0], x)
				y.Conds = append(y.Conds, a.Negate())
				enter(b.Succs[1], y)
				return
			}
		}
	}
	x := &XPath{sel: map[*ssa.Select]int{}}
	enter(fn.Blocks[0], x)
	return paths, cyclic, truncated
}

func xCallee(cc *ssa.CallCommon) string {
	n := CalleeName(cc)
	if n == "" {
		if u, ok := cc.Value.(*ssa.UnOp); ok && u.Op == token.MUL {
			if fa, ok := u.X.(*ssa.FieldAddr); ok {
				return "fieldcall:" + fieldName(fa.X.Type(), fa.Field)
			}
		}
	}
	return n
}

// evalCond decides branch conditions that are determined by the path: tests
// of a select's chosen index, and boolean constants reached through phis.
func (x *XPath) evalCond(v ssa.Value) (val, known bool) {
	v = x.Resolve(v)
	switch c := v.(type) {
	case *ssa.Const:
		if c.Value != nil && c.Value.String() == "true" {
			return true, true
		}
		if c.Value != nil && c.Value.String() == "false" {
			return false, true
		}
	case *ssa.UnOp:
		if c.Op == token.NOT {
			if r, ok := x.evalCond(c.X); ok {
				return !r, true
			}
		}
	case *ssa.BinOp:
		if c.Op != token.EQL && c.Op != token.NEQ {
			return false, false
		}
		idx := func(a, b ssa.Value) (bool, bool) {
			e, ok := a.(*ssa.Extract)
			if !ok || e.Index != 0 {
				return false, false
			}
			s, ok := e.Tuple.(*ssa.Select)
			if !ok {
				return false, false
			}
			k, ok := b.(*ssa.Const)
			if !ok || k.Value == nil {
				return false, false
			}
			choice, have := x.sel[s]
			if !have {
				return false, false
			}
			kv, isInt := XConstInt(k)
			if !isInt {
				return false, false
			}
			return int64(choice) == kv, true
		}
		if r, ok := idx(c.X, c.Y); ok {
			return r == (c.Op == token.EQL), true
		}
		if r, ok := idx(c.Y, c.X); ok {
			return r == (c.Op == token.EQL), true
		}
	}
	return false, false
}

// ---------------------------------------------------------------------------
// guards with value holes

// XHole is a placeholder in a spec ("§n", "§v"): it stands for any SSA value
// in the condition's computation that satisfies Pred.
type XHole struct {
	Name string
	Desc string
	Pred func(ssa.Value) bool
}

// XResultOf matches the idx-th result of a call to one of the named callees
// (idx < 0: the call value itself).
func XResultOf(idx int, names ...string) func(ssa.Value) bool {
	return func(v ssa.Value) bool {
		if idx < 0 {
			c, ok := v.(*ssa.Call)
			return ok && matchCallee(&c.Call, names)
		}
		e, ok := v.(*ssa.Extract)
		if !ok || e.Index != idx {
			return false
		}
		c, ok := e.Tuple.(*ssa.Call)
		return ok && matchCallee(&c.Call, names)
	}
}

// XResultOfCall matches the idx-th result of this very call instruction.
func XResultOfCall(call ssa.Instruction, idx int) func(ssa.Value) bool {
	return func(v ssa.Value) bool {
		if idx < 0 {
			return v == call.(ssa.Value)
		}
		e, ok := v.(*ssa.Extract)
		return ok && e.Index == idx && e.Tuple == call.(ssa.Value)
	}
}

// XLoadOf matches a load of the named field (any base object).
func (p *Prog) XLoadOf(field string) func(ssa.Value) bool {
	fv := p.Field(field)
	return func(v ssa.Value) bool {
		switch x := v.(type) {
		case *ssa.UnOp:
			return x.Op == token.MUL && fv != nil && fieldOfAddr(x.X) == fv
		case *ssa.Field:
			t := x.X.Type()
			if st, ok := t.Underlying().(*types.Struct); ok && x.Field < st.NumFields() {
				return fv != nil && st.Field(x.Field) == fv
			}
		}
		return false
	}
}

// holeR renders a branch condition like the canonical renderer does, except
// that values matching a hole are rendered as the hole's name (so that specs
// do not have to spell out long, local-dependent operand terms).
type holeR struct {
	holes []XHole
	used  map[string]bool
}

func (h *holeR) match(v ssa.Value) string {
	for _, ho := range h.holes {
		if ho.Pred(v) {
			h.used[ho.Name] = true
			return ho.Name
		}
	}
	return ""
}

func (h *holeR) term(v ssa.Value) string {
	if n := h.match(v); n != "" {
		return n
	}
	switch x := v.(type) {
	case *ssa.Call:
		if b, ok := x.Call.Value.(*ssa.Builtin); ok && (b.Name() == "len" || b.Name() == "cap") && len(x.Call.Args) == 1 {
			return b.Name() + "(" + h.term(x.Call.Args[0]) + ")"
		}
	case *ssa.Convert:
		return h.term(x.X)
	case *ssa.ChangeType:
		return h.term(x.X)
	case *ssa.MakeInterface:
		return h.term(x.X)
	case *ssa.ChangeInterface:
		return h.term(x.X)
	}
	return Term(v)
}

func (h *holeR) lin(v ssa.Value, d int) Lin {
	if n := h.match(v); n != "" {
		return Lin{Coef: map[string]int64{n: 1}}
	}
	if d < 10 {
		switch x := v.(type) {
		case *ssa.Const:
			return Linearize(x)
		case *ssa.Convert:
			if isIntegral(x.Type()) && isIntegral(x.X.Type()) {
				return h.lin(x.X, d+1)
			}
		case *ssa.ChangeType:
			return h.lin(x.X, d+1)
		case *ssa.BinOp:
			if isIntegral(x.Type()) {
				switch x.Op {
				case token.ADD:
					return h.lin(x.X, d+1).add(h.lin(x.Y, d+1), 1)
				case token.SUB:
					return h.lin(x.X, d+1).add(h.lin(x.Y, d+1), -1)
				case token.MUL:
					a, b := h.lin(x.X, d+1), h.lin(x.Y, d+1)
					if a.isConst() {
						return b.scale(a.K)
					}
					if b.isConst() {
						return a.scale(b.K)
					}
				case token.SHL:
					b := h.lin(x.Y, d+1)
					if b.isConst() && b.K >= 0 && b.K < 62 {
						return h.lin(x.X, d+1).scale(1 << uint(b.K))
					}
				}
			}
		case *ssa.UnOp:
			if x.Op == token.SUB && isIntegral(x.Type()) {
				return h.lin(x.X, d+1).scale(-1)
			}
		}
	}
	return Lin{Coef: map[string]int64{h.term(v): 1}}
}

func (h *holeR) cmpLin(v ssa.Value) Lin {
	if isIntegral(v.Type()) {
		return h.lin(v, 0)
	}
	if c, ok := v.(*ssa.Const); ok && c.Value == nil && constString(c) == "nil" {
		return Lin{Coef: map[string]int64{}}
	}
	return Lin{Coef: map[string]int64{h.term(v): 1}}
}

func (h *holeR) cond(v ssa.Value) Atom {
	switch x := v.(type) {
	case *ssa.UnOp:
		if x.Op == token.NOT {
			return h.cond(x.X).Negate()
		}
	case *ssa.BinOp:
		switch x.Op {
		case token.EQL:
			return Atom{Kind: EQ, L: h.cmpLin(x.X).add(h.cmpLin(x.Y), -1)}.norm()
		case token.NEQ:
			return Atom{Kind: NE, L: h.cmpLin(x.X).add(h.cmpLin(x.Y), -1)}.norm()
		}
		if isIntegral(x.X.Type()) {
			a, b := h.lin(x.X, 0), h.lin(x.Y, 0)
			switch x.Op {
			case token.LSS:
				l := a.add(b, -1)
				l.K++
				return Atom{Kind: LE, L: l}
			case token.LEQ:
				return Atom{Kind: LE, L: a.add(b, -1)}
			case token.GTR:
				l := b.add(a, -1)
				l.K++
				return Atom{Kind: LE, L: l}
			case token.GEQ:
				return Atom{Kind: LE, L: b.add(a, -1)}
			}
		}
	}
	return Atom{Kind: TRUE, L: Lin{Coef: map[string]int64{h.term(v): 1}}}
}

// xMatchIf: does the If test spec, reading hole names for the values that
// satisfy the holes' predicates? Every hole must occur in the condition.
// Returns the successor index on which spec holds.
func (c *Ctx) xMatchIf(ifi *ssa.If, spec string, holes []XHole) (int, bool) {
	h := &holeR{holes: holes, used: map[string]bool{}}
	ca := h.cond(ifi.Cond)
	for _, ho := range holes {
		if !h.used[ho.Name] {
			return 0, false
		}
	}
	a, err := c.P.ParseAtom(spec)
	if err != nil {
		return 0, false
	}
	if SameAtom(ca, a) {
		return 0, true
	}
	if SameAtom(ca.Negate(), a) {
		return 1, true
	}
	return 0, false
}

func holeDesc(holes []XHole) string {
	var ss []string
	for _, h := range holes {
		ss = append(ss, h.Name+"="+h.Desc)
	}
	return strings.Join(ss, ", ")
}

// XReject is Reject for one atom whose operands are described by holes:
// some branch tests exactly spec, the edge on which it holds cannot reach a
// selected site, and the test dominates every selected site.
func (c *Ctx) XReject(fnName string, sel Sel, spec string, holes ...XHole) bool {
	rule := "reject-before"
	construct := fmt.Sprintf("%s: when %s (%s) never [%s]", fnName, stripSpaces(spec), holeDesc(holes), sel.Name)
	fn, ins := c.sites(rule, fnName, sel)
	if ins == nil {
		return false
	}
	type cand struct {
		ifi  *ssa.If
		succ *ssa.BasicBlock
	}
	var cands []cand
	eachInstr(fn, func(in ssa.Instruction) {
		if ifi, ok := in.(*ssa.If); ok {
			if k, ok := c.xMatchIf(ifi, spec, holes); ok {
				cands = append(cands, cand{ifi, ifi.Block().Succs[k]})
			}
		}
	})
	if len(cands) == 0 {
		c.Fail(rule, construct, fn.Pos(), "no branch in this function tests exactly this condition; branch conditions present: "+c.condSummary(fn))
		return false
	}
	for _, in := range ins {
		ok := false
		why := ""
		for _, cd := range cands {
			if _, reach := canReach(ipos{cd.succ, 0}, true, map[ssa.Instruction]bool{in: true}, nil); reach {
				why = fmt.Sprintf("the branch where %s holds still reaches `%s`", spec, DescribeInstr(in))
				continue
			}
			if !cd.ifi.Block().Dominates(in.Block()) {
				if why == "" {
					why = fmt.Sprintf("site `%s` is reachable without passing the test", DescribeInstr(in))
				}
				continue
			}
			ok = true
			break
		}
		if !ok {
			c.Fail(rule, construct, InstrPos(in), why)
			return false
		}
	}
	c.OK(rule, construct, fmt.Sprintf("%d rejecting edge(s); %d site(s)", len(cands), len(ins)))
	return true
}

// XCheckedAfter: from every `from` site, every path to an `accept` site
// passes a branch testing spec, and the edge on which spec holds reaches no
// accept site. (For values validated after they were produced, inside loops
// or switch arms, where the test does not dominate the accepting return.)
func (c *Ctx) XCheckedAfter(fnName string, from, accept Sel, spec string, holes ...XHole) bool {
	construct := fmt.Sprintf("%s: after [%s] no [%s] unless tested !(%s) (%s)", fnName, from.Name, accept.Name, stripSpaces(spec), holeDesc(holes))
	fn, ins := c.sites("checked-after", fnName, from)
	if ins == nil {
		return false
	}
	return c.xCheckedAfter(construct, fn, ins, accept.F(c.P, fn), spec, holes)
}

func (c *Ctx) xCheckedAfter(construct string, fn *ssa.Function, from, accept []ssa.Instruction, spec string, holes []XHole) bool {
	rule := "checked-after"
	if len(accept) == 0 {
		c.Undecided(rule, construct, "no accepting site in this function")
		return false
	}
	type cand struct {
		ifi *ssa.If
		bad *ssa.BasicBlock
	}
	var cands []cand
	eachInstr(fn, func(in ssa.Instruction) {
		if ifi, ok := in.(*ssa.If); ok {
			if k, ok := c.xMatchIf(ifi, spec, holes); ok {
				cands = append(cands, cand{ifi, ifi.Block().Succs[k]})
			}
		}
	})
	if len(cands) == 0 {
		c.Fail(rule, construct, fn.Pos(), "no branch in this function tests exactly this condition; branch conditions present: "+c.condSummary(fn))
		return false
	}
	acc := instrSet(accept)
	barriers := map[ssa.Instruction]bool{}
	for _, cd := range cands {
		barriers[cd.ifi] = true
		if t, reach := canReach(ipos{cd.bad, 0}, true, acc, nil); reach {
			c.Fail(rule, construct, InstrPos(cd.ifi), fmt.Sprintf("the branch where %s holds still reaches `%s` (%s)", spec, DescribeInstr(t), c.P.Pos(InstrPos(t))))
			return false
		}
	}
	for _, in := range from {
		if t, reach := canReach(posOf(in), false, acc, barriers); reach {
			c.Fail(rule, construct, InstrPos(in), fmt.Sprintf("after `%s`, `%s` (%s) is reachable without the test", DescribeInstr(in), DescribeInstr(t), c.P.Pos(InstrPos(t))))
			return false
		}
	}
	c.OK(rule, construct, fmt.Sprintf("%d test(s); %d start site(s); %d accepting site(s)", len(cands), len(from), len(accept)))
	return true
}

// ---------------------------------------------------------------------------
// lock typestate with entry state, result-acquire and path-sensitive defers

// XLockOp declares the effect of a callee on lock objects. The base object
// is Obj when set, else the rendering of the first argument (receiver) without
// a leading "&" — or, for Kind "acq-result", the rendering of the call's
// result. With Fields, the objects are base+"."+field for each field.
type XLockOp struct {
	Callee string
	Kind   string // "acq", "acq-if-nil", "acq-if-true", "rel", "acq-result"
	Fields []string
	Obj    string
}

func xLockObjs(in ssa.Instruction, cc *ssa.CallCommon, op *XLockOp) []string {
	base := op.Obj
	if base == "" {
		if op.Kind == "acq-result" {
			if v, ok := in.(ssa.Value); ok {
				base = Term(v)
			}
		} else if len(cc.Args) > 0 {
			base = strings.TrimPrefix(Term(cc.Args[0]), "&")
		} else {
			base = "?"
		}
	}
	if len(op.Fields) == 0 {
		return []string{base}
	}
	var out []string
	for _, f := range op.Fields {
		out = append(out, base+"."+f)
	}
	return out
}

// XLockSites counts the calls/defers in fn (closures excluded) that match an op.
func XLockSites(fn *ssa.Function, ops []XLockOp) int {
	n := 0
	eachInstr(fn, func(in ssa.Instruction) {
		if ci, ok := in.(ssa.CallInstruction); ok {
			for i := range ops {
				if matchCallee(ci.Common(), []string{ops[i].Callee}) {
					n++
					break
				}
			}
		}
	})
	return n
}

// XLockBalanced: on every path of fn, starting with heldAtEntry held: no
// double acquire, no release (immediate or deferred) of an object that is
// not held, one consistent state at every join, and at every return exactly
// heldAtReturn held after the deferred releases registered on that path ran.
func (c *Ctx) XLockBalanced(fnName string, ops []XLockOp, heldAtEntry, heldAtReturn []string) bool {
	rule := "lock-typestate"
	construct := fnName + ": acquire/release balanced"
	if len(heldAtEntry) > 0 {
		construct += " (entered holding " + strings.Join(heldAtEntry, ",") + ")"
	}
	if len(heldAtReturn) > 0 {
		construct += " (returns holding " + strings.Join(heldAtReturn, ",") + ")"
	}
	fn := c.MustFn(fnName)
	if fn == nil {
		return false
	}
	find := func(cc *ssa.CallCommon) *XLockOp {
		for i := range ops {
			if matchCallee(cc, []string{ops[i].Callee}) {
				return &ops[i]
			}
		}
		return nil
	}
	type pend struct {
		call ssa.Value
		objs []string
		kind string
	}
	const dp = "defer:"
	in := map[*ssa.BasicBlock]lockState{}
	inSet := map[*ssa.BasicBlock]bool{}
	nOps := 0
	var failPos token.Pos
	fail := ""
	setFail := func(pos token.Pos, msg string) {
		if fail == "" {
			fail, failPos = msg, pos
		}
	}
	setIn := func(b *ssa.BasicBlock, s lockState, from ssa.Instruction) bool {
		if !inSet[b] {
			inSet[b] = true
			in[b] = s.clone()
			return true
		}
		if in[b].String() != s.String() {
			setFail(InstrPos(from), fmt.Sprintf("inconsistent lock state at join (block %d): %s vs %s", b.Index, in[b], s))
		}
		return false
	}
	entry := lockState{}
	for _, h := range heldAtEntry {
		entry[h] = 1
	}
	work := []*ssa.BasicBlock{fn.Blocks[0]}
	setIn(fn.Blocks[0], entry, nil)
	for len(work) > 0 && fail == "" {
		b := work[len(work)-1]
		work = work[:len(work)-1]
		st := in[b].clone()
		var pending *pend
		for _, instr := range b.Instrs {
			switch x := instr.(type) {
			case *ssa.Defer:
				if op := find(&x.Call); op != nil {
					nOps++
					if op.Kind != "rel" {
						setFail(InstrPos(instr), "deferred acquire is not modelled")
						break
					}
					for _, o := range xLockObjs(instr, &x.Call, op) {
						st[dp+o]++
					}
				}
			case *ssa.Call:
				op := find(&x.Call)
				if op == nil {
					continue
				}
				nOps++
				objs := xLockObjs(instr, &x.Call, op)
				switch op.Kind {
				case "acq", "acq-result":
					for _, o := range objs {
						if st[o] > 0 {
							setFail(InstrPos(instr), "double acquire of "+o)
						}
						st[o]++
					}
				case "rel":
					for _, o := range objs {
						if st[o] <= 0 {
							setFail(InstrPos(instr), "release of "+o+" which is not held on this path")
						}
						st[o]--
					}
				case "acq-if-nil", "acq-if-true":
					for _, o := range objs {
						if st[o] > 0 {
							setFail(InstrPos(instr), "double acquire of "+o)
						}
					}
					pending = &pend{x, objs, op.Kind}
				}
			case *ssa.Return:
				got := lockState{}
				for k, v := range st {
					if !strings.HasPrefix(k, dp) {
						got[k] += v
					}
				}
				for k, v := range st {
					if strings.HasPrefix(k, dp) && v > 0 {
						o := strings.TrimPrefix(k, dp)
						got[o] -= v
						if got[o] < 0 {
							setFail(InstrPos(instr), "deferred release of "+o+" which is not held at this return")
						}
					}
				}
				want := lockState{}
				for _, h := range heldAtReturn {
					want[h] = 1
				}
				if fail == "" && got.String() != want.String() {
					setFail(InstrPos(instr), fmt.Sprintf("return with lock state %s, expected %s", got, want))
				}
			}
			if fail != "" {
				break
			}
		}
		if fail != "" {
			break
		}
		if pending != nil {
			ifi, ok := b.Instrs[len(b.Instrs)-1].(*ssa.If)
			resolved := false
			push := func(acqIdx int) {
				acq, not := st.clone(), st.clone()
				for _, o := range pending.objs {
					acq[o]++
				}
				if setIn(b.Succs[acqIdx], acq, ifi) {
					work = append(work, b.Succs[acqIdx])
				}
				if setIn(b.Succs[1-acqIdx], not, ifi) {
					work = append(work, b.Succs[1-acqIdx])
				}
			}
			if ok {
				if bo, ok := ifi.Cond.(*ssa.BinOp); ok && (bo.Op == token.NEQ || bo.Op == token.EQL) && pending.kind == "acq-if-nil" {
					if isResultOf(bo.X, pending.call) && isNilConst(bo.Y) || isResultOf(bo.Y, pending.call) && isNilConst(bo.X) {
						resolved = true
						if bo.Op == token.NEQ {
							push(1)
						} else {
							push(0)
						}
					}
				}
				if pending.kind == "acq-if-true" {
					cond := ifi.Cond
					neg := false
					for {
						if u, ok := cond.(*ssa.UnOp); ok && u.Op == token.NOT {
							cond = u.X
							neg = !neg
							continue
						}
						break
					}
					if isResultOf(cond, pending.call) {
						resolved = true
						if neg {
							push(1)
						} else {
							push(0)
						}
					}
				}
			}
			if !resolved {
				setFail(InstrPos(pending.call.(ssa.Instruction)), "conditional acquire of "+strings.Join(pending.objs, ",")+" whose result is not tested immediately (idiom not recognised)")
			}
			continue
		}
		for _, s := range b.Succs {
			var last ssa.Instruction
			if len(b.Instrs) > 0 {
				last = b.Instrs[len(b.Instrs)-1]
			}
			if setIn(s, st, last) {
				work = append(work, s)
			}
		}
	}
	if fail != "" {
		c.Fail(rule, construct, failPos, fail)
		return false
	}
	if nOps == 0 {
		c.Undecided(rule, construct, "no acquire/release operation found in this function")
		return false
	}
	c.Stats["lock_ops"] += nOps
	c.OK(rule, construct, fmt.Sprintf("%d lock operation(s)", nOps))
	return true
}

// ---------------------------------------------------------------------------
// field confinement

// XFieldRefs: every reference to the field (load, store or address
// computation) occurs in one of the allowed outermost functions. extra lists
// functions to scan in addition to p.All (generic bodies).
func (c *Ctx) XFieldRefs(field string, extra []*ssa.Function, allowed ...string) bool {
	rule := "field-confined"
	construct := field + " referenced only in {" + strings.Join(allowed, ", ") + "}"
	fv := c.P.Field(field)
	if fv == nil {
		c.Undecided(rule, construct, "field not found")
		return false
	}
	allow := map[string]bool{}
	for _, a := range allowed {
		allow[a] = true
	}
	n := 0
	ok := true
	seen := map[*ssa.Function]bool{}
	scan := func(fn *ssa.Function) {
		if seen[fn] {
			return
		}
		seen[fn] = true
		outer := FnName(Outer(fn))
		eachInstr(fn, func(in ssa.Instruction) {
			hit := false
			switch x := in.(type) {
			case *ssa.FieldAddr:
				hit = xSameField(fieldOfAddr(x), fv)
			case *ssa.Field:
				if st, isSt := x.X.Type().Underlying().(*types.Struct); isSt && x.Field < st.NumFields() {
					hit = xSameField(st.Field(x.Field), fv)
				}
			}
			if !hit {
				return
			}
			n++
			if !allow[outer] {
				ok = false
				c.Fail(rule, construct, InstrPos(in), "reference in "+outer+", which is not an allowed function")
			}
		})
	}
	for _, fn := range c.P.All {
		scan(fn)
	}
	for _, fn := range extra {
		for _, f := range Closures(fn) {
			scan(f)
		}
	}
	if n == 0 {
		c.Undecided(rule, construct, "no reference found at all")
		return false
	}
	if ok {
		c.OK(rule, construct, fmt.Sprintf("%d reference(s)", n))
	}
	return ok
}

// XStoresIn lists the stores to the field in the given functions (closures
// included); used for fields of generic types whose methods are not in p.All.
func (p *Prog) XStoresIn(field string, fns []*ssa.Function) map[string][]ssa.Instruction {
	out := map[string][]ssa.Instruction{}
	for _, fn := range fns {
		for _, f := range Closures(fn) {
			for _, in := range XStores(field).F(p, f) {
				out[FnName(Outer(f))] = append(out[FnName(Outer(f))], in)
			}
		}
	}
	return out
}

// XDump prints every obligation recorded so far when VSA_DUMP is set (rule development aid).
func (c *Ctx) XDump() {
	if os.Getenv("VSA_DUMP") == "" {
		return
	}
	for _, o := range c.Obls {
		fmt.Printf("  [%s] %s %s -- %s\n", o.Status, o.Rule, o.Construct, o.Detail)
	}
}

// XGreater builds the canonical atom "x > y" from the linear form of an SSA
// value and a spec-syntax right-hand side.
func (p *Prog) XGreater(x ssa.Value, y string) (Atom, error) {
	r, err := p.parseLin(y)
	if err != nil {
		return Atom{}, err
	}
	l := r.add(Linearize(x), -1)
	l.K++
	return Atom{Kind: LE, L: l}, nil
}

// XRetFrom: the i-th result of every selected return derives from a value satisfying pred.
func (c *Ctx) XRetFrom(fnName string, sel Sel, i int, desc string, pred func(ssa.Value) bool) bool {
	rule := "derives-from"
	construct := fmt.Sprintf("%s: result %d of [%s] derives from %s", fnName, i, sel.Name, desc)
	_, ins := c.sites(rule, fnName, sel)
	if ins == nil {
		return false
	}
	for _, in := range ins {
		r, ok := in.(*ssa.Return)
		if !ok {
			c.Undecided(rule, construct, "site is not a return")
			return false
		}
		v := XRetVal(r, i)
		if v == nil || !DependsOn(v, pred) {
			c.Fail(rule, construct, InstrPos(in), fmt.Sprintf("returned value `%s` does not derive from %s", Term(r.Results[i]), desc))
			return false
		}
	}
	c.OK(rule, construct, fmt.Sprintf("%d site(s)", len(ins)))
	return true
}

// XCallWith is a value predicate: a call of callee whose argument idx renders as term.
func XCallWith(callee string, idx int, term string) func(ssa.Value) bool {
	return func(v ssa.Value) bool {
		call, ok := v.(*ssa.Call)
		if !ok || !matchCallee(&call.Call, []string{callee}) || idx >= len(BaselineArgs(&call.Call)) {
			return false
		}
		return Term(BaselineArgs(&call.Call)[idx]) == term
	}
}

// XRootAlloc returns the local allocation an address, slice or load is based on (nil if none).
func XRootAlloc(v ssa.Value) *ssa.Alloc {
	for i := 0; i < 8; i++ {
		switch x := v.(type) {
		case *ssa.Slice:
			v = x.X
			continue
		case *ssa.Convert:
			v = x.X
			continue
		}
		break
	}
	return rootAlloc(v)
}

// XMatchIf reports whether the If tests spec (holes filled from its own condition) and on which successor spec holds.
func (c *Ctx) XMatchIf(ifi *ssa.If, spec string, holes ...XHole) (int, bool) {
	return c.xMatchIf(ifi, spec, holes)
}

// XH builds a hole.
func XH(name, desc string, pred func(ssa.Value) bool) XHole {
	return XHole{Name: name, Desc: desc, Pred: pred}
}

// XSel builds a selector.
func XSel(name string, f func(p *Prog, fn *ssa.Function) []ssa.Instruction) Sel {
	return Sel{Name: name, F: f}
}

// XConstInt returns the integer value of an SSA constant (ok=false for non-integers; the zero value nil counts as 0 for integer types).
func XConstInt(v ssa.Value) (int64, bool) {
	k, ok := v.(*ssa.Const)
	if !ok {
		return 0, false
	}
	if k.Value == nil {
		return 0, isIntegral(k.Type())
	}
	if k.Value.Kind() != constant.Int {
		return 0, false
	}
	return constant.Int64Val(k.Value)
}

// xPure: the value is computed without memory loads or calls (its meaning cannot change between two tests).
func xPure(v ssa.Value) bool {
	pure := true
	Backward(v, func(x ssa.Value) bool {
		switch y := x.(type) {
		case *ssa.UnOp:
			if y.Op == token.MUL || y.Op == token.ARROW {
				if a, ok := y.X.(*ssa.Alloc); !ok || spilledParam(a) == nil {
					pure = false
				}
			}
		case *ssa.Call, *ssa.Lookup, *ssa.Index, *ssa.Next, *ssa.Select:
			pure = false
		}
		return pure
	})
	return pure
}
