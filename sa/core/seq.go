package core

import (
	"fmt"
	"sort"
	"strings"

	"golang.org/x/tools/go/ssa"
)

// ---------------------------------------------------------------------------
// E5a: wire-primitive sequences. A writer and its reader are abstracted to the
// source-ordered sequence of wire primitives they apply (resolved callees
// mapped through a vocabulary); the two sequences must agree.

// PrimSeq returns the primitives applied by fn (and its closures), in source order.
// vocab maps callee names (as in Calls) to a primitive token; callees mapped
// to "" are ignored.
func (p *Prog) PrimSeq(fn *ssa.Function, vocab map[string]string) []string {
	type ev struct {
		pos int
		tok string
	}
	var evs []ev
	for _, f := range Closures(fn) {
		eachInstr(f, func(in ssa.Instruction) {
			ci, ok := in.(ssa.CallInstruction)
			if !ok {
				return
			}
			n := CalleeName(ci.Common())
			if tok, ok := vocab[n]; ok && tok != "" {
				evs = append(evs, ev{int(InstrPos(in)), tok})
			}
		})
	}
	sort.SliceStable(evs, func(i, j int) bool { return evs[i].pos < evs[j].pos })
	var out []string
	for _, e := range evs {
		out = append(out, e.tok)
	}
	return out
}

// SeqAgree: writer and reader apply the same primitive sequence.
func (c *Ctx) SeqAgree(writer, reader string, wvocab, rvocab map[string]string) bool {
	rule := "codec-sequence"
	construct := writer + " ~ " + reader
	w, r := c.MustFn(writer), c.MustFn(reader)
	if w == nil || r == nil {
		return false
	}
	ws, rs := c.P.PrimSeq(w, wvocab), c.P.PrimSeq(r, rvocab)
	if len(ws) == 0 || len(rs) == 0 {
		c.Undecided(rule, construct, fmt.Sprintf("empty primitive sequence (writer %d, reader %d)", len(ws), len(rs)))
		return false
	}
	if strings.Join(ws, " ") != strings.Join(rs, " ") {
		c.Fail(rule, construct, w.Pos(), fmt.Sprintf("writer applies [%s] but reader applies [%s]", strings.Join(ws, " "), strings.Join(rs, " ")))
		return false
	}
	c.OK(rule, construct, "["+strings.Join(ws, " ")+"]")
	return true
}
