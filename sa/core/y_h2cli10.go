package core

import (
	"go/token"
	"sort"

	"golang.org/x/tools/go/ssa"
)

// Clamp-aware value forms (prefix h10 / H10).
//
// "The amount is max(x, k)" can be written as
//
//	v := k; if x > k { v = x }        (an if/else merge of x and k)
//	v := max(x, k)                    (the builtin)
//
// Both are the same quantity. H10Forms enumerates the values an integer
// expression can take as linear forms, like HcLinSet, but a clamp that is
// recognised structurally becomes ONE form, k + max0(x-k), whatever its
// spelling:
//   - the builtin max over one non-constant operand and constants;
//   - an if/else merge whose incoming values are x and the constant k, where
//     the branch facts of every edge carrying k imply x <= k and the facts of
//     every edge carrying x imply x >= k.
//
// A merge of x and k whose edge facts say the opposite (k arrives where x > k,
// or x arrives where x < k) is not a clamp but its inverse; it is reported as
// the form misclamp(x-k) so that no rule mistakes it for one. Any other merge,
// min() and a max() of several non-constant operands are expanded into the
// forms of their operands (the result is always one of them).

// H10Max0 is the canonical form of max(l, 0).
func H10Max0(l Lin) Lin {
	if l.isConst() {
		if l.K < 0 {
			return Lin{Coef: map[string]int64{}}
		}
		return l
	}
	return Lin{Coef: map[string]int64{"max0(" + l.String() + ")": 1}}
}

// H10ParseLin parses a linear expression written in spec syntax.
func H10ParseLin(p *Prog, s string) (Lin, error) { return p.parseLin(s) }

// H10Forms returns the clamp-normalised linear forms v can evaluate to.
func H10Forms(v ssa.Value) []Lin {
	r := &renderer{phis: map[*ssa.Phi]bool{}}
	return h10Dedup(h10Forms(r, v, 0, map[*ssa.Phi]bool{}))
}

// H10FormStrings renders forms for a diagnostic.
func H10FormStrings(ls []Lin) []string {
	var out []string
	for _, l := range ls {
		out = append(out, l.String())
	}
	sort.Strings(out)
	return out
}

// H10Expand replaces every max0(x) term of l (those listed in clamps, keyed by
// the term) by x and by 0: the plain values behind a clamp-normalised form.
func H10Expand(l Lin, clamps map[string]Lin) []Lin {
	for t, c := range l.Coef {
		x, ok := clamps[t]
		if !ok {
			continue
		}
		rest := l.scale(1)
		delete(rest.Coef, t)
		var out []Lin
		out = append(out, H10Expand(rest.add(x.scale(c), 1), clamps)...)
		out = append(out, H10Expand(rest, clamps)...)
		return h10Dedup(out)
	}
	return []Lin{l}
}

func h10Dedup(ls []Lin) []Lin {
	seen := map[string]bool{}
	var out []Lin
	for _, l := range ls {
		if s := l.String(); !seen[s] {
			seen[s] = true
			out = append(out, l)
		}
	}
	return out
}

func h10Forms(r *renderer, v ssa.Value, d int, on map[*ssa.Phi]bool) []Lin {
	if d < 10 {
		switch x := v.(type) {
		case *ssa.Phi:
			if on[x] {
				break
			}
			on[x] = true
			per := make([][]Lin, len(x.Edges))
			var all []Lin
			for i, e := range x.Edges {
				per[i] = h10Dedup(h10Forms(r, e, d+1, on))
				all = append(all, per[i]...)
			}
			delete(on, x)
			if c, ok := h10PhiClamp(x, per); ok {
				return []Lin{c}
			}
			if all = h10Dedup(all); len(all) <= 64 {
				return all
			}
		case *ssa.Convert:
			if isIntegral(x.Type()) && isIntegral(x.X.Type()) {
				return h10Forms(r, x.X, d+1, on)
			}
		case *ssa.ChangeType:
			return h10Forms(r, x.X, d+1, on)
		case *ssa.Call:
			bi, isB := x.Call.Value.(*ssa.Builtin)
			if !isB || !isIntegral(x.Type()) || len(x.Call.Args) == 0 || (bi.Name() != "max" && bi.Name() != "min") {
				break
			}
			var all, consts, others []Lin
			for _, a := range x.Call.Args {
				fs := h10Dedup(h10Forms(r, a, d+1, on))
				all = append(all, fs...)
				for _, f := range fs {
					if f.isConst() {
						consts = append(consts, f)
					} else {
						others = append(others, f)
					}
				}
			}
			if others = h10Dedup(others); bi.Name() == "max" && len(others) == 1 && len(consts) > 0 {
				k := consts[0]
				for _, c := range consts {
					if c.K > k.K {
						k = c
					}
				}
				return []Lin{k.add(H10Max0(others[0].add(k, -1)), 1)}
			}
			if all = h10Dedup(all); len(all) <= 64 {
				return all
			}
		case *ssa.BinOp:
			if isIntegral(x.Type()) && (x.Op == token.ADD || x.Op == token.SUB) {
				sign := int64(1)
				if x.Op == token.SUB {
					sign = -1
				}
				as, bs := h10Forms(r, x.X, d+1, on), h10Forms(r, x.Y, d+1, on)
				if len(as)*len(bs) <= 64 {
					var out []Lin
					for _, a := range as {
						for _, b := range bs {
							out = append(out, a.add(b, sign))
						}
					}
					return h10Dedup(out)
				}
			}
		}
	}
	return []Lin{r.lin(v, 0)}
}

// h10PhiClamp recognises the merge ph (per[i] = forms of incoming value i) as
// k + max0(x-k), or as the inverse of that clamp.
func h10PhiClamp(ph *ssa.Phi, per [][]Lin) (Lin, bool) {
	b := ph.Block()
	if len(per) < 2 || len(per) != len(b.Preds) {
		return Lin{}, false
	}
	var k, x *Lin
	for i := range per {
		if len(per[i]) != 1 {
			return Lin{}, false
		}
		f := per[i][0]
		switch {
		case f.isConst() && k == nil:
			k = &per[i][0]
		case f.isConst():
			if f.K != k.K {
				return Lin{}, false
			}
		case x == nil:
			x = &per[i][0]
		default:
			if f.String() != x.String() {
				return Lin{}, false
			}
		}
	}
	if k == nil || x == nil {
		return Lin{}, false
	}
	diff := x.add(*k, -1)                               // x - k
	below := Atom{Kind: LE, L: diff}                    // x <= k
	above := Atom{Kind: LE, L: diff.scale(-1)}          // x >= k
	sBelow := Atom{Kind: LE, L: diff.AddK(1)}           // x <  k
	sAbove := Atom{Kind: LE, L: diff.scale(-1).AddK(1)} // x >  k
	implied := func(i int, want Atom) bool {
		for _, a := range hcEdgeFacts(b.Preds[i], b) {
			if Implies(a, want) {
				return true
			}
		}
		return false
	}
	clamp, inverse := true, false
	for i := range per {
		if per[i][0].isConst() {
			clamp = clamp && implied(i, below)
			inverse = inverse || implied(i, sAbove)
		} else {
			clamp = clamp && implied(i, above)
			inverse = inverse || implied(i, sBelow)
		}
	}
	switch {
	case clamp:
		return k.add(H10Max0(diff), 1), true
	case inverse:
		return Lin{Coef: map[string]int64{"misclamp(" + diff.String() + ")": 1}}, true
	}
	return Lin{}, false
}
