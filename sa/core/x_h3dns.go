package core

import (
	"fmt"
	"go/token"
	"go/types"
	"sort"
	"strconv"
	"strings"

	"golang.org/x/tools/go/ssa"
)

// Helpers added for the HTTP/3 (C33–C35) and DNS (C36, C37) rule sets.

// CallsOfParam selects calls through the i-th parameter (receiver excluded) of
// the enclosing function, i.e. invocations of a callback argument.
func CallsOfParam(i int) Sel {
	return Sel{fmt.Sprintf("call of parameter $%d", i), func(p *Prog, fn *ssa.Function) []ssa.Instruction {
		var out []ssa.Instruction
		eachInstr(fn, func(in ssa.Instruction) {
			ci, ok := in.(ssa.CallInstruction)
			if !ok || ci.Common().IsInvoke() {
				return
			}
			if pa, ok := ci.Common().Value.(*ssa.Parameter); ok && paramName(pa) == "$"+strconv.Itoa(i) {
				out = append(out, in)
			}
		})
		return out
	}}
}

// EdgeWhere is Edge(spec) restricted to tests that are themselves dominated by
// branch edges establishing every `under` atom exactly.
func (c *Ctx) EdgeWhere(spec string, under ...string) Sel {
	name := "branch " + stripSpaces(spec)
	if len(under) > 0 {
		name += " under " + stripSpaces(strings.Join(under, " && "))
	}
	return Sel{name, func(p *Prog, fn *ssa.Function) []ssa.Instruction {
		a, err := p.ParseAtom(spec)
		if err != nil {
			return nil
		}
		var us []Atom
		for _, u := range under {
			ua, err := p.ParseAtom(u)
			if err != nil {
				return nil
			}
			us = append(us, ua)
		}
		var out []ssa.Instruction
		eachInstr(fn, func(in ssa.Instruction) {
			ifi, ok := in.(*ssa.If)
			if !ok {
				return
			}
			b := ifi.Block()
			fs := FactsAt(b)
			for _, u := range us {
				if !holds(fs, u, true) {
					return
				}
			}
			ca := CondAtom(ifi.Cond)
			if SameAtom(ca, a) {
				if f := firstInstr(b.Succs[0]); f != nil {
					out = append(out, f)
				}
			} else if SameAtom(ca.Negate(), a) {
				if f := firstInstr(b.Succs[1]); f != nil {
					out = append(out, f)
				}
			}
		})
		return out
	}}
}

// PassBetween: from every `from` site, every path to a `target` site passes a `via` site.
func (c *Ctx) PassBetween(fnName string, from, target, via Sel, inclusive bool) bool {
	rule := "pass-between"
	construct := fmt.Sprintf("%s: from [%s] to [%s] always via [%s]", fnName, from.Name, target.Name, via.Name)
	fn, ins := c.sites(rule, fnName, from)
	if ins == nil {
		return false
	}
	targets := target.F(c.P, fn)
	if len(targets) == 0 {
		c.Undecided(rule, construct, "no target site in this function")
		return false
	}
	vias := via.F(c.P, fn)
	if len(vias) == 0 {
		c.Fail(rule, construct, fn.Pos(), "no ["+via.Name+"] site in this function")
		return false
	}
	tset, vset := instrSet(targets), instrSet(vias)
	for _, in := range ins {
		if t, reach := canReach(posOf(in), inclusive, tset, vset); reach {
			c.Fail(rule, construct, InstrPos(t), fmt.Sprintf("`%s` is reachable from `%s` (%s) without passing [%s]",
				DescribeInstr(t), DescribeInstr(in), c.P.Pos(InstrPos(in)), via.Name))
			return false
		}
	}
	c.OK(rule, construct, fmt.Sprintf("%d start site(s), %d target(s), %d via site(s)", len(ins), len(targets), len(vias)))
	return true
}

// errCarriers returns the call's idx-th result (idx<0: the call value) and
// every phi it flows into.
func errCarriers(call *ssa.Call, idx int) map[ssa.Value]bool {
	set := map[ssa.Value]bool{}
	var work []ssa.Value
	if idx < 0 {
		work = append(work, call)
	} else if refs := call.Referrers(); refs != nil {
		for _, r := range *refs {
			if ex, ok := r.(*ssa.Extract); ok && ex.Index == idx {
				work = append(work, ex)
			}
		}
	}
	for len(work) > 0 {
		v := work[len(work)-1]
		work = work[:len(work)-1]
		if set[v] {
			continue
		}
		set[v] = true
		if refs := v.Referrers(); refs != nil {
			for _, r := range *refs {
				if ph, ok := r.(*ssa.Phi); ok {
					work = append(work, ph)
				}
			}
		}
	}
	return set
}

// ErrChecked: the error result #idx (idx<0: the single result) of every
// selected call is compared with nil before any `sink` site can be reached from
// the call, and no sink is reachable from the branch on which it is non-nil.
func (c *Ctx) ErrChecked(fnName string, calls Sel, idx int, sinks Sel) bool {
	rule := "error-checked"
	construct := fmt.Sprintf("%s: error of [%s] tested before [%s]", fnName, calls.Name, sinks.Name)
	fn, ins := c.sites(rule, fnName, calls)
	if ins == nil {
		return false
	}
	sset := instrSet(sinks.F(c.P, fn))
	if len(sset) == 0 {
		c.Undecided(rule, construct, "no sink site in this function")
		return false
	}
	for _, in := range ins {
		call, ok := in.(*ssa.Call)
		if !ok {
			c.Undecided(rule, construct, "selected site is not a plain call")
			return false
		}
		carriers := errCarriers(call, idx)
		if len(carriers) == 0 {
			c.Fail(rule, construct, InstrPos(in), fmt.Sprintf("the error result of `%s` is dropped", DescribeInstr(in)))
			return false
		}
		tests := map[ssa.Instruction]bool{}
		var nonNil []*ssa.BasicBlock
		eachInstr(fn, func(x ssa.Instruction) {
			ifi, ok := x.(*ssa.If)
			if !ok {
				return
			}
			bo, ok := ifi.Cond.(*ssa.BinOp)
			if !ok || (bo.Op != token.NEQ && bo.Op != token.EQL) {
				return
			}
			var other ssa.Value
			switch {
			case carriers[bo.X]:
				other = bo.Y
			case carriers[bo.Y]:
				other = bo.X
			default:
				return
			}
			if !isNilConst(other) {
				return
			}
			tests[ifi] = true
			if bo.Op == token.NEQ {
				nonNil = append(nonNil, ifi.Block().Succs[0])
			} else {
				nonNil = append(nonNil, ifi.Block().Succs[1])
			}
		})
		if len(tests) == 0 {
			c.Fail(rule, construct, InstrPos(in), fmt.Sprintf("the error result of `%s` is never compared with nil", DescribeInstr(in)))
			return false
		}
		if t, reach := canReach(posOf(in), false, sset, tests); reach {
			c.Fail(rule, construct, InstrPos(t), fmt.Sprintf("`%s` is reachable from `%s` before its error is tested", DescribeInstr(t), DescribeInstr(in)))
			return false
		}
		for _, b := range nonNil {
			if t, reach := canReach(ipos{b, 0}, true, sset, nil); reach {
				c.Fail(rule, construct, InstrPos(t), fmt.Sprintf("`%s` is reachable on the branch where the error of `%s` is non-nil", DescribeInstr(t), DescribeInstr(in)))
				return false
			}
		}
	}
	c.OK(rule, construct, fmt.Sprintf("%d call(s)", len(ins)))
	return true
}

// ---------------------------------------------------------------------------
// Bounded allocation.

// AllocSources describes where peer-chosen lengths enter.
type AllocSources struct {
	Calls  []string // callee names whose (any) result is a wire-read integer
	Fields []string // fields holding a peer-declared length ("internal/http3.stream.lim")
}

func smallInt(t types.Type) bool {
	b, ok := t.Underlying().(*types.Basic)
	if !ok {
		return false
	}
	switch b.Kind() {
	case types.Uint8, types.Int8, types.Uint16, types.Int16:
		return true
	}
	return false
}

// BoundedAlloc: in every function reachable from entries, no make([]T, n) has a
// length or capacity that derives (through arithmetic, conversions wider than
// 16 bits, phis, locals, and parameters traced to the reachable call sites)
// from a wire-read integer. Values of an integer type of at most 16 bits and
// len()/cap() of memory already held count as bounded; results of other calls
// are opaque. allowed maps a function to the reason its sites are accepted.
func (c *Ctx) BoundedAlloc(desc string, entries, stop []string, src AllocSources, allowed map[string]string) {
	rule := "bounded-alloc"
	stopAt := map[string]bool{}
	for _, s := range stop {
		stopAt[s] = true
	}
	reach, missing := c.P.Reachable(entries, stopAt)
	for _, m := range missing {
		c.Undecided("anchor", m, "entry point not found")
	}
	srcFields := map[*types.Var]string{}
	for _, f := range src.Fields {
		fv := c.P.Field(f)
		if fv == nil {
			c.Undecided("anchor", f, "field not found")
			continue
		}
		srcFields[fv] = f
	}
	for _, n := range src.Calls {
		if c.P.Fn(n) == nil && !strings.Contains(n, ".") {
			c.Undecided("anchor", n, "source function not found")
		}
	}
	// call sites of reachable functions, for parameter tracing
	callers := map[*ssa.Function][]ssa.CallInstruction{}
	for fn := range reach {
		eachInstr(fn, func(in ssa.Instruction) {
			if ci, ok := in.(ssa.CallInstruction); ok {
				if sc := ci.Common().StaticCallee(); sc != nil {
					if o := sc.Origin(); o != nil {
						sc = o
					}
					callers[sc] = append(callers[sc], ci)
				}
			}
		})
	}
	var taint func(v ssa.Value, depth int, seen map[ssa.Value]bool) string
	taint = func(v ssa.Value, depth int, seen map[ssa.Value]bool) string {
		if v == nil || seen[v] || depth > 6 {
			return ""
		}
		seen[v] = true
		if smallInt(v.Type()) {
			return "" // at most 65535
		}
		switch x := v.(type) {
		case *ssa.Const, *ssa.Global, *ssa.Function, *ssa.FreeVar:
			return ""
		case *ssa.Convert:
			if smallInt(x.X.Type()) || smallInt(x.Type()) {
				return ""
			}
			return taint(x.X, depth, seen)
		case *ssa.ChangeType:
			return taint(x.X, depth, seen)
		case *ssa.BinOp:
			if smallInt(x.Type()) {
				return ""
			}
			if s := taint(x.X, depth, seen); s != "" {
				return s
			}
			return taint(x.Y, depth, seen)
		case *ssa.Phi:
			for _, e := range x.Edges {
				if s := taint(e, depth, seen); s != "" {
					return s
				}
			}
			return ""
		case *ssa.Extract:
			return taint(x.Tuple, depth, seen)
		case *ssa.Call:
			if matchCallee(&x.Call, src.Calls) {
				return "result of " + CalleeName(&x.Call)
			}
			return "" // len/cap/min and every other call: opaque
		case *ssa.UnOp:
			if x.Op != token.MUL {
				return taint(x.X, depth, seen)
			}
			if smallInt(x.Type()) {
				return ""
			}
			if fv := fieldOfAddr(x.X); fv != nil {
				if n, ok := srcFields[fv]; ok {
					return "load of " + n
				}
			}
			if a := rootAlloc(x); a != nil {
				for _, st := range storesInto(a) {
					if s := taint(st.Val, depth, seen); s != "" {
						return s
					}
				}
			}
			return ""
		case *ssa.Parameter:
			if smallInt(x.Type()) {
				return ""
			}
			fn := x.Parent()
			idx := -1
			for i, q := range fn.Params {
				if q == x {
					idx = i
				}
			}
			for _, ci := range callers[fn] {
				args := BaselineArgs(ci.Common())
				if idx >= 0 && idx < len(args) {
					if s := taint(args[idx], depth+1, seen); s != "" {
						return s + " (passed by " + FnName(Outer(ci.Parent())) + ")"
					}
				}
			}
			return ""
		}
		return ""
	}
	type site struct {
		fn  string
		ord int
		in  *ssa.MakeSlice
	}
	var sites []site
	var fns []*ssa.Function
	for fn := range reach {
		fns = append(fns, fn)
	}
	sort.Slice(fns, func(i, j int) bool { return FnName(fns[i]) < FnName(fns[j]) })
	for _, fn := range fns {
		ord := 0
		eachInstr(fn, func(in ssa.Instruction) {
			if ms, ok := in.(*ssa.MakeSlice); ok {
				_, lc := ms.Len.(*ssa.Const)
				_, cc := ms.Cap.(*ssa.Const)
				if lc && cc {
					return
				}
				ord++
				sites = append(sites, site{FnName(fn), ord, ms})
			}
		})
	}
	c.Stats["reachable_functions"] = len(reach)
	bad := 0
	for _, s := range sites {
		construct := fmt.Sprintf("%s: %s make#%d", desc, s.fn, s.ord)
		why := taint(s.in.Len, 0, map[ssa.Value]bool{})
		if why == "" {
			why = taint(s.in.Cap, 0, map[ssa.Value]bool{})
		}
		switch {
		case why == "":
			c.OK(rule, construct, "size `"+Term(s.in.Len)+"` is not derived from a wire-read length")
		case allowed[s.fn] != "":
			c.OK(rule, construct, "size derives from "+why+"; accepted: "+allowed[s.fn])
		default:
			bad++
			c.Fail(rule, construct, InstrPos(s.in), fmt.Sprintf("make([]T, %s): the size derives from %s, a length chosen by the peer, and nothing bounds it before the allocation", Term(s.in.Len), why))
		}
	}
	c.Check(bad == 0, rule, desc+": no peer-sized allocation reachable", token.NoPos,
		fmt.Sprintf("%d reachable function(s), %d make site(s) with a non-constant size", len(reach), len(sites)),
		fmt.Sprintf("%d peer-sized make site(s)", bad))
}

// ---------------------------------------------------------------------------
// Primitive sequences with a constant argument and/or a struct field.

// SeqTok describes how a callee maps to a codec token.
type SeqTok struct {
	Tok      string
	ConstArg int // argument index (receiver counts) whose constant value is appended as "/v"; -1: none
	FieldArg int // writer: argument whose source field is appended as ":F"; reader: see ReaderSeq; -1: none
}

func constArgString(v ssa.Value) string {
	for {
		switch x := v.(type) {
		case *ssa.Convert:
			v = x.X
			continue
		case *ssa.ChangeType:
			v = x.X
			continue
		}
		break
	}
	if k, ok := v.(*ssa.Const); ok {
		return constString(k)
	}
	return "?" + Term(v)
}

// lastField returns the innermost struct field named by a value that is a
// (converted, sliced, loaded) field of something: r.Serial, r.A[:], &r.NS.
func lastField(v ssa.Value) string {
	for i := 0; i < 12 && v != nil; i++ {
		switch x := v.(type) {
		case *ssa.Convert:
			v = x.X
		case *ssa.ChangeType:
			v = x.X
		case *ssa.Slice:
			v = x.X
		case *ssa.UnOp:
			if x.Op != token.MUL {
				return ""
			}
			v = x.X
		case *ssa.FieldAddr:
			return fieldName(x.X.Type(), x.Field)
		case *ssa.Field:
			return fieldName(x.X.Type(), x.Field)
		case *ssa.Call:
			// len(r.F)
			if b, ok := x.Call.Value.(*ssa.Builtin); ok && b.Name() == "len" && len(x.Call.Args) == 1 {
				if f := lastField(x.Call.Args[0]); f != "" {
					return "len(" + f + ")"
				}
			}
			return ""
		default:
			return ""
		}
	}
	return ""
}

// storedField: the struct field into which value v (or a load of the local v
// addresses) is eventually stored within the function.
func storedField(v ssa.Value) string {
	// direct: v is the address of a field, or a slice of it
	if f := lastFieldAddr(v); f != "" {
		return f
	}
	// v is a value (Extract/Call): find stores of it into a field
	if refs := v.Referrers(); refs != nil {
		for _, r := range *refs {
			switch x := r.(type) {
			case *ssa.Store:
				if x.Val == v {
					if f := lastFieldAddr(x.Addr); f != "" {
						return f
					}
					// stored into a plain local that is later copied into a field
					if a, ok := x.Addr.(*ssa.Alloc); ok {
						if f := allocCopiedToField(a); f != "" {
							return f
						}
					}
				}
			case *ssa.Convert:
				if f := storedField(x); f != "" {
					return f
				}
			case *ssa.ChangeType:
				if f := storedField(x); f != "" {
					return f
				}
			}
		}
	}
	// v addresses a local (receiver &%ns, slice of %a): the local is copied into a field
	var a *ssa.Alloc
	switch x := v.(type) {
	case *ssa.Alloc:
		a = x
	case *ssa.Slice:
		a, _ = x.X.(*ssa.Alloc)
	}
	if a != nil {
		return allocCopiedToField(a)
	}
	return ""
}

func lastFieldAddr(v ssa.Value) string {
	switch x := v.(type) {
	case *ssa.FieldAddr:
		return fieldName(x.X.Type(), x.Field)
	case *ssa.Slice:
		return lastFieldAddr(x.X)
	case *ssa.UnOp:
		if x.Op == token.MUL {
			return lastFieldAddr(x.X)
		}
	}
	return ""
}

func allocCopiedToField(a *ssa.Alloc) string {
	refs := a.Referrers()
	if refs == nil {
		return ""
	}
	for _, r := range *refs {
		ld, ok := r.(*ssa.UnOp)
		if !ok || ld.Op != token.MUL {
			continue
		}
		if lr := ld.Referrers(); lr != nil {
			for _, u := range *lr {
				if st, ok := u.(*ssa.Store); ok && st.Val == ld {
					if f := lastFieldAddr(st.Addr); f != "" {
						return f
					}
				}
			}
		}
	}
	return ""
}

// TokSeq returns the source-ordered token sequence of fn (and closures).
// reader selects how the field is found: for a writer it is the field the
// FieldArg argument is read from, for a reader the field the call's first
// result (FieldArg<0) or the FieldArg argument's target is stored into.
func (p *Prog) TokSeq(fn *ssa.Function, vocab map[string]SeqTok, reader bool) []string {
	type ev struct {
		pos int
		tok string
	}
	var evs []ev
	for _, f := range Closures(fn) {
		eachInstr(f, func(in ssa.Instruction) {
			ci, ok := in.(ssa.CallInstruction)
			if !ok {
				return
			}
			st, ok := vocab[CalleeName(ci.Common())]
			if !ok || st.Tok == "" {
				return
			}
			args := BaselineArgs(ci.Common())
			tok := st.Tok
			if st.ConstArg >= 0 && st.ConstArg < len(args) {
				tok += "/" + constArgString(args[st.ConstArg])
			}
			field := ""
			if !reader {
				if st.FieldArg >= 0 && st.FieldArg < len(args) {
					field = lastField(args[st.FieldArg])
				}
			} else {
				if st.FieldArg >= 0 && st.FieldArg < len(args) {
					field = storedField(args[st.FieldArg])
				} else if st.FieldArg == -2 {
					if call, ok := in.(*ssa.Call); ok {
						if refs := call.Referrers(); refs != nil {
							for _, r := range *refs {
								if ex, ok := r.(*ssa.Extract); ok && ex.Index == 0 {
									field = storedField(ex)
								}
							}
						}
					}
				}
			}
			if field != "" {
				tok += ":" + field
			}
			evs = append(evs, ev{int(InstrPos(in)), tok})
		})
	}
	sort.SliceStable(evs, func(i, j int) bool { return evs[i].pos < evs[j].pos })
	var out []string
	for _, e := range evs {
		out = append(out, e.tok)
	}
	return out
}

// TokAgree compares two token sequences; a token without ":field" matches a
// token with one when the primitive parts agree.
func TokAgree(ws, rs []string) (bool, string) {
	if len(ws) != len(rs) {
		return false, fmt.Sprintf("writer applies %d primitives [%s], reader %d [%s]", len(ws), strings.Join(ws, " "), len(rs), strings.Join(rs, " "))
	}
	for i := range ws {
		wp, wf, _ := strings.Cut(ws[i], ":")
		rp, rf, _ := strings.Cut(rs[i], ":")
		if wp != rp || (wf != "" && rf != "" && wf != rf) {
			return false, fmt.Sprintf("position %d: writer `%s` vs reader `%s` (writer [%s], reader [%s])", i, ws[i], rs[i], strings.Join(ws, " "), strings.Join(rs, " "))
		}
	}
	return true, ""
}

// TokSeqAgree records a codec-sequence obligation for writer/reader.
func (c *Ctx) TokSeqAgree(writer, reader string, wvocab, rvocab map[string]SeqTok) bool {
	rule := "codec-sequence"
	construct := writer + " ~ " + reader
	w, r := c.MustFn(writer), c.MustFn(reader)
	if w == nil || r == nil {
		return false
	}
	ws, rs := c.P.TokSeq(w, wvocab, false), c.P.TokSeq(r, rvocab, true)
	if len(ws) == 0 || len(rs) == 0 {
		c.Undecided(rule, construct, fmt.Sprintf("empty primitive sequence (writer %d, reader %d)", len(ws), len(rs)))
		return false
	}
	if ok, why := TokAgree(ws, rs); !ok {
		c.Fail(rule, construct, w.Pos(), why)
		return false
	}
	c.OK(rule, construct, "writer ["+strings.Join(ws, " ")+"] reader ["+strings.Join(rs, " ")+"]")
	return true
}

// IndexGuarded: every index / slice expression on the container rendered as
// base is dominated by branch facts implying index < len(base) (index) or
// high <= len(base) (slice; a missing high bound needs low <= len(base)).
func (c *Ctx) IndexGuarded(fnName, base string) bool {
	rule := "index-guarded"
	construct := fmt.Sprintf("%s: every index into %s is below a dominating length test", fnName, base)
	fn, ins := c.sites(rule, fnName, Indexing(base))
	if ins == nil {
		return false
	}
	lenT := "len(" + base + ")"
	for _, in := range ins {
		var need Atom
		switch x := in.(type) {
		case *ssa.IndexAddr:
			l := Linearize(x.Index).add(Lin{Coef: map[string]int64{lenT: 1}}, -1)
			l.K++
			need = Atom{Kind: LE, L: l}
		case *ssa.Index:
			l := Linearize(x.Index).add(Lin{Coef: map[string]int64{lenT: 1}}, -1)
			l.K++
			need = Atom{Kind: LE, L: l}
		case *ssa.Slice:
			b := x.High
			if b == nil {
				b = x.Low
			}
			if b == nil {
				continue
			}
			need = Atom{Kind: LE, L: Linearize(b).add(Lin{Coef: map[string]int64{lenT: 1}}, -1)}
		}
		if !holds(FactsAtInstr(in), need, false) {
			c.Fail(rule, construct, InstrPos(in), fmt.Sprintf("`%s` is not dominated by a test establishing %s; facts here: {%s}", DescribeInstr(in), need, factStrings(FactsAtInstr(in))))
			return false
		}
	}
	_ = fn
	c.OK(rule, construct, fmt.Sprintf("%d site(s)", len(ins)))
	return true
}

// FactsText renders the facts dominating an instruction (for bespoke checks).
func FactsText(in ssa.Instruction) string { return factStrings(FactsAtInstr(in)) }

// HoldsAt reports whether the atom (exact or implied) is among the facts dominating in.
func (p *Prog) HoldsAt(in ssa.Instruction, spec string, exact bool) bool {
	a, err := p.ParseAtom(spec)
	if err != nil {
		return false
	}
	return holds(FactsAtInstr(in), a, exact)
}

// ForEachInstr exposes the instruction walk to property files.
func ForEachInstr(fn *ssa.Function, f func(ssa.Instruction)) { eachInstr(fn, f) }

// TestOf selects the If instructions that test the atom (either polarity).
func (c *Ctx) TestOf(spec string) Sel {
	return Sel{"test " + stripSpaces(spec), func(p *Prog, fn *ssa.Function) []ssa.Instruction {
		a, err := p.ParseAtom(spec)
		if err != nil {
			return nil
		}
		var out []ssa.Instruction
		eachInstr(fn, func(in ssa.Instruction) {
			if ifi, ok := in.(*ssa.If); ok {
				ca := CondAtom(ifi.Cond)
				if SameAtom(ca, a) || SameAtom(ca.Negate(), a) {
					out = append(out, in)
				}
			}
		})
		return out
	}}
}
