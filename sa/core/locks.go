package core

import (
	"fmt"
	"go/token"
	"sort"
	"strings"

	"golang.org/x/tools/go/ssa"
)

// ---------------------------------------------------------------------------
// E8/E10: acquire/release typestate over the CFG.

// LockOp declares how a callee affects a lock object. The object is the
// rendering of the call's first argument (the receiver) with a leading "&"
// removed, plus "."+Field when Field is set (for wrappers such as
// (*Stream).inUnlock that release s.ingate).
type LockOp struct {
	Callee string
	Kind   string // "acq", "acq-if-nil" (last result error == nil), "acq-if-true" (bool result), "rel"
	Field  string
}

type lockState map[string]int

func (s lockState) clone() lockState {
	o := lockState{}
	for k, v := range s {
		if v != 0 {
			o[k] = v
		}
	}
	return o
}

func (s lockState) String() string {
	var ks []string
	for k, v := range s {
		if v != 0 {
			ks = append(ks, fmt.Sprintf("%s=%d", k, v))
		}
	}
	sort.Strings(ks)
	return "{" + strings.Join(ks, ",") + "}"
}

func lockObj(cc *ssa.CallCommon, op LockOp) string {
	if len(cc.Args) == 0 {
		return "?"
	}
	t := strings.TrimPrefix(Term(cc.Args[0]), "&")
	if op.Field != "" {
		t += "." + op.Field
	}
	return t
}

// LockBalanced checks, on every path of fnName: no double acquire, no release
// of an object that is not held, consistent state at joins, and at every
// return exactly the objects listed in heldAtReturn (rendered objects) held —
// deferred releases are applied at returns.
func (c *Ctx) LockBalanced(fnName string, ops []LockOp, heldAtReturn ...string) bool {
	rule := "lock-typestate"
	construct := fnName + ": acquire/release balanced"
	if len(heldAtReturn) > 0 {
		construct += " (returns holding " + strings.Join(heldAtReturn, ",") + ")"
	}
	fn := c.MustFn(fnName)
	if fn == nil {
		return false
	}
	find := func(cc *ssa.CallCommon) *LockOp {
		for i := range ops {
			if matchCallee(cc, []string{ops[i].Callee}) {
				return &ops[i]
			}
		}
		return nil
	}
	type pend struct {
		call ssa.Value
		obj  string
		kind string
	}
	in := map[*ssa.BasicBlock]lockState{}
	inSet := map[*ssa.BasicBlock]bool{}
	deferred := map[string]int{}
	nOps := 0
	var failPos token.Pos
	fail := ""
	setIn := func(b *ssa.BasicBlock, s lockState, from ssa.Instruction) bool {
		if !inSet[b] {
			inSet[b] = true
			in[b] = s.clone()
			return true
		}
		if in[b].String() != s.String() {
			if fail == "" {
				fail = fmt.Sprintf("inconsistent lock state at join (block %d): %s vs %s", b.Index, in[b], s)
				failPos = InstrPos(from)
			}
		}
		return false
	}
	work := []*ssa.BasicBlock{fn.Blocks[0]}
	setIn(fn.Blocks[0], lockState{}, nil)
	for len(work) > 0 && fail == "" {
		b := work[len(work)-1]
		work = work[:len(work)-1]
		st := in[b].clone()
		var pending *pend
		for _, instr := range b.Instrs {
			switch x := instr.(type) {
			case *ssa.Defer:
				if op := find(&x.Call); op != nil && op.Kind == "rel" {
					deferred[lockObj(&x.Call, *op)]++
					nOps++
				}
			case *ssa.Call:
				op := find(&x.Call)
				if op == nil {
					continue
				}
				nOps++
				obj := lockObj(&x.Call, *op)
				switch op.Kind {
				case "acq":
					if st[obj] > 0 {
						fail = "double acquire of " + obj
						failPos = InstrPos(instr)
					}
					st[obj]++
				case "rel":
					if st[obj] <= 0 {
						fail = "release of " + obj + " which is not held on this path"
						failPos = InstrPos(instr)
					}
					st[obj]--
				case "acq-if-nil", "acq-if-true":
					if st[obj] > 0 {
						fail = "double acquire of " + obj
						failPos = InstrPos(instr)
					}
					pending = &pend{x, obj, op.Kind}
				}
			case *ssa.Return:
				want := lockState{}
				for _, h := range heldAtReturn {
					want[h] = 1
				}
				got := st.clone()
				for k, v := range deferred {
					got[k] -= v
				}
				// a deferred release may run for paths where it was registered
				// after an early return; only compare objects that are positive or wanted
				g := lockState{}
				for k, v := range got {
					if v > 0 {
						g[k] = v
					}
				}
				if g.String() != want.String() {
					fail = fmt.Sprintf("return with lock state %s, expected %s", g, want)
					failPos = InstrPos(instr)
				}
			}
			if fail != "" {
				break
			}
		}
		if fail != "" {
			break
		}
		// successors
		if pending != nil {
			ifi, ok := b.Instrs[len(b.Instrs)-1].(*ssa.If)
			resolved := false
			if ok {
				if bo, ok := ifi.Cond.(*ssa.BinOp); ok && (bo.Op == token.NEQ || bo.Op == token.EQL) && pending.kind == "acq-if-nil" {
					if isResultOf(bo.X, pending.call) && isNilConst(bo.Y) || isResultOf(bo.Y, pending.call) && isNilConst(bo.X) {
						resolved = true
						acq, not := st.clone(), st.clone()
						acq[pending.obj]++
						tIdx, fIdx := 0, 1
						if bo.Op == token.NEQ { // err != nil -> true edge not acquired
							if setIn(b.Succs[tIdx], not, ifi) {
								work = append(work, b.Succs[tIdx])
							}
							if setIn(b.Succs[fIdx], acq, ifi) {
								work = append(work, b.Succs[fIdx])
							}
						} else {
							if setIn(b.Succs[tIdx], acq, ifi) {
								work = append(work, b.Succs[tIdx])
							}
							if setIn(b.Succs[fIdx], not, ifi) {
								work = append(work, b.Succs[fIdx])
							}
						}
					}
				}
				if pending.kind == "acq-if-true" {
					cond := ifi.Cond
					neg := false
					for {
						if u, ok := cond.(*ssa.UnOp); ok && u.Op == token.NOT {
							cond = u.X
							neg = !neg
							continue
						}
						break
					}
					if isResultOf(cond, pending.call) {
						resolved = true
						acq, not := st.clone(), st.clone()
						acq[pending.obj]++
						a, n := 0, 1
						if neg {
							a, n = 1, 0
						}
						if setIn(b.Succs[a], acq, ifi) {
							work = append(work, b.Succs[a])
						}
						if setIn(b.Succs[n], not, ifi) {
							work = append(work, b.Succs[n])
						}
					}
				}
			}
			if !resolved {
				fail = "conditional acquire of " + pending.obj + " whose result is not tested immediately (idiom not recognised)"
				failPos = InstrPos(pending.call.(ssa.Instruction))
			}
			continue
		}
		for _, s := range b.Succs {
			var last ssa.Instruction
			if len(b.Instrs) > 0 {
				last = b.Instrs[len(b.Instrs)-1]
			}
			if setIn(s, st, last) {
				work = append(work, s)
			}
		}
	}
	if fail != "" {
		c.Fail(rule, construct, failPos, fail)
		return false
	}
	if nOps == 0 {
		c.Undecided(rule, construct, "no acquire/release operation found in this function")
		return false
	}
	c.Stats["lock_ops"] += nOps
	c.OK(rule, construct, fmt.Sprintf("%d lock operation(s)", nOps))
	return true
}

func isNilConst(v ssa.Value) bool {
	c, ok := v.(*ssa.Const)
	return ok && c.Value == nil
}

func isResultOf(v ssa.Value, call ssa.Value) bool {
	if v == call {
		return true
	}
	if e, ok := v.(*ssa.Extract); ok && e.Tuple == call {
		return true
	}
	return false
}

// HeldAt: at every selected site, obj has been acquired by one of the
// acquire callees (receiver rendering == obj) on every path and not released
// since: an acquire call dominates the site and no release is reachable
// between them.
func (c *Ctx) HeldAt(fnName string, sel Sel, obj string, acquire, release []string) bool {
	rule := "held-at"
	construct := fmt.Sprintf("%s: %s held at [%s]", fnName, obj, sel.Name)
	fn, ins := c.sites(rule, fnName, sel)
	if ins == nil {
		return false
	}
	isObj := func(in ssa.Instruction) bool {
		ci, ok := in.(ssa.CallInstruction)
		if !ok || len(ci.Common().Args) == 0 {
			return false
		}
		return strings.TrimPrefix(Term(ci.Common().Args[0]), "&") == obj
	}
	var acqs, rels []ssa.Instruction
	for _, in := range Calls(acquire...).F(c.P, fn) {
		if isObj(in) {
			acqs = append(acqs, in)
		}
	}
	for _, in := range Calls(release...).F(c.P, fn) {
		if isObj(in) {
			rels = append(rels, in)
		}
	}
	relSet := instrSet(rels)
	for _, site := range ins {
		ok := false
		ps := posOf(site)
		for _, a := range acqs {
			pa := posOf(a)
			dom := pa.b == ps.b && pa.i < ps.i || pa.b != ps.b && pa.b.Dominates(ps.b)
			if !dom {
				continue
			}
			// no path acquire -> release -> site
			bad := false
			for r := range relSet {
				if _, r1 := canReach(pa, false, map[ssa.Instruction]bool{r: true}, map[ssa.Instruction]bool{site: true}); r1 {
					if _, r2 := canReach(posOf(r), false, map[ssa.Instruction]bool{site: true}, instrSet(acqs)); r2 {
						bad = true
					}
				}
			}
			if !bad {
				ok = true
				break
			}
		}
		if !ok {
			c.Fail(rule, construct, InstrPos(site), fmt.Sprintf("`%s` may execute without %s held", DescribeInstr(site), obj))
			return false
		}
	}
	c.OK(rule, construct, fmt.Sprintf("%d site(s), %d acquire(s)", len(ins), len(acqs)))
	return true
}
