package core

import (
	"fmt"
	"go/token"
	"go/types"
	"sort"
	"strings"

	"golang.org/x/tools/go/ssa"
)

// Helpers added for the HTTP/2 server / write-scheduler properties
// (C08, C11, C12, C13, C15, C16). Generic; usable by other rule files.

// ---------------------------------------------------------------------------
// Rendering of stores independent of the address form.

// StoreText renders a store or map update as "location = value": an address
// computation "&x.f" denotes x.f, a pointer value p denotes *p.
func StoreText(in ssa.Instruction) string {
	switch x := in.(type) {
	case *ssa.Store:
		a := Term(x.Addr)
		if strings.HasPrefix(a, "&") {
			a = a[1:]
		} else {
			a = "*" + a
		}
		return a + " = " + Term(x.Val)
	case *ssa.MapUpdate:
		return Term(x.Map) + "[" + Term(x.Key) + "] = " + Term(x.Value)
	}
	return ""
}

// StoreAs selects stores and map updates whose StoreText is one of texts
// (spaces ignored).
func StoreAs(texts ...string) Sel {
	want := map[string]bool{}
	for _, t := range texts {
		want[stripSpaces(t)] = true
	}
	return Sel{"store " + strings.Join(texts, " | "), func(p *Prog, fn *ssa.Function) []ssa.Instruction {
		var out []ssa.Instruction
		eachInstr(fn, func(in ssa.Instruction) {
			if t := StoreText(in); t != "" && want[stripSpaces(t)] {
				out = append(out, in)
			}
		})
		return out
	}}
}

// StoresTo selects stores and map updates whose location (left side of
// StoreText) is loc.
func StoresTo(loc string) Sel {
	loc = stripSpaces(loc)
	return Sel{"store to " + loc, func(p *Prog, fn *ssa.Function) []ssa.Instruction {
		var out []ssa.Instruction
		eachInstr(fn, func(in ssa.Instruction) {
			t := StoreText(in)
			if i := strings.Index(t, " = "); i > 0 && stripSpaces(t[:i]) == loc {
				out = append(out, in)
			}
		})
		return out
	}}
}

// MapUpdates_h2server selects m[k] = v instructions whose map renders as mapTerm.
func MapUpdates_h2server(mapTerm string) Sel {
	return Sel{"map update " + mapTerm, func(p *Prog, fn *ssa.Function) []ssa.Instruction {
		var out []ssa.Instruction
		eachInstr(fn, func(in ssa.Instruction) {
			if mu, ok := in.(*ssa.MapUpdate); ok && Term(mu.Map) == mapTerm {
				out = append(out, in)
			}
		})
		return out
	}}
}

// Sends_h2server selects channel sends whose channel renders as chanTerm.
func Sends_h2server(chanTerm string) Sel {
	return Sel{"send on " + chanTerm, func(p *Prog, fn *ssa.Function) []ssa.Instruction {
		var out []ssa.Instruction
		eachInstr(fn, func(in ssa.Instruction) {
			if s, ok := in.(*ssa.Send); ok && Term(s.Chan) == chanTerm {
				out = append(out, in)
			}
		})
		return out
	}}
}

// ---------------------------------------------------------------------------
// AlwaysBefore: every path from the function entry to a `then` site passes a
// `first` site (weaker than Before: the first sites may sit on different
// branches that together cover all paths).
func (c *Ctx) AlwaysBefore(fnName string, first, then Sel) bool {
	rule := "always-before"
	construct := fmt.Sprintf("%s: every path to [%s] passes [%s]", fnName, then.Name, first.Name)
	fn, ins := c.sites(rule, fnName, then)
	if ins == nil {
		return false
	}
	barriers := instrSet(first.F(c.P, fn))
	if len(barriers) == 0 {
		c.Fail(rule, construct, fn.Pos(), "no ["+first.Name+"] site in this function")
		return false
	}
	if len(fn.Blocks) == 0 || len(fn.Blocks[0].Instrs) == 0 {
		c.Undecided(rule, construct, "function has no body")
		return false
	}
	if t, reach := canReach(ipos{fn.Blocks[0], 0}, true, instrSet(ins), barriers); reach {
		c.Fail(rule, construct, InstrPos(t), fmt.Sprintf("`%s` is reachable from the entry without [%s]", DescribeInstr(t), first.Name))
		return false
	}
	c.OK(rule, construct, fmt.Sprintf("%d site(s), %d preceding site(s)", len(ins), len(barriers)))
	return true
}

// ---------------------------------------------------------------------------
// Upper-bound proof for a value: v <= bound on every path.

func stripConv_h2server(v ssa.Value) ssa.Value {
	for {
		switch x := v.(type) {
		case *ssa.Convert:
			if isIntegral(x.Type()) && isIntegral(x.X.Type()) {
				v = x.X
				continue
			}
		case *ssa.ChangeType:
			v = x.X
			continue
		}
		return v
	}
}

// edgeFacts_h2server returns the facts that hold when control moves from pred to succ.
func edgeFacts_h2server(pred, succ *ssa.BasicBlock) []Fact {
	fs := append([]Fact{}, FactsAt(pred)...)
	if len(pred.Instrs) > 0 {
		if ifi, ok := pred.Instrs[len(pred.Instrs)-1].(*ssa.If); ok && len(pred.Succs) == 2 && pred.Succs[0] != pred.Succs[1] {
			a := CondAtom(ifi.Cond)
			if pred.Succs[0] == succ {
				fs = append(fs, Fact{a, ifi})
			} else if pred.Succs[1] == succ {
				fs = append(fs, Fact{a.Negate(), ifi})
			}
		}
	}
	return fs
}

// upperOperand: if the fact (established by its If) has the shape v <= w or
// v < w for the SSA value v, return w.
func upperOperand(f Fact, v ssa.Value) ssa.Value {
	bo, ok := f.If.Cond.(*ssa.BinOp)
	neg := false
	var cond ssa.Value = f.If.Cond
	for !ok {
		u, isU := cond.(*ssa.UnOp)
		if !isU || u.Op != token.NOT {
			return nil
		}
		neg = !neg
		cond = u.X
		bo, ok = cond.(*ssa.BinOp)
	}
	// does the fact correspond to the true edge of bo, or the false edge?
	ca := CondAtom(f.If.Cond)
	onTrue := SameAtom(ca, f.Atom)
	if neg {
		onTrue = !onTrue
	}
	vt := Term(stripConv_h2server(v))
	xt, yt := Term(stripConv_h2server(bo.X)), Term(stripConv_h2server(bo.Y))
	op := bo.Op
	if !onTrue {
		switch op {
		case token.LSS:
			op = token.GEQ
		case token.LEQ:
			op = token.GTR
		case token.GTR:
			op = token.LEQ
		case token.GEQ:
			op = token.LSS
		default:
			return nil
		}
	}
	switch op {
	case token.LSS, token.LEQ: // X <= Y
		if xt == vt {
			return bo.Y
		}
	case token.GTR, token.GEQ: // Y <= X
		if yt == vt {
			return bo.X
		}
	}
	return nil
}

func provedLE(v ssa.Value, bound string, fs []Fact, depth int, seen map[ssa.Value]bool) bool {
	return provedLEA(v, bound, fs, depth, seen, nil)
}

func contradictsAny(fs []Fact, assume []Atom) bool {
	for _, a := range assume {
		for _, f := range fs {
			if SameAtom(f.Atom, a.Negate()) {
				return true
			}
		}
	}
	return false
}

// provedLEA is provedLE under assumptions: merge edges whose branch facts
// contradict an assumed atom are not taken.
func provedLEA(v ssa.Value, bound string, fs []Fact, depth int, seen map[ssa.Value]bool, assume []Atom) bool {
	if depth > 8 {
		return false
	}
	v = stripConv_h2server(v)
	if Term(v) == bound {
		return true
	}
	if seen[v] {
		return false
	}
	seen[v] = true
	defer delete(seen, v)
	// min(a, b, ...) <= bound if any argument is
	if call, isCall := v.(*ssa.Call); isCall {
		if bi, isB := call.Call.Value.(*ssa.Builtin); isB && bi.Name() == "min" {
			for _, a := range call.Call.Args {
				if provedLEA(a, bound, fs, depth+1, seen, assume) {
					return true
				}
			}
			return false
		}
	}
	// a dominating fact v <= w with w <= bound
	for _, f := range fs {
		if w := upperOperand(f, v); w != nil {
			if Term(stripConv_h2server(w)) == bound {
				return true
			}
			// w must itself be bounded where the fact was established
			if provedLEA(w, bound, append(FactsAt(f.If.Block()), fs...), depth+1, seen, assume) {
				return true
			}
		}
	}
	if ph, ok := v.(*ssa.Phi); ok {
		for i, e := range ph.Edges {
			pred := ph.Block().Preds[i]
			ef := edgeFacts_h2server(pred, ph.Block())
			if contradictsAny(ef, assume) {
				continue
			}
			if !provedLEA(e, bound, ef, depth+1, seen, assume) {
				return false
			}
		}
		return true
	}
	return false
}

// ArgLE: argument idx of every selected call is provably <= the value that
// renders as bound: it is that value, or a dominating branch established
// arg <= w (or <) with w provably <= bound, or it is an if/else merge all of
// whose inputs are provably <= bound on their incoming edge (the
// "if x < a { a = x }" clamp idiom). Purely syntactic; signedness and
// overflow are not considered.
func (c *Ctx) ArgLE(fnName string, sel Sel, idx int, bound string) bool {
	rule := "clamped-by"
	construct := fmt.Sprintf("%s: arg%d of [%s] <= %s", fnName, idx, sel.Name, bound)
	_, ins := c.sites(rule, fnName, sel)
	if ins == nil {
		return false
	}
	for _, in := range ins {
		ci, ok := in.(ssa.CallInstruction)
		if !ok || idx >= len(BaselineArgs(ci.Common())) {
			c.Undecided(rule, construct, "site is not a call with that many arguments")
			return false
		}
		a := BaselineArgs(ci.Common())[idx]
		if !provedLE(a, bound, FactsAtInstr(in), 0, map[ssa.Value]bool{}) {
			c.Fail(rule, construct, InstrPos(in), fmt.Sprintf("argument `%s` is not provably bounded by %s; facts here: {%s}", Term(a), bound, factStrings(FactsAtInstr(in))))
			return false
		}
	}
	c.OK(rule, construct, fmt.Sprintf("%d site(s)", len(ins)))
	return true
}

// ValueLEWhen is ValueLE under assumed atoms; vacuous reports that the site
// itself is unreachable under the assumption.
func (p *Prog) ValueLEWhen(v ssa.Value, at ssa.Instruction, bound string, assume ...string) (ok, vacuous bool) {
	var as []Atom
	for _, s := range assume {
		a, err := p.ParseAtom(s)
		if err != nil {
			return false, false
		}
		as = append(as, a)
	}
	fs := FactsAtInstr(at)
	if contradictsAny(fs, as) {
		return true, true
	}
	return provedLEA(v, bound, fs, 0, map[ssa.Value]bool{}, as), false
}

// ValueLE is ArgLE for an arbitrary value at an instruction.
func ValueLE(v ssa.Value, at ssa.Instruction, bound string) bool {
	return provedLE(v, bound, FactsAtInstr(at), 0, map[ssa.Value]bool{})
}

// ---------------------------------------------------------------------------
// RecycledUnreferenced: an object handed to a recycling pool must no longer
// be referenced by its previous holder.
//
// For every call of putCallee (argument idx is the recycled object):
//   - by-value copy: the argument is the address of a local that was filled
//     from a struct field H (q := n.q; put(&q)). The slice headers inside H
//     still alias the recycled object, so on every path from the copy to a
//     return H must be overwritten with its zero value (or the holder must be
//     handed to one of dropCallees, which detach it from the data structure).
//   - pointer from a map (q := m[k], q, ok := m[k], for k, q := range m, also
//     through a struct-valued entry m[k].f): delete(m, k) with the same map
//     and key must dominate the call or lie on every path from it to a return.
//
// Any other provenance is undecided (fails).
func (c *Ctx) RecycledUnreferenced(putCallee string, idx int, dropCallees ...string) {
	rule := "recycled-unreferenced"
	if c.MustFn(putCallee) == nil {
		return
	}
	m := c.CallersMatching(putCallee)
	var outers []string
	for k := range m {
		outers = append(outers, k)
	}
	sort.Strings(outers)
	if len(outers) == 0 {
		c.Undecided(rule, putCallee, "no call found at all")
		return
	}
	for _, o := range outers {
		for _, in := range m[o] {
			fn := in.Parent()
			construct := fmt.Sprintf("%s: object passed to %s is dropped by its holder", FnName(fn), putCallee)
			args := BaselineArgs(in.(ssa.CallInstruction).Common())
			if idx >= len(args) {
				c.Undecided(rule, construct, "call has too few arguments")
				continue
			}
			c.Stats["call_sites"]++
			rets := instrSet(Returns().F(c.P, fn))
			arg := args[idx]
			if al, ok := arg.(*ssa.Alloc); ok {
				c.recycledCopy(rule, construct, fn, in, al, rets, dropCallees)
				continue
			}
			c.recycledPointer(rule, construct, fn, in, arg, rets)
		}
	}
}

func isZeroConst_h2server(v ssa.Value) bool {
	k, ok := v.(*ssa.Const)
	return ok && k.Value == nil
}

func (c *Ctx) recycledCopy(rule, construct string, fn *ssa.Function, put ssa.Instruction, al *ssa.Alloc, rets map[ssa.Instruction]bool, dropCallees []string) {
	// where was the local filled from?
	var loads []*ssa.UnOp
	for _, st := range storesInto(al) {
		if st.Addr != ssa.Value(al) {
			continue
		}
		if u, ok := st.Val.(*ssa.UnOp); ok && u.Op == token.MUL {
			if _, isF := u.X.(*ssa.FieldAddr); isF {
				loads = append(loads, u)
				continue
			}
		}
		c.Undecided(rule, construct, "recycled local is filled from `"+Term(st.Val)+"`, not from a struct field (idiom not recognised)")
		return
	}
	if len(loads) == 0 {
		c.Undecided(rule, construct, "recycled local is never filled (idiom not recognised)")
		return
	}
	for _, ld := range loads {
		fa := ld.X.(*ssa.FieldAddr)
		holder := Term(fa) // "&x.f"
		owner := Term(fa.X)
		barriers := map[ssa.Instruction]bool{}
		eachInstr(fn, func(x ssa.Instruction) {
			switch y := x.(type) {
			case *ssa.Store:
				if Term(y.Addr) == holder && isZeroConst_h2server(y.Val) {
					barriers[x] = true
				}
			case *ssa.Call:
				if matchCallee(&y.Call, dropCallees) {
					for _, a := range y.Call.Args {
						if Term(a) == owner {
							barriers[x] = true
						}
					}
				}
			}
		})
		if r, reach := canReach(posOf(ld), false, rets, barriers); reach {
			c.Fail(rule, construct, InstrPos(put), fmt.Sprintf("a copy of %s is recycled but %s keeps its slice headers: the return at %s is reachable without `%s = zero value`",
				holder[1:], holder[1:], c.P.Pos(InstrPos(r)), holder[1:]))
			return
		}
	}
	c.OK(rule, construct, fmt.Sprintf("by-value holder %s is reset on every path", Term(loads[0].X)[1:]))
}

func (c *Ctx) recycledPointer(rule, construct string, fn *ssa.Function, put ssa.Instruction, arg ssa.Value, rets map[ssa.Instruction]bool) {
	type src struct{ m, k string }
	var srcs []src
	Backward(arg, func(v ssa.Value) bool {
		switch x := v.(type) {
		case *ssa.Lookup:
			if _, isMap := x.X.Type().Underlying().(*types.Map); isMap {
				srcs = append(srcs, src{Term(x.X), Term(x.Index)})
				return false
			}
		case *ssa.Next:
			if rg, ok := x.Iter.(*ssa.Range); ok {
				if _, isMap := rg.X.Type().Underlying().(*types.Map); isMap {
					srcs = append(srcs, src{Term(rg.X), Term(x) + "#1"})
					return false
				}
			}
		case *ssa.Call:
			return false // do not look through calls
		}
		return true
	})
	if len(srcs) == 0 {
		c.Undecided(rule, construct, "recycled pointer `"+Term(arg)+"` does not come from a map entry (idiom not recognised)")
		return
	}
	for _, s := range srcs {
		var dels []ssa.Instruction
		eachInstr(fn, func(x ssa.Instruction) {
			if cl, ok := x.(*ssa.Call); ok && CalleeName(&cl.Call) == "builtin:delete" && len(cl.Call.Args) == 2 {
				if Term(cl.Call.Args[0]) == s.m && Term(cl.Call.Args[1]) == s.k {
					dels = append(dels, x)
				}
			}
		})
		ok := false
		pp := posOf(put)
		for _, d := range dels {
			pd := posOf(d)
			if pd.b == pp.b && pd.i < pp.i || pd.b != pp.b && pd.b.Dominates(pp.b) {
				ok = true
			}
		}
		if !ok && len(dels) > 0 {
			if _, reach := canReach(pp, false, rets, instrSet(dels)); !reach {
				ok = true
			}
		}
		if !ok {
			c.Fail(rule, construct, InstrPos(put), fmt.Sprintf("`%s` comes from %s[%s] but no delete(%s, %s) covers this call: the map keeps pointing at the recycled object", Term(arg), s.m, s.k, s.m, s.k))
			return
		}
	}
	c.OK(rule, construct, fmt.Sprintf("map entry %s[%s] deleted", srcs[0].m, srcs[0].k))
}

// FieldNameOf returns the name of the field addressed by fa.
func FieldNameOf(fa *ssa.FieldAddr) string { return fieldName(fa.X.Type(), fa.Field) }

// ElemWriters: every store to an element of the array/slice-of-array field
// (x.f[i]... = v, any nesting of index expressions) is in one of the allowed
// outermost functions. Complements Writers, which attributes only stores to
// the field itself.
func (c *Ctx) ElemWriters(field string, allowed ...string) bool {
	rule := "writers"
	construct := "elements of " + field + " ⊆ {" + strings.Join(allowed, ", ") + "}"
	fv := c.P.Field(field)
	if fv == nil {
		c.Undecided(rule, construct, "field not found")
		return false
	}
	allow := map[string]bool{}
	for _, a := range allowed {
		allow[a] = true
	}
	n := 0
	ok := true
	seen := map[string]bool{}
	for _, fn := range c.P.All {
		outer := FnName(Outer(fn))
		eachInstr(fn, func(in ssa.Instruction) {
			st, isSt := in.(*ssa.Store)
			if !isSt {
				return
			}
			a := st.Addr
			depth := 0
			for {
				ia, isIA := a.(*ssa.IndexAddr)
				if !isIA {
					break
				}
				a = ia.X
				depth++
			}
			if depth == 0 || fieldOfAddr(a) != fv {
				return
			}
			n++
			seen[outer] = true
			if !allow[outer] {
				ok = false
				c.Fail(rule, construct, InstrPos(in), fmt.Sprintf("element store `%s` in %s, which is not an allowed writer", StoreText(in), outer))
			}
		})
	}
	c.Stats["write_sites"] += n
	if n == 0 {
		c.Undecided(rule, construct, "no element store found at all")
		return false
	}
	if ok {
		var s []string
		for k := range seen {
			s = append(s, k)
		}
		sort.Strings(s)
		c.OK(rule, construct, fmt.Sprintf("%d element store(s) in {%s}", n, strings.Join(s, ", ")))
	}
	return ok
}

// EdgeFacts_h2server returns the branch facts that hold when control moves from pred to succ.
func EdgeFacts_h2server(pred, succ *ssa.BasicBlock) []Fact { return edgeFacts_h2server(pred, succ) }

// Tests selects the If instructions that test the given condition (either polarity).
func (c *Ctx) Tests(spec string) Sel {
	return Sel{"test " + stripSpaces(spec), func(p *Prog, fn *ssa.Function) []ssa.Instruction {
		a, err := p.ParseAtom(spec)
		if err != nil {
			return nil
		}
		var out []ssa.Instruction
		eachInstr(fn, func(in ssa.Instruction) {
			if ifi, ok := in.(*ssa.If); ok {
				ca := CondAtom(ifi.Cond)
				if SameAtom(ca, a) || SameAtom(ca.Negate(), a) {
					out = append(out, in)
				}
			}
		})
		return out
	}}
}

// OnEveryCycle: every control-flow cycle through a `from` site passes a
// `through` site (a per-iteration check of a loop), and each `from` site lies
// on a cycle at all.
func (c *Ctx) OnEveryCycle(fnName string, from, through Sel) bool {
	rule := "every-iteration"
	construct := fmt.Sprintf("%s: every cycle through [%s] passes [%s]", fnName, from.Name, through.Name)
	fn, ins := c.sites(rule, fnName, from)
	if ins == nil {
		return false
	}
	barriers := instrSet(through.F(c.P, fn))
	if len(barriers) == 0 {
		c.Fail(rule, construct, fn.Pos(), "no ["+through.Name+"] site in this function")
		return false
	}
	for _, in := range ins {
		self := map[ssa.Instruction]bool{in: true}
		if _, loops := canReach(posOf(in), false, self, nil); !loops {
			c.Fail(rule, construct, InstrPos(in), fmt.Sprintf("`%s` is not inside a loop", DescribeInstr(in)))
			return false
		}
		if _, reach := canReach(posOf(in), false, self, barriers); reach {
			c.Fail(rule, construct, InstrPos(in), fmt.Sprintf("`%s` can be reached again without passing [%s]", DescribeInstr(in), through.Name))
			return false
		}
	}
	c.OK(rule, construct, fmt.Sprintf("%d site(s), %d check site(s)", len(ins), len(barriers)))
	return true
}

// CallsOfValue selects calls (not go/defer) whose callee is a function value
// rendering as term ("$2" for a func-typed parameter).
func CallsOfValue(term string) Sel {
	return Sel{"call through " + term, func(p *Prog, fn *ssa.Function) []ssa.Instruction {
		var out []ssa.Instruction
		eachInstr(fn, func(in ssa.Instruction) {
			if cl, ok := in.(*ssa.Call); ok && !cl.Call.IsInvoke() {
				switch cl.Call.Value.(type) {
				case *ssa.Function, *ssa.Builtin, *ssa.MakeClosure:
					return
				}
				if Term(cl.Call.Value) == term {
					out = append(out, in)
				}
			}
		})
		return out
	}}
}
