package core

import (
	"go/ast"
	"fmt"
	"go/constant"
	"go/token"
	"go/types"
	"sort"
	"strconv"
	"strings"

	"golang.org/x/tools/go/ssa"
)

// ---------------------------------------------------------------------------
// Canonical rendering of SSA values as provenance terms.
//
//   $r          receiver            $0,$1..   parameters (receiver excluded)
//   ^name       captured variable   %name     address-taken local
//   x.f         field load          len(x)    builtin
//   f(a,b)      static call (callee's bare name; methods get the receiver as
//               first argument)     f(a)#1    second result
//   .M(x,a)     interface call      x[i]      index
//   φ(a|b)      phi                 nil, 42, "s"  constants
// Conversions are transparent.

type renderer struct {
	depth int
	phis  map[*ssa.Phi]bool
}

// Term renders v.
func Term(v ssa.Value) string {
	r := &renderer{phis: map[*ssa.Phi]bool{}}
	return r.term(v)
}

// ParamPerm returns, for a source function whose parameter names are a
// permutation of its baseline names, perm[baselineIndex] = currentIndex (both
// excluding the receiver); nil otherwise.
func ParamPerm(fn *ssa.Function) []int {
	if fn == nil || fn.Parent() != nil {
		return nil
	}
	off := 0
	if fn.Signature.Recv() != nil {
		off = 1
	}
	base := BaselineParams(FnName(fn))
	if len(base) != len(fn.Params)-off || len(base) < 2 {
		return nil
	}
	cur := map[string]int{}
	same := true
	for i, q := range fn.Params[off:] {
		if q.Name() == "_" {
			return nil
		}
		if _, dup := cur[q.Name()]; dup {
			return nil
		}
		cur[q.Name()] = i
		if q.Name() != base[i] {
			same = false
		}
	}
	if same {
		return nil
	}
	perm := make([]int, len(base))
	byName := true
	for i, b := range base {
		j, ok := cur[b]
		if !ok {
			byName = false
			break
		}
		perm[i] = j
	}
	if byName {
		return perm
	}
	// renamed as well as reordered: when all parameter types are distinct and the
	// same as in the baseline, the types identify the permutation
	bt := BaselineParamTypes(FnName(fn))
	fd, _ := fn.Syntax().(*ast.FuncDecl)
	if len(bt) != len(base) || fd == nil {
		return nil
	}
	var ct []string
	for _, f := range fd.Type.Params.List {
		ts := strings.ReplaceAll(types.ExprString(f.Type), " ", "")
		n := len(f.Names)
		if n == 0 {
			n = 1
		}
		for k := 0; k < n; k++ {
			ct = append(ct, ts)
		}
	}
	if len(ct) != len(bt) {
		return nil
	}
	idx := map[string]int{}
	for i, t := range ct {
		if _, dup := idx[t]; dup {
			return nil
		}
		idx[t] = i
	}
	identity := true
	for i, t := range bt {
		j, ok := idx[t]
		if !ok {
			return nil
		}
		perm[i] = j
		if i != j {
			identity = false
		}
	}
	if identity {
		return nil
	}
	return perm
}

// BaselineArgs reorders the arguments of a static call into the callee's baseline parameter order.
func BaselineArgs(c *ssa.CallCommon) []ssa.Value {
	callee := c.StaticCallee()
	perm := ParamPerm(callee)
	if perm == nil {
		return c.Args
	}
	off := 0
	if callee.Signature.Recv() != nil {
		off = 1
	}
	if len(c.Args) != len(perm)+off {
		return c.Args
	}
	out := make([]ssa.Value, len(c.Args))
	copy(out, c.Args[:off])
	for i, j := range perm {
		out[off+i] = c.Args[off+j]
	}
	return out
}

func paramName(p *ssa.Parameter) string {
	fn := p.Parent()
	off := 0
	if fn.Signature.Recv() != nil {
		off = 1
	}
	// Parameters are named by position in the baseline signature: if the current
	// parameters are a permutation of the baseline ones (an unexported function
	// whose parameters were reordered), positions are mapped back (see ParamPerm).
	if perm := ParamPerm(fn); perm != nil {
		for i, q := range fn.Params[off:] {
			if q == p {
				for bi, ci := range perm {
					if ci == i {
						return "$" + strconv.Itoa(bi)
					}
				}
			}
		}
	}
	for i, q := range fn.Params {
		if q == p {
			if i == 0 && off == 1 {
				return "$r"
			}
			return "$" + strconv.Itoa(i-off)
		}
	}
	return "$?"
}

func calleeShort(c *ssa.CallCommon) string {
	if c.IsInvoke() {
		return "." + c.Method.Name()
	}
	switch f := c.Value.(type) {
	case *ssa.Function:
		return BaseShortName(f)
	case *ssa.Builtin:
		return f.Name()
	case *ssa.MakeClosure:
		if fn, ok := f.Fn.(*ssa.Function); ok {
			return BaseShortName(fn)
		}
	}
	return ""
}

func (r *renderer) args(vs []ssa.Value) string {
	var parts []string
	for _, a := range vs {
		parts = append(parts, r.term(a))
	}
	return strings.Join(parts, ",")
}

func constString(c *ssa.Const) string {
	if c.Value == nil {
		// zero value of the type
		switch t := c.Type().Underlying().(type) {
		case *types.Basic:
			if t.Info()&types.IsNumeric != 0 {
				return "0"
			}
			if t.Info()&types.IsString != 0 {
				return `""`
			}
			if t.Info()&types.IsBoolean != 0 {
				return "false"
			}
		case *types.Struct, *types.Array:
			return "zero(" + Short(types.TypeString(c.Type(), nil)) + ")"
		}
		return "nil"
	}
	switch c.Value.Kind() {
	case constant.String:
		return strconv.Quote(constant.StringVal(c.Value))
	case constant.Bool:
		return c.Value.String()
	default:
		return c.Value.ExactString()
	}
}

func (r *renderer) term(v ssa.Value) string {
	if v == nil {
		return "<nil>"
	}
	r.depth++
	defer func() { r.depth-- }()
	if r.depth > 12 {
		return "…"
	}
	switch x := v.(type) {
	case *ssa.Parameter:
		return paramName(x)
	case *ssa.FreeVar:
		return "&^" + x.Name()
	case *ssa.Const:
		return constString(x)
	case *ssa.Global:
		return Short(x.Pkg.Pkg.Path()) + "." + x.Name()
	case *ssa.Function:
		return "func:" + FnName(x)
	case *ssa.Builtin:
		return "builtin:" + x.Name()
	case *ssa.Alloc:
		return "&%" + allocName(x)
	case *ssa.UnOp:
		switch x.Op {
		case token.MUL:
			return r.deref(x.X)
		case token.NOT:
			return "!" + r.term(x.X)
		case token.SUB:
			return "-" + r.term(x.X)
		case token.XOR:
			return "^" + r.term(x.X)
		case token.ARROW:
			return "<-" + r.term(x.X)
		}
	case *ssa.Field:
		return r.term(x.X) + "." + fieldName(x.X.Type(), x.Field)
	case *ssa.FieldAddr:
		return "&" + r.deref(x)
	case *ssa.IndexAddr:
		return "&" + r.deref(x)
	case *ssa.Index:
		return r.term(x.X) + "[" + r.term(x.Index) + "]"
	case *ssa.Lookup:
		return r.term(x.X) + "[" + r.term(x.Index) + "]"
	case *ssa.Call:
		name := calleeShort(&x.Call)
		if x.Call.IsInvoke() {
			return name + "(" + r.args(append([]ssa.Value{x.Call.Value}, x.Call.Args...)) + ")"
		}
		if name == "" {
			return "call(" + r.term(x.Call.Value) + ")(" + r.args(x.Call.Args) + ")"
		}
		return name + "(" + r.args(BaselineArgs(&x.Call)) + ")"
	case *ssa.Extract:
		return r.term(x.Tuple) + "#" + strconv.Itoa(x.Index)
	case *ssa.BinOp:
		return "(" + r.term(x.X) + x.Op.String() + r.term(x.Y) + ")"
	case *ssa.Convert:
		return r.term(x.X)
	case *ssa.ChangeType:
		return r.term(x.X)
	case *ssa.ChangeInterface:
		return r.term(x.X)
	case *ssa.MakeInterface:
		return r.term(x.X)
	case *ssa.SliceToArrayPointer:
		return r.term(x.X)
	case *ssa.MultiConvert:
		return r.term(x.X)
	case *ssa.Slice:
		s := r.term(x.X) + "["
		if x.Low != nil {
			s += r.term(x.Low)
		}
		s += ":"
		if x.High != nil {
			s += r.term(x.High)
		}
		if x.Max != nil {
			s += ":" + r.term(x.Max)
		}
		return s + "]"
	case *ssa.Phi:
		if r.phis[x] {
			return "φ↺"
		}
		r.phis[x] = true
		set := map[string]bool{}
		dead := DeadBlocks(x.Parent())
		for i, e := range x.Edges {
			if i < len(x.Block().Preds) && dead[x.Block().Preds[i]] {
				continue // edge from a block only reachable through a constant-false branch
			}
			set[r.term(e)] = true
		}
		delete(r.phis, x)
		var parts []string
		cyclic := false
		for k := range set {
			if strings.Contains(k, "φ↺") {
				cyclic = true
			}
			parts = append(parts, k)
		}
		if cyclic {
			// loop-carried variable: named after the source variable
			if x.Comment != "" {
				return "φ" + x.Comment
			}
			return "φ?"
		}
		sort.Strings(parts)
		if len(parts) == 1 {
			return parts[0]
		}
		return "φ(" + strings.Join(parts, "|") + ")"
	case *ssa.TypeAssert:
		return r.term(x.X) + ".(" + Short(types.TypeString(x.AssertedType, nil)) + ")"
	case *ssa.MakeSlice:
		return "make(" + r.term(x.Len) + ")"
	case *ssa.MakeMap:
		return "makemap"
	case *ssa.MakeChan:
		return "makechan(" + r.term(x.Size) + ")"
	case *ssa.MakeClosure:
		if fn, ok := x.Fn.(*ssa.Function); ok {
			return "closure:" + fn.Name()
		}
	case *ssa.Next:
		return "next(" + r.term(x.Iter) + ")"
	case *ssa.Range:
		return "range(" + r.term(x.X) + ")"
	case *ssa.Select:
		return "select"
	}
	return fmt.Sprintf("?%T", v)
}

// spilledParam recognises the alloc go/ssa creates for an address-taken
// parameter: its first store, in the entry block, is the parameter itself.
func spilledParam(a *ssa.Alloc) *ssa.Parameter {
	refs := a.Referrers()
	if refs == nil {
		return nil
	}
	for _, r := range *refs {
		if st, ok := r.(*ssa.Store); ok && st.Addr == a {
			if p, ok := st.Val.(*ssa.Parameter); ok && st.Block().Index == 0 {
				return p
			}
		}
	}
	return nil
}

// singleStore: a local that is assigned as a whole exactly once is named by
// the value it was initialised from (a read-only copy such as dt := d.dynTab.table).
func singleStore(a *ssa.Alloc) ssa.Value {
	refs := a.Referrers()
	if refs == nil {
		return nil
	}
	var val ssa.Value
	n := 0
	for _, r := range *refs {
		if st, ok := r.(*ssa.Store); ok && st.Addr == a {
			n++
			val = st.Val
		}
	}
	if n != 1 {
		return nil
	}
	if _, isConst := val.(*ssa.Const); isConst {
		return nil
	}
	return val
}

func allocName(a *ssa.Alloc) string {
	if a.Comment != "" {
		return a.Comment
	}
	return a.Name()
}

func (r *renderer) deref(p ssa.Value) string {
	switch x := p.(type) {
	case *ssa.FieldAddr:
		return r.base(x.X) + "." + fieldName(x.X.Type(), x.Field)
	case *ssa.IndexAddr:
		return r.base(x.X) + "[" + r.term(x.Index) + "]"
	case *ssa.Alloc:
		if p := spilledParam(x); p != nil {
			return paramName(p)
		}
		if v := singleStore(x); v != nil {
			return r.term(v)
		}
		return "%" + allocName(x)
	case *ssa.FreeVar:
		return "^" + x.Name()
	case *ssa.Global:
		t := Short(x.Pkg.Pkg.Path()) + "." + x.Name()
		globalOfTerm[t] = x
		return t
	}
	return "*" + r.term(p)
}

// base renders the object a FieldAddr/IndexAddr projects from: an address
// computation denotes its location, a pointer value denotes itself.
func (r *renderer) base(v ssa.Value) string {
	switch x := v.(type) {
	case *ssa.FieldAddr, *ssa.Alloc, *ssa.FreeVar, *ssa.Global:
		return r.deref(v)
	case *ssa.IndexAddr:
		_ = x
		return r.deref(v)
	}
	return r.term(v)
}

func fieldName(t types.Type, idx int) string {
	if p, ok := t.Underlying().(*types.Pointer); ok {
		t = p.Elem()
	}
	if st, ok := t.Underlying().(*types.Struct); ok && idx < st.NumFields() {
		return st.Field(idx).Name()
	}
	return "?f" + strconv.Itoa(idx)
}

// ---------------------------------------------------------------------------
// Linear forms and atoms.

// Lin is Σ Coef[t]·t + K.
type Lin struct {
	Coef map[string]int64
	K    int64
}

func (l Lin) add(o Lin, sign int64) Lin {
	out := Lin{Coef: map[string]int64{}, K: l.K + sign*o.K}
	for t, c := range l.Coef {
		out.Coef[t] += c
	}
	for t, c := range o.Coef {
		out.Coef[t] += sign * c
	}
	for t, c := range out.Coef {
		if c == 0 {
			delete(out.Coef, t)
		}
	}
	return out
}

func (l Lin) scale(k int64) Lin {
	out := Lin{Coef: map[string]int64{}, K: l.K * k}
	for t, c := range l.Coef {
		if c*k != 0 {
			out.Coef[t] = c * k
		}
	}
	return out
}

func (l Lin) isConst() bool { return len(l.Coef) == 0 }

func (l Lin) String() string {
	var ts []string
	for t := range l.Coef {
		ts = append(ts, t)
	}
	sort.Strings(ts)
	var sb strings.Builder
	for i, t := range ts {
		c := l.Coef[t]
		switch {
		case c == 1 && i == 0:
		case c == 1:
			sb.WriteString("+")
		case c == -1:
			sb.WriteString("-")
		case c > 0 && i > 0:
			sb.WriteString("+" + strconv.FormatInt(c, 10) + "*")
		default:
			sb.WriteString(strconv.FormatInt(c, 10) + "*")
		}
		sb.WriteString(t)
	}
	if l.K != 0 || len(ts) == 0 {
		if l.K >= 0 && len(ts) > 0 {
			sb.WriteString("+")
		}
		sb.WriteString(strconv.FormatInt(l.K, 10))
	}
	return sb.String()
}

func isIntegral(t types.Type) bool {
	b, ok := t.Underlying().(*types.Basic)
	return ok && b.Info()&types.IsInteger != 0
}

// Linearize renders an SSA value as a linear form over terms.
func Linearize(v ssa.Value) Lin {
	r := &renderer{phis: map[*ssa.Phi]bool{}}
	return r.lin(v, 0)
}

func (r *renderer) lin(v ssa.Value, d int) Lin {
	if d < 10 {
		switch x := v.(type) {
		case *ssa.Const:
			if x.Value == nil {
				if isIntegral(x.Type()) {
					return Lin{Coef: map[string]int64{}}
				}
				if constString(x) == "nil" {
					return Lin{Coef: map[string]int64{}} // nil == 0
				}
			} else if x.Value.Kind() == constant.Int {
				if i, ok := constant.Int64Val(x.Value); ok {
					return Lin{Coef: map[string]int64{}, K: i}
				}
			}
		case *ssa.Convert:
			if isIntegral(x.Type()) && isIntegral(x.X.Type()) {
				return r.lin(x.X, d+1)
			}
		case *ssa.ChangeType:
			return r.lin(x.X, d+1)
		case *ssa.BinOp:
			if isIntegral(x.Type()) {
				switch x.Op {
				case token.ADD:
					return r.lin(x.X, d+1).add(r.lin(x.Y, d+1), 1)
				case token.SUB:
					return r.lin(x.X, d+1).add(r.lin(x.Y, d+1), -1)
				case token.MUL:
					a, b := r.lin(x.X, d+1), r.lin(x.Y, d+1)
					if a.isConst() {
						return b.scale(a.K)
					}
					if b.isConst() {
						return a.scale(b.K)
					}
				case token.SHL:
					b := r.lin(x.Y, d+1)
					if b.isConst() && b.K >= 0 && b.K < 62 {
						return r.lin(x.X, d+1).scale(1 << uint(b.K))
					}
				}
			}
		case *ssa.UnOp:
			if x.Op == token.SUB && isIntegral(x.Type()) {
				return r.lin(x.X, d+1).scale(-1)
			}
		}
	}
	return Lin{Coef: map[string]int64{r.term(v): 1}}
}

// Atom kinds.
const (
	LE   = "<=0" // Σ + K <= 0
	EQ   = "==0"
	NE   = "!=0"
	TRUE = "true" // boolean term holds
	FALS = "false"
)

// Atom is a canonical branch fact.
type Atom struct {
	Kind string
	L    Lin
	// NonNeg: the atom compares a single term that cannot be negative (an
	// unsigned integer, len or cap) with 0 or 1; then x > 0 and x != 0, x <= 0
	// and x == 0 are the same fact.
	NonNeg bool
}

func (a Atom) String() string {
	switch a.Kind {
	case TRUE:
		return a.L.String()
	case FALS:
		return "!" + a.L.String()
	}
	return a.L.String() + " " + a.Kind
}

// norm fixes the sign of EQ/NE atoms so that equal facts print equally.
func (a Atom) norm() Atom {
	// s == "" and len(s) == 0 are one fact: both become the atom over len(s)
	if (a.Kind == EQ || a.Kind == NE) && a.L.K == 0 && len(a.L.Coef) == 2 {
		if ce, ok := a.L.Coef[`""`]; ok {
			for t, c := range a.L.Coef {
				if t != `""` && c == -ce && (c == 1 || c == -1) {
					a = Atom{Kind: a.Kind, L: Lin{Coef: map[string]int64{"len(" + t + ")": 1}}, NonNeg: true}
				}
			}
		}
	}
	if a.Kind == EQ || a.Kind == NE {
		var ts []string
		for t := range a.L.Coef {
			ts = append(ts, t)
		}
		sort.Strings(ts)
		if len(ts) > 0 && a.L.Coef[ts[0]] < 0 {
			a.L = a.L.scale(-1)
		} else if len(ts) == 0 && a.L.K < 0 {
			a.L = a.L.scale(-1)
		}
	}
	return a
}

// Negate returns the atom that holds on the other branch.
func (a Atom) Negate() Atom {
	switch a.Kind {
	case LE:
		n := a.L.scale(-1)
		n.K++
		return Atom{Kind: LE, L: n, NonNeg: a.NonNeg}
	case EQ:
		return Atom{Kind: NE, L: a.L, NonNeg: a.NonNeg}
	case NE:
		return Atom{Kind: EQ, L: a.L, NonNeg: a.NonNeg}
	case TRUE:
		return Atom{Kind: FALS, L: a.L}
	default:
		return Atom{Kind: TRUE, L: a.L}
	}
}

// CondAtom converts a branch condition value into an atom that holds when
// the condition is true.
func CondAtom(v ssa.Value) Atom {
	r := &renderer{phis: map[*ssa.Phi]bool{}}
	return r.cond(v)
}

func (r *renderer) cond(v ssa.Value) Atom {
	switch x := v.(type) {
	case *ssa.UnOp:
		if x.Op == token.NOT {
			return r.cond(x.X).Negate()
		}
	case *ssa.BinOp:
		ordered := isIntegral(x.X.Type())
		nn := nonNegValue(x.X) || nonNegValue(x.Y)
		switch x.Op {
		case token.EQL:
			a := Atom{Kind: EQ, L: r.cmpLin(x.X).add(r.cmpLin(x.Y), -1)}.norm()
			a.NonNeg = nn
			return a
		case token.NEQ:
			a := Atom{Kind: NE, L: r.cmpLin(x.X).add(r.cmpLin(x.Y), -1)}.norm()
			a.NonNeg = nn
			return a
		}
		if ordered {
			a, b := r.lin(x.X, 0), r.lin(x.Y, 0)
			switch x.Op {
			case token.LSS: // a < b  <=> a-b+1 <= 0
				l := a.add(b, -1)
				l.K++
				return Atom{Kind: LE, L: l, NonNeg: nn}
			case token.LEQ:
				return Atom{Kind: LE, L: a.add(b, -1), NonNeg: nn}
			case token.GTR: // a > b <=> b-a+1<=0
				l := b.add(a, -1)
				l.K++
				return Atom{Kind: LE, L: l, NonNeg: nn}
			case token.GEQ:
				return Atom{Kind: LE, L: b.add(a, -1), NonNeg: nn}
			}
		}
	case *ssa.Const:
		// constant condition
		return Atom{Kind: TRUE, L: Lin{Coef: map[string]int64{constString(x): 1}}}
	}
	return Atom{Kind: TRUE, L: Lin{Coef: map[string]int64{r.term(v): 1}}}
}

// nonNegValue: v can never be negative (unsigned integer type, len or cap).
func nonNegValue(v ssa.Value) bool {
	for {
		if c, ok := v.(*ssa.Convert); ok && isIntegral(c.X.Type()) && isIntegral(c.Type()) {
			// a widening conversion of a non-negative value stays non-negative
			if b, ok := c.X.Type().Underlying().(*types.Basic); ok && b.Info()&types.IsUnsigned != 0 {
				return true
			}
			v = c.X
			continue
		}
		break
	}
	if _, isConst := v.(*ssa.Const); isConst {
		return false
	}
	if b, ok := v.Type().Underlying().(*types.Basic); ok && b.Info()&types.IsUnsigned != 0 {
		return true
	}
	if call, ok := v.(*ssa.Call); ok {
		if bi, ok := call.Call.Value.(*ssa.Builtin); ok && (bi.Name() == "len" || bi.Name() == "cap") {
			return true
		}
	}
	return false
}

// cmpLin: operands of ==/!= — integers linearised, others as single terms
// (nil is the constant 0, booleans true/false are terms).
func (r *renderer) cmpLin(v ssa.Value) Lin {
	if isIntegral(v.Type()) {
		return r.lin(v, 0)
	}
	if c, ok := v.(*ssa.Const); ok && c.Value == nil && constString(c) == "nil" {
		return Lin{Coef: map[string]int64{}}
	}
	return Lin{Coef: map[string]int64{r.term(v): 1}}
}

// ---------------------------------------------------------------------------
// Spec parser:  "len($0) >= 4", "$r.maxReadSize < $1.Length", "!ok", "x == nil".
// Terms are written exactly as the renderer prints them; "@pkg.Name" is
// replaced by the value of that package-level integer constant.

func (p *Prog) ParseAtom(s string) (Atom, error) {
	s = strings.TrimSpace(s)
	// @pkg.Const anywhere in the spec (also inside call terms) is the constant's value
	if strings.Contains(s, "@") {
		var sb strings.Builder
		for i := 0; i < len(s); {
			if s[i] != '@' {
				sb.WriteByte(s[i])
				i++
				continue
			}
			j := i + 1
			for j < len(s) && (s[j] == '_' || s[j] == '/' || s[j] == '.' || s[j] >= '0' && s[j] <= '9' || s[j] >= 'a' && s[j] <= 'z' || s[j] >= 'A' && s[j] <= 'Z') {
				j++
			}
			c, ok := p.Object(s[i+1 : j]).(*types.Const)
			if !ok {
				return Atom{}, fmt.Errorf("constant %s not found", s[i:j])
			}
			sb.WriteString(constant.ToInt(c.Val()).ExactString())
			i = j
		}
		s = sb.String()
	}
	ops := []string{"<=", ">=", "==", "!=", "<", ">"}
	depth := 0
	inStr := false
	for i := 0; i < len(s); i++ {
		ch := s[i]
		if ch == '"' {
			inStr = !inStr
		}
		if inStr {
			continue
		}
		switch ch {
		case '(', '[':
			depth++
		case ')', ']':
			depth--
		}
		if depth != 0 {
			continue
		}
		for _, op := range ops {
			if strings.HasPrefix(s[i:], op) {
				// "<-" is a receive, not a comparison
				if op == "<" && strings.HasPrefix(s[i:], "<-") {
					continue
				}
				l, err := p.parseLin(s[:i])
				if err != nil {
					return Atom{}, err
				}
				r, err := p.parseLin(s[i+len(op):])
				if err != nil {
					return Atom{}, err
				}
				switch op {
				case "==":
					return Atom{Kind: EQ, L: l.add(r, -1)}.norm(), nil
				case "!=":
					return Atom{Kind: NE, L: l.add(r, -1)}.norm(), nil
				case "<":
					x := l.add(r, -1)
					x.K++
					return Atom{Kind: LE, L: x}, nil
				case "<=":
					return Atom{Kind: LE, L: l.add(r, -1)}, nil
				case ">":
					x := r.add(l, -1)
					x.K++
					return Atom{Kind: LE, L: x}, nil
				case ">=":
					return Atom{Kind: LE, L: r.add(l, -1)}, nil
				}
			}
		}
	}
	neg := false
	for strings.HasPrefix(s, "!") {
		neg = !neg
		s = strings.TrimSpace(s[1:])
	}
	a := Atom{Kind: TRUE, L: Lin{Coef: map[string]int64{stripSpaces(s): 1}}}
	if neg {
		a = a.Negate()
	}
	return a, nil
}

func stripSpaces(s string) string {
	var sb strings.Builder
	inStr := false
	for i := 0; i < len(s); i++ {
		if s[i] == '"' {
			inStr = !inStr
		}
		if !inStr && (s[i] == ' ' || s[i] == '\t') {
			continue
		}
		sb.WriteByte(s[i])
	}
	return sb.String()
}

func (p *Prog) parseLin(s string) (Lin, error) {
	s = stripSpaces(s)
	out := Lin{Coef: map[string]int64{}}
	type part struct {
		sign int64
		text string
	}
	var parts []part
	depth, inStr, start, sign := 0, false, 0, int64(1)
	for i := 0; i < len(s); i++ {
		ch := s[i]
		if ch == '"' {
			inStr = !inStr
		}
		if inStr {
			continue
		}
		switch ch {
		case '(', '[':
			depth++
		case ')', ']':
			depth--
		case '+', '-':
			if depth != 0 {
				continue
			}
			if i == start { // unary sign
				if ch == '-' {
					sign = -sign
				}
				start = i + 1
				continue
			}
			if s[i-1] == '<' || s[i-1] == '*' || s[i-1] == '&' {
				continue // "<-x" receive term, "2*-x"
			}
			parts = append(parts, part{sign, s[start:i]})
			sign = 1
			if ch == '-' {
				sign = -1
			}
			start = i + 1
		}
	}
	parts = append(parts, part{sign, s[start:]})
	for _, pt := range parts {
		text := pt.text
		if text == "" {
			return out, fmt.Errorf("empty operand in %q", s)
		}
		coef := int64(1)
		if i := strings.Index(text, "*"); i > 0 {
			if n, err := strconv.ParseInt(text[:i], 0, 64); err == nil {
				coef = n
				text = text[i+1:]
			}
		}
		if n, err := strconv.ParseInt(text, 0, 64); err == nil {
			out.K += pt.sign * coef * n
		} else if strings.HasPrefix(text, "@") {
			c, ok := p.Object(text[1:]).(*types.Const)
			if !ok {
				return out, fmt.Errorf("constant %s not found", text)
			}
			n, ok := constant.Int64Val(constant.ToInt(c.Val()))
			if !ok {
				return out, fmt.Errorf("constant %s is not an int64", text)
			}
			out.K += pt.sign * coef * n
		} else if text == "nil" {
			// the constant 0
		} else {
			out.Coef[text] += pt.sign * coef
		}
	}
	for t, c := range out.Coef {
		if c == 0 {
			delete(out.Coef, t)
		}
	}
	return out, nil
}

// SameAtom reports exact canonical equality (modulo the non-negative equivalences).
func SameAtom(a, b Atom) bool {
	a, b = a.norm(), b.norm()
	if a.Kind == b.Kind && a.L.String() == b.L.String() {
		return true
	}
	if a.NonNeg || b.NonNeg {
		return nonNegForm(a) != "" && nonNegForm(a) == nonNegForm(b)
	}
	return false
}

// nonNegForm maps "t != 0" / "t >= 1" to "pos:t" and "t == 0" / "t <= 0" to "zero:t".
func nonNegForm(a Atom) string {
	if len(a.L.Coef) != 1 {
		return ""
	}
	var t string
	var c int64
	for t, c = range a.L.Coef {
	}
	switch {
	case a.Kind == NE && a.L.K == 0:
		return "pos:" + t
	case a.Kind == LE && c == -1 && a.L.K == 1:
		return "pos:" + t
	case a.Kind == EQ && a.L.K == 0:
		return "zero:" + t
	case a.Kind == LE && c == 1 && a.L.K == 0:
		return "zero:" + t
	}
	return ""
}

// Implies reports whether code atom a implies spec atom b (same term vector).
func Implies(a, b Atom) bool {
	if SameAtom(a, b) {
		return true
	}
	sameVec := func(x, y Lin) bool {
		if len(x.Coef) != len(y.Coef) {
			return false
		}
		for t, c := range x.Coef {
			if y.Coef[t] != c {
				return false
			}
		}
		return true
	}
	switch {
	case a.Kind == LE && b.Kind == LE:
		return sameVec(a.L, b.L) && a.L.K >= b.L.K
	case a.Kind == EQ && b.Kind == LE:
		// Σ + ka == 0, want Σ + kb <= 0, i.e. kb <= ka
		if sameVec(a.L, b.L) && b.L.K <= a.L.K {
			return true
		}
		n := a.L.scale(-1)
		return sameVec(n, b.L) && b.L.K <= n.K
	case a.Kind == EQ && b.Kind == NE:
		if sameVec(a.L, b.L) {
			return a.L.K != b.L.K
		}
		n := a.L.scale(-1)
		return sameVec(n, b.L) && n.K != b.L.K
	case a.Kind == LE && b.Kind == NE:
		// Σ <= -ka ; want Σ' != -kb
		if sameVec(a.L, b.L) {
			return b.L.K < a.L.K
		}
		n := b.L.scale(-1)
		if sameVec(a.L, n) {
			return n.K < a.L.K
		}
	}
	return false
}

// Sub returns l - o; Plus returns l + o; AddK returns l + k (exported for property files).
func (l Lin) Sub(o Lin) Lin    { return l.add(o, -1) }
func (l Lin) Plus(o Lin) Lin   { return l.add(o, 1) }
func (l Lin) AddK(k int64) Lin { out := l.scale(1); out.K += k; return out }
func (l Lin) IsConst() bool    { return l.isConst() }

// LEZero is the atom l <= 0.
func LEZero(l Lin) Atom { return Atom{Kind: LE, L: l} }

// SameTerms reports whether two atoms constrain the same linear combination (up to sign and constant).
func SameTerms(a, b Atom) bool {
	if len(a.L.Coef) == 0 || len(a.L.Coef) != len(b.L.Coef) {
		return false
	}
	pos, neg := true, true
	for t, c := range a.L.Coef {
		if b.L.Coef[t] != c {
			pos = false
		}
		if b.L.Coef[t] != -c {
			neg = false
		}
	}
	return pos || neg
}

// globalOfTerm remembers which package-level variable a rendered load stands for
// (used to know that an error sentinel such as io.EOF is not nil).
var globalOfTerm = map[string]*ssa.Global{}
