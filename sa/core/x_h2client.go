package core

// Helpers added for the HTTP/2 client/flow-control properties (C09, C10, C17,
// C18). Everything here is generic: path rules with excused edges, min-clamp
// upper bounds, reaching definitions of call results, φ-expanded linear forms.

import (
	"fmt"
	"go/token"
	"go/types"
	"sort"
	"strings"

	"golang.org/x/tools/go/ssa"
)

// ---------------------------------------------------------------------------
// Selectors

// HcNormalReturns selects the return instructions that can complete the function
// normally: not the synthetic recover block, and not a return whose error
// result is a freshly boxed concrete value (`return ConnectionError(x)`),
// which is certainly a non-nil error.
func HcNormalReturns() Sel {
	return Sel{"normal return", func(p *Prog, fn *ssa.Function) []ssa.Instruction {
		res := fn.Signature.Results()
		ei := -1
		for i := 0; i < res.Len(); i++ {
			if isErrorType(res.At(i).Type()) {
				ei = i
			}
		}
		var out []ssa.Instruction
		eachInstr(fn, func(in ssa.Instruction) {
			r, ok := in.(*ssa.Return)
			if !ok || in.Block() == fn.Recover {
				return
			}
			if ei >= 0 && ei < len(r.Results) {
				if _, boxed := r.Results[ei].(*ssa.MakeInterface); boxed {
					return
				}
			}
			out = append(out, in)
		})
		return out
	}}
}

// HcCFGEdge is a branch edge from the block ending in an If to one successor.
type HcCFGEdge struct{ From, To *ssa.BasicBlock }

// HcEdgeSel selects branch edges of a function ("the edge on which cond holds").
type HcEdgeSel struct {
	Name string
	F    func(p *Prog, fn *ssa.Function) []HcCFGEdge
}

// HcNoEdges selects nothing.
func HcNoEdges() HcEdgeSel {
	return HcEdgeSel{"nothing", func(*Prog, *ssa.Function) []HcCFGEdge { return nil }}
}

// HcUnionEdges joins edge selectors.
func HcUnionEdges(sels ...HcEdgeSel) HcEdgeSel {
	var names []string
	for _, s := range sels {
		names = append(names, s.Name)
	}
	return HcEdgeSel{strings.Join(names, " | "), func(p *Prog, fn *ssa.Function) []HcCFGEdge {
		var out []HcCFGEdge
		for _, s := range sels {
			out = append(out, s.F(p, fn)...)
		}
		return out
	}}
}

// HcEdgeWhere selects the branch edges on which the atom holds.
func HcEdgeWhere(spec string) HcEdgeSel {
	return HcEdgeSel{"branch " + stripSpaces(spec), func(p *Prog, fn *ssa.Function) []HcCFGEdge {
		a, err := p.ParseAtom(spec)
		if err != nil {
			return nil
		}
		var out []HcCFGEdge
		eachInstr(fn, func(in ssa.Instruction) {
			ifi, ok := in.(*ssa.If)
			if !ok {
				return
			}
			ca := CondAtom(ifi.Cond)
			b := ifi.Block()
			if SameAtom(ca, a) {
				out = append(out, HcCFGEdge{b, b.Succs[0]})
			} else if SameAtom(ca.Negate(), a) {
				out = append(out, HcCFGEdge{b, b.Succs[1]})
			}
		})
		return out
	}}
}

// hcReachCut is canReach that additionally never follows a cut edge.
func hcReachCut(start ipos, targets, barriers map[ssa.Instruction]bool, cut map[HcCFGEdge]bool) (ssa.Instruction, bool) {
	var hit ssa.Instruction
	seen := map[*ssa.BasicBlock]bool{}
	var run func(b *ssa.BasicBlock, i int)
	run = func(b *ssa.BasicBlock, i int) {
		for ; i < len(b.Instrs); i++ {
			in := b.Instrs[i]
			if hit != nil || barriers[in] {
				return
			}
			if targets[in] {
				hit = in
				return
			}
		}
		for k, s := range b.Succs {
			// a two-way branch to the same block twice is not an edge we can cut
			if cut[HcCFGEdge{b, s}] && !(len(b.Succs) == 2 && b.Succs[0] == b.Succs[1]) {
				_ = k
				continue
			}
			if !seen[s] {
				seen[s] = true
				run(s, 0)
			}
		}
	}
	run(start.b, start.i+1)
	return hit, hit != nil
}

func hcStripNot(v ssa.Value) (ssa.Value, bool) {
	neg := false
	for {
		u, ok := v.(*ssa.UnOp)
		if !ok || u.Op != token.NOT {
			return v, neg
		}
		v = u.X
		neg = !neg
	}
}

// HcFailEdgeOf selects the first instruction of every branch successor on which
// the boolean result of a selected call is false.
func HcFailEdgeOf(calls Sel) HcEdgeSel {
	return hcBoolEdgeOf(calls, false)
}

// HcSuccessEdgeOf selects the first instruction of every branch successor on
// which the boolean result of a selected call is true.
func HcSuccessEdgeOf(calls Sel) HcEdgeSel {
	return hcBoolEdgeOf(calls, true)
}

func hcBoolEdgeOf(calls Sel, want bool) HcEdgeSel {
	name := "false-edge of "
	if want {
		name = "true-edge of "
	}
	return HcEdgeSel{name + calls.Name, func(p *Prog, fn *ssa.Function) []HcCFGEdge {
		set := map[ssa.Value]bool{}
		for _, in := range calls.F(p, fn) {
			if v, ok := in.(ssa.Value); ok {
				set[v] = true
			}
		}
		var out []HcCFGEdge
		eachInstr(fn, func(in ssa.Instruction) {
			ifi, ok := in.(*ssa.If)
			if !ok {
				return
			}
			v, neg := hcStripNot(ifi.Cond)
			if !set[v] {
				return
			}
			// Succs[0] is taken when Cond is true
			idx := 0
			if neg == want {
				idx = 1
			}
			out = append(out, HcCFGEdge{ifi.Block(), ifi.Block().Succs[idx]})
		})
		return out
	}}
}

// hcUnwrapValue strips integer conversions and calls of the listed pure
// wrappers (by bare callee name) from v.
func hcUnwrapValue(v ssa.Value, wrappers ...string) ssa.Value {
	for i := 0; i < 8; i++ {
		switch x := v.(type) {
		case *ssa.Convert:
			v = x.X
			continue
		case *ssa.ChangeType:
			v = x.X
			continue
		case *ssa.Call:
			name := calleeShort(&x.Call)
			hit := false
			for _, w := range wrappers {
				if w == name && len(x.Call.Args) == 1 {
					hit = true
				}
			}
			if hit {
				v = x.Call.Args[0]
				continue
			}
		}
		break
	}
	return v
}

// HcZeroEdgeOf selects the first instruction of every branch successor on which
// a value satisfying pred is known to be == 0 or <= 0 (tests `v != 0`,
// `v == 0`, `v > 0`, `v <= 0`, `v >= 1`, `v < 1` in either operand order).
func HcZeroEdgeOf(desc string, pred func(ssa.Value) bool) HcEdgeSel {
	return HcEdgeSel{"zero-edge of " + desc, func(p *Prog, fn *ssa.Function) []HcCFGEdge {
		var out []HcCFGEdge
		eachInstr(fn, func(in ssa.Instruction) {
			ifi, ok := in.(*ssa.If)
			if !ok {
				return
			}
			cond, neg := hcStripNot(ifi.Cond)
			bo, ok := cond.(*ssa.BinOp)
			if !ok {
				return
			}
			var subj ssa.Value
			if hcIsZeroConst(bo.Y) || hcIsOneConst(bo.Y) {
				subj = bo.X
			} else if hcIsZeroConst(bo.X) || hcIsOneConst(bo.X) {
				subj = bo.Y
			} else {
				return
			}
			if !pred(hcUnwrapValue(subj)) {
				return
			}
			a := CondAtom(cond)
			t := Term(hcUnwrapValue(subj))
			// which polarity says subj <= 0 ?
			isZero := func(a Atom) bool {
				if a.Kind == EQ && len(a.L.Coef) == 1 && a.L.K == 0 && a.L.Coef[t] != 0 {
					return true
				}
				if a.Kind == LE && len(a.L.Coef) == 1 && a.L.Coef[t] == 1 && a.L.K >= 0 {
					return true // t + K <= 0, K >= 0
				}
				return false
			}
			idx := -1
			if isZero(a) {
				idx = 0
			} else if isZero(a.Negate()) {
				idx = 1
			}
			if idx < 0 {
				return
			}
			if neg {
				idx = 1 - idx
			}
			out = append(out, HcCFGEdge{ifi.Block(), ifi.Block().Succs[idx]})
		})
		return out
	}}
}

func hcIsZeroConst(v ssa.Value) bool {
	c, ok := v.(*ssa.Const)
	return ok && (c.Value == nil || c.Value.ExactString() == "0")
}

func hcIsOneConst(v ssa.Value) bool {
	c, ok := v.(*ssa.Const)
	return ok && c.Value != nil && c.Value.ExactString() == "1"
}

// HcNonNilEdgeOf selects the first instruction of every branch successor on
// which a value satisfying pred (typically an error result) is known to be
// non-nil: `v != nil` (true edge), `v == nil` (false edge), `v == X` with X a
// non-nil operand such as io.EOF (true edge).
func HcNonNilEdgeOf(desc string, pred func(ssa.Value) bool) HcEdgeSel {
	return HcEdgeSel{"non-nil-edge of " + desc, func(p *Prog, fn *ssa.Function) []HcCFGEdge {
		var out []HcCFGEdge
		eachInstr(fn, func(in ssa.Instruction) {
			ifi, ok := in.(*ssa.If)
			if !ok {
				return
			}
			cond, neg := hcStripNot(ifi.Cond)
			bo, ok := cond.(*ssa.BinOp)
			if !ok || bo.Op != token.EQL && bo.Op != token.NEQ {
				return
			}
			var other ssa.Value
			if pred(bo.X) {
				other = bo.Y
			} else if pred(bo.Y) {
				other = bo.X
			} else {
				return
			}
			idx := -1
			switch {
			case isNilConst(other) && bo.Op == token.NEQ:
				idx = 0
			case isNilConst(other) && bo.Op == token.EQL:
				idx = 1
			case !isNilConst(other) && bo.Op == token.EQL:
				// equal to a package-level error variable (assumed non-nil)
				if u, ok := other.(*ssa.UnOp); ok && u.Op == token.MUL {
					if _, g := u.X.(*ssa.Global); g {
						idx = 0
					}
				}
			}
			if idx < 0 {
				return
			}
			if neg {
				idx = 1 - idx
			}
			out = append(out, HcCFGEdge{ifi.Block(), ifi.Block().Succs[idx]})
		})
		return out
	}}
}

// ---------------------------------------------------------------------------
// Path rules

// HcPassThroughUnless: from every `from` site every path to a NORMAL return
// passes a `to` site, unless it leaves through an `excuse` site (typically an
// edge selector: the failure edge of a test, the zero edge of a count).
func (c *Ctx) HcPassThroughUnless(fnName string, from, to Sel, excuse HcEdgeSel) bool {
	rule := "pass-through"
	construct := fmt.Sprintf("%s: after [%s] always [%s] unless [%s]", fnName, from.Name, to.Name, excuse.Name)
	fn, ins := c.sites(rule, fnName, from)
	if ins == nil {
		return false
	}
	tos := to.F(c.P, fn)
	if len(tos) == 0 {
		c.Fail(rule, construct, fn.Pos(), "no ["+to.Name+"] site in this function")
		return false
	}
	barriers := instrSet(tos)
	cut := map[HcCFGEdge]bool{}
	for _, e := range excuse.F(c.P, fn) {
		cut[e] = true
	}
	rets := instrSet(HcNormalReturns().F(c.P, fn))
	for _, in := range ins {
		if barriers[in] {
			continue
		}
		if rets[in] {
			c.Fail(rule, construct, InstrPos(in), fmt.Sprintf("`%s` returns at once without [%s]", DescribeInstr(in), to.Name))
			return false
		}
		if r, reach := hcReachCut(posOf(in), rets, barriers, cut); reach {
			c.Fail(rule, construct, InstrPos(in), fmt.Sprintf("from `%s` the return at %s is reachable without [%s]", DescribeInstr(in), c.P.Pos(InstrPos(r)), to.Name))
			return false
		}
	}
	c.OK(rule, construct, fmt.Sprintf("%d start site(s), %d target site(s), %d excused edge(s)", len(ins), len(tos), len(cut)))
	return true
}

// HcNoPathWithout: from every `from` site, no `to` site is reachable without
// first passing a `via` site (e.g. after cond.Wait the window is re-read
// before it is used).
func (c *Ctx) HcNoPathWithout(fnName string, from, to, via Sel) bool {
	rule := "no-path-without"
	construct := fmt.Sprintf("%s: from [%s] to [%s] only via [%s]", fnName, from.Name, to.Name, via.Name)
	fn, ins := c.sites(rule, fnName, from)
	if ins == nil {
		return false
	}
	tos := to.F(c.P, fn)
	vias := via.F(c.P, fn)
	if len(tos) == 0 || len(vias) == 0 {
		c.Undecided(rule, construct, "no target or no via site in this function")
		return false
	}
	for _, in := range ins {
		if t, reach := canReach(posOf(in), false, instrSet(tos), instrSet(vias)); reach {
			c.Fail(rule, construct, InstrPos(t), fmt.Sprintf("`%s` is reachable from `%s` (%s) without passing [%s]", DescribeInstr(t), DescribeInstr(in), c.P.Pos(InstrPos(in)), via.Name))
			return false
		}
	}
	c.OK(rule, construct, fmt.Sprintf("%d start site(s), %d target(s), %d via site(s)", len(ins), len(tos), len(vias)))
	return true
}

// HcFirstReached returns the `to` sites reachable from `from` without passing
// another `to` site.
func HcFirstReached(from ssa.Instruction, tos []ssa.Instruction) []ssa.Instruction {
	set := instrSet(tos)
	var out []ssa.Instruction
	seen := map[ssa.Instruction]bool{}
	walkFrom(posOf(from), false, func(in ssa.Instruction) bool {
		if set[in] {
			if !seen[in] {
				seen[in] = true
				out = append(out, in)
			}
			return false
		}
		return true
	})
	return out
}

// HcDominated reports whether instruction a executes before b on every path to b.
func HcDominated(a, b ssa.Instruction) bool {
	pa, pb := posOf(a), posOf(b)
	if pa.b == pb.b {
		return pa.i < pb.i
	}
	return pa.b.Dominates(pb.b)
}

// ---------------------------------------------------------------------------
// Reaching definitions of a call result kept in a local slot.

// HcIsResultOf reports whether v is exactly the idx-th result of call: the
// Extract itself (or the call when it has a single result), or a load from a
// local slot for which the store of that result is the only definition that
// can reach the load.
func HcIsResultOf(v ssa.Value, call *ssa.Call, idx int) bool {
	v = hcUnwrapValue(v)
	isRes := func(x ssa.Value) bool {
		x = hcUnwrapValue(x)
		if e, ok := x.(*ssa.Extract); ok {
			return e.Tuple == ssa.Value(call) && e.Index == idx
		}
		return x == ssa.Value(call) && idx == 0 && call.Common().Signature().Results().Len() == 1
	}
	if isRes(v) {
		return true
	}
	ld, ok := v.(*ssa.UnOp)
	if !ok || ld.Op != token.MUL {
		return false
	}
	a, ok := ld.X.(*ssa.Alloc)
	if !ok {
		return false
	}
	stores := map[ssa.Instruction]*ssa.Store{}
	if refs := a.Referrers(); refs != nil {
		for _, r := range *refs {
			switch x := r.(type) {
			case *ssa.Store:
				if x.Addr != ssa.Value(a) {
					return false // the slot's address is stored somewhere
				}
				stores[x] = x
			case *ssa.UnOp:
				if x.Op != token.MUL {
					return false
				}
			case *ssa.DebugRef:
			default:
				return false // address escapes
			}
		}
	}
	// walk backwards from the load collecting the reaching stores
	reaching := map[*ssa.Store]bool{}
	entry := false
	seen := map[*ssa.BasicBlock]bool{}
	var back func(b *ssa.BasicBlock, from int)
	back = func(b *ssa.BasicBlock, from int) {
		for i := from; i >= 0; i-- {
			if st, ok := stores[b.Instrs[i]]; ok {
				reaching[st] = true
				return
			}
		}
		if len(b.Preds) == 0 {
			entry = true
			return
		}
		for _, p := range b.Preds {
			if !seen[p] {
				seen[p] = true
				back(p, len(p.Instrs)-1)
			}
		}
	}
	pl := posOf(ld)
	back(pl.b, pl.i-1)
	if entry || len(reaching) != 1 {
		return false
	}
	for st := range reaching {
		return isRes(st.Val)
	}
	return false
}

// ---------------------------------------------------------------------------
// φ-expanded linear forms: every value an integer expression can take,
// expanding if/else merges (acyclic φ) and +/- over them.

// HcLinSet returns the canonical strings of the linear forms v can evaluate to.
func HcLinSet(v ssa.Value) []string {
	r := &renderer{phis: map[*ssa.Phi]bool{}}
	ls := r.hcLinSet(v, 0, map[*ssa.Phi]bool{})
	set := map[string]bool{}
	for _, l := range ls {
		set[l.String()] = true
	}
	var out []string
	for s := range set {
		out = append(out, s)
	}
	sort.Strings(out)
	return out
}

func (r *renderer) hcLinSet(v ssa.Value, d int, on map[*ssa.Phi]bool) []Lin {
	if d < 10 {
		switch x := v.(type) {
		case *ssa.Phi:
			if on[x] {
				break
			}
			on[x] = true
			var out []Lin
			for _, e := range x.Edges {
				out = append(out, r.hcLinSet(e, d+1, on)...)
			}
			delete(on, x)
			if len(out) <= 64 {
				return out
			}
		case *ssa.Convert:
			if isIntegral(x.Type()) && isIntegral(x.X.Type()) {
				return r.hcLinSet(x.X, d+1, on)
			}
		case *ssa.ChangeType:
			return r.hcLinSet(x.X, d+1, on)
		case *ssa.BinOp:
			if isIntegral(x.Type()) && (x.Op == token.ADD || x.Op == token.SUB) {
				sign := int64(1)
				if x.Op == token.SUB {
					sign = -1
				}
				as, bs := r.hcLinSet(x.X, d+1, on), r.hcLinSet(x.Y, d+1, on)
				if len(as)*len(bs) <= 64 {
					var out []Lin
					for _, a := range as {
						for _, b := range bs {
							out = append(out, a.add(b, sign))
						}
					}
					return out
				}
			}
		}
	}
	return []Lin{r.lin(v, 0)}
}

// HcLinOf is the canonical string of the linear form of v.
func HcLinOf(v ssa.Value) string { return Linearize(v).String() }

// HcLinSpec parses a linear expression written in spec syntax.
func (p *Prog) HcLinSpec(s string) (string, error) {
	l, err := p.parseLin(s)
	if err != nil {
		return "", err
	}
	return l.String(), nil
}

// ---------------------------------------------------------------------------
// Min-clamp chains: structural upper bounds of a value.

// hcEdgeFacts returns the atoms that hold when control flows from pred to b.
func hcEdgeFacts(pred, b *ssa.BasicBlock) []Atom {
	var out []Atom
	for _, f := range FactsAt(pred) {
		out = append(out, f.Atom)
	}
	if len(pred.Instrs) > 0 {
		if ifi, ok := pred.Instrs[len(pred.Instrs)-1].(*ssa.If); ok && pred.Succs[0] != pred.Succs[1] {
			a := CondAtom(ifi.Cond)
			if pred.Succs[0] == b {
				out = append(out, a)
			} else if pred.Succs[1] == b {
				out = append(out, a.Negate())
			}
		}
	}
	return out
}

// HcUpperBounds returns the terms T for which v <= T follows structurally from
// the if/else merges that compute v: v itself, and for a φ every T that bounds
// each incoming value — because that value is bounded by T already, or because
// the branch facts of the incoming edge say value <= T (or value <= X with X
// bounded by T). Edges whose facts contradict an atom of assume are ignored.
func HcUpperBounds(v ssa.Value, assume ...Atom) map[string]bool {
	known := map[string]map[string]bool{}
	var ub func(v ssa.Value, d int) map[string]bool
	ub = func(v ssa.Value, d int) map[string]bool {
		v = hcUnwrapValue(v)
		t := Term(v)
		if k, ok := known[t]; ok {
			return k
		}
		out := map[string]bool{t: true}
		known[t] = out
		// min(a, b, ...) is bounded by every bound of every argument
		if call, isCall := v.(*ssa.Call); isCall && d <= 6 {
			if bi, isB := call.Call.Value.(*ssa.Builtin); isB && bi.Name() == "min" {
				for _, a := range call.Call.Args {
					for k := range ub(a, d+1) {
						out[k] = true
					}
				}
				return out
			}
		}
		ph, ok := v.(*ssa.Phi)
		if !ok || d > 6 {
			return out
		}
		type edge struct {
			val   ssa.Value
			facts []Atom
			b     map[string]bool
		}
		var edges []edge
		for i, e := range ph.Edges {
			fs := hcEdgeFacts(ph.Block().Preds[i], ph.Block())
			skip := false
			for _, a := range assume {
				for _, f := range fs {
					if SameAtom(f, a.Negate()) {
						skip = true
					}
				}
			}
			if skip {
				continue
			}
			edges = append(edges, edge{hcUnwrapValue(e), fs, ub(e, d+1)})
		}
		cands := map[string]bool{}
		for _, e := range edges {
			for k := range e.b {
				cands[k] = true
			}
		}
		leq := func(e edge, T string) bool {
			if e.b[T] {
				return true
			}
			le := Linearize(e.val)
			for _, f := range e.facts {
				if f.Kind != LE {
					continue
				}
				// f: le - X + K <= 0 with K >= 0  =>  val <= X
				rest := f.L.add(le, -1)
				if rest.K < 0 || len(rest.Coef) != 1 {
					continue
				}
				for x, cf := range rest.Coef {
					if cf != -1 {
						continue
					}
					if x == T || known[x][T] {
						return true
					}
				}
			}
			return false
		}
		for T := range cands {
			all := len(edges) > 0
			for _, e := range edges {
				if !leq(e, T) {
					all = false
					break
				}
			}
			if all {
				out[T] = true
			}
		}
		return out
	}
	return ub(v, 0)
}

// HcClampedBy: the value (described by desc, produced by get from the function)
// has each of the listed terms as a structural upper bound.
func (c *Ctx) HcClampedBy(fnName, desc string, get func(fn *ssa.Function) []ssa.Value, assume []string, bounds ...string) bool {
	rule := "min-clamp"
	fn := c.MustFn(fnName)
	if fn == nil {
		return false
	}
	vals := get(fn)
	ok := true
	var as []Atom
	for _, s := range assume {
		a, err := c.P.ParseAtom(s)
		if err != nil {
			c.Undecided(rule, fnName+": "+desc, "bad assumption "+s)
			return false
		}
		as = append(as, a)
	}
	for _, b := range bounds {
		construct := fmt.Sprintf("%s: %s <= %s", fnName, desc, b)
		if len(assume) > 0 {
			construct += " when " + strings.Join(assume, " && ")
		}
		if len(vals) == 0 {
			c.Undecided(rule, construct, "value not found")
			ok = false
			continue
		}
		bad := ""
		for _, v := range vals {
			ubs := HcUpperBounds(v, as...)
			if !ubs[stripSpaces(b)] {
				var ks []string
				for k := range ubs {
					ks = append(ks, k)
				}
				sort.Strings(ks)
				bad = fmt.Sprintf("`%s` is not bounded by %s through guarded merges; bounds established: {%s}", Term(v), b, strings.Join(ks, " ; "))
			}
		}
		if bad != "" {
			ok = false
			c.Fail(rule, construct, fn.Pos(), bad)
		} else {
			c.OK(rule, construct, fmt.Sprintf("%d value(s)", len(vals)))
		}
	}
	return ok
}

// ---------------------------------------------------------------------------
// Small accessors used by rule files.

// HcRecvField names the struct field a method receiver argument points at:
// for `cc.inflow.add(n)` it returns "http2.ClientConn.inflow".
func HcRecvField(v ssa.Value) string {
	fa, ok := v.(*ssa.FieldAddr)
	if !ok {
		return ""
	}
	t := fa.X.Type()
	if p, ok := t.Underlying().(*types.Pointer); ok {
		t = p.Elem()
	}
	return Short(types.TypeString(t, nil)) + "." + fieldName(fa.X.Type(), fa.Field)
}

// HcCallArg returns argument i (receiver counts) of a call instruction, or nil.
func HcCallArg(in ssa.Instruction, i int) ssa.Value {
	ci, ok := in.(ssa.CallInstruction)
	if !ok || i >= len(BaselineArgs(ci.Common())) {
		return nil
	}
	return BaselineArgs(ci.Common())[i]
}

// HcEachInstr visits every instruction of fn.
func HcEachInstr(fn *ssa.Function, f func(ssa.Instruction)) { eachInstr(fn, f) }

// HcUnwrap strips integer conversions and the listed single-argument wrappers.
func HcUnwrap(v ssa.Value, wrappers ...string) ssa.Value { return hcUnwrapValue(v, wrappers...) }

// HcRecvs selects channel receive operations whose channel renders as term.
func HcRecvs(term string) Sel {
	return Sel{"receive " + term, func(p *Prog, fn *ssa.Function) []ssa.Instruction {
		var out []ssa.Instruction
		eachInstr(fn, func(in ssa.Instruction) {
			if u, ok := in.(*ssa.UnOp); ok && u.Op == token.ARROW && Term(u.X) == term {
				out = append(out, in)
			}
		})
		return out
	}}
}

// HcMapUpdates selects map assignments m[k] = v whose map has the given type
// string (short form, e.g. "map[uint32]*http2.clientStream").
func HcMapUpdates(mapType string) Sel {
	return Sel{"map update " + mapType, func(p *Prog, fn *ssa.Function) []ssa.Instruction {
		var out []ssa.Instruction
		eachInstr(fn, func(in ssa.Instruction) {
			if m, ok := in.(*ssa.MapUpdate); ok && Short(types.TypeString(m.Map.Type(), nil)) == mapType {
				out = append(out, in)
			}
		})
		return out
	}}
}

// HcFactsHold reports whether every spec atom is among the branch facts that
// dominate in (exact canonical match).
func (c *Ctx) HcFactsHold(in ssa.Instruction, specs ...string) bool {
	for _, s := range specs {
		a, err := c.P.ParseAtom(s)
		if err != nil || !holds(FactsAtInstr(in), a, true) {
			return false
		}
	}
	return true
}

// HcFactIs reports whether the branch facts dominating in include atom a.
func HcFactIs(in ssa.Instruction, a Atom) bool { return holds(FactsAtInstr(in), a, true) }

// HcTermAtom builds the atom `term == 0` / `term != 0` (nil is 0).
func HcTermAtom(term string, eq bool) Atom {
	k := NE
	if eq {
		k = EQ
	}
	return Atom{Kind: k, L: Lin{Coef: map[string]int64{term: 1}}}
}

// HcSends selects channel sends (plain or as a select case) on the channel
// rendering as term.
func HcSends(term string) Sel {
	return Sel{"send on " + term, func(p *Prog, fn *ssa.Function) []ssa.Instruction {
		var out []ssa.Instruction
		eachInstr(fn, func(in ssa.Instruction) {
			switch x := in.(type) {
			case *ssa.Send:
				if Term(x.Chan) == term {
					out = append(out, in)
				}
			case *ssa.Select:
				for _, st := range x.States {
					if st.Dir == types.SendOnly && Term(st.Chan) == term {
						out = append(out, in)
						break
					}
				}
			}
		})
		return out
	}}
}

// HcEdgeFacts returns the atoms that hold when control flows from pred to b.
func HcEdgeFacts(pred, b *ssa.BasicBlock) []Atom { return hcEdgeFacts(pred, b) }
