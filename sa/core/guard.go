package core

import (
	"fmt"
	"go/token"
	"go/types"
	"sort"
	"strings"

	"golang.org/x/tools/go/ssa"
)

// ---------------------------------------------------------------------------
// Sites: semantic selectors of instructions inside one function.

// Sel selects instructions of fn.
type Sel struct {
	Name string
	F    func(p *Prog, fn *ssa.Function) []ssa.Instruction
}

func eachInstr(fn *ssa.Function, f func(ssa.Instruction)) {
	for _, b := range fn.Blocks {
		for _, in := range b.Instrs {
			f(in)
		}
	}
}

// CalleeName is the short name of the static callee of a call ("" if none);
// interface calls give ".Method"; builtins "builtin:len".
func CalleeName(c *ssa.CallCommon) string {
	if c.IsInvoke() {
		return "." + c.Method.Name()
	}
	switch f := c.Value.(type) {
	case *ssa.Function:
		return FnName(f)
	case *ssa.Builtin:
		return "builtin:" + f.Name()
	case *ssa.MakeClosure:
		if fn, ok := f.Fn.(*ssa.Function); ok {
			return FnName(fn)
		}
	}
	return ""
}

func matchCallee(c *ssa.CallCommon, names []string) bool {
	n := CalleeName(c)
	if n == "" {
		// call through a func-typed value: match "fieldcall:<field>" for x.f(...)
		if u, ok := c.Value.(*ssa.UnOp); ok && u.Op == token.MUL {
			if fa, ok := u.X.(*ssa.FieldAddr); ok {
				n = "fieldcall:" + fieldName(fa.X.Type(), fa.Field)
			}
		}
		if f, ok := c.Value.(*ssa.Field); ok {
			n = "fieldcall:" + fieldName(f.X.Type(), f.Field)
		}
	}
	for _, m := range names {
		if n == m {
			return true
		}
	}
	return false
}

// Calls selects ordinary call instructions (not go/defer) to any of the named callees.
// Names: "http2.parseDataFrame", "(*http2.pipe).Write", ".Write" (interface
// method), "builtin:append", "fieldcall:emit" (call of a func-typed field).
func Calls(names ...string) Sel {
	return Sel{"call " + strings.Join(names, "|"), func(p *Prog, fn *ssa.Function) []ssa.Instruction {
		var out []ssa.Instruction
		eachInstr(fn, func(in ssa.Instruction) {
			if c, ok := in.(*ssa.Call); ok && matchCallee(&c.Call, names) {
				out = append(out, in)
			}
		})
		return out
	}}
}

// AnyCalls selects call, go and defer instructions.
func AnyCalls(names ...string) Sel {
	return Sel{"call/go/defer " + strings.Join(names, "|"), func(p *Prog, fn *ssa.Function) []ssa.Instruction {
		var out []ssa.Instruction
		eachInstr(fn, func(in ssa.Instruction) {
			if c, ok := in.(ssa.CallInstruction); ok && matchCallee(c.Common(), names) {
				out = append(out, in)
			}
		})
		return out
	}}
}

// Gos selects go statements starting the named function.
func Gos(names ...string) Sel {
	return Sel{"go " + strings.Join(names, "|"), func(p *Prog, fn *ssa.Function) []ssa.Instruction {
		var out []ssa.Instruction
		eachInstr(fn, func(in ssa.Instruction) {
			if c, ok := in.(*ssa.Go); ok && matchCallee(&c.Call, names) {
				out = append(out, in)
			}
		})
		return out
	}}
}

// Defers selects defer statements.
func Defers(names ...string) Sel {
	return Sel{"defer " + strings.Join(names, "|"), func(p *Prog, fn *ssa.Function) []ssa.Instruction {
		var out []ssa.Instruction
		eachInstr(fn, func(in ssa.Instruction) {
			if c, ok := in.(*ssa.Defer); ok && matchCallee(&c.Call, names) {
				out = append(out, in)
			}
		})
		return out
	}}
}

// fieldOfAddr returns the field var addressed by v (through FieldAddr).
func fieldOfAddr(v ssa.Value) *types.Var {
	fa, ok := v.(*ssa.FieldAddr)
	if !ok {
		return nil
	}
	t := fa.X.Type()
	if p, ok := t.Underlying().(*types.Pointer); ok {
		t = p.Elem()
	}
	st, ok := t.Underlying().(*types.Struct)
	if !ok || fa.Field >= st.NumFields() {
		return nil
	}
	return st.Field(fa.Field)
}

// Stores selects stores to the named field ("http2.stream.state").
func Stores(field string) Sel {
	return Sel{"store " + field, func(p *Prog, fn *ssa.Function) []ssa.Instruction {
		fv := p.Field(field)
		var out []ssa.Instruction
		if fv == nil {
			return nil
		}
		eachInstr(fn, func(in ssa.Instruction) {
			if s, ok := in.(*ssa.Store); ok && fieldOfAddr(s.Addr) == fv {
				out = append(out, in)
			}
		})
		return out
	}}
}

// Loads selects loads of the named field.
func Loads(field string) Sel {
	return Sel{"load " + field, func(p *Prog, fn *ssa.Function) []ssa.Instruction {
		fv := p.Field(field)
		var out []ssa.Instruction
		if fv == nil {
			return nil
		}
		eachInstr(fn, func(in ssa.Instruction) {
			switch x := in.(type) {
			case *ssa.UnOp:
				if x.Op == token.MUL && fieldOfAddr(x.X) == fv {
					out = append(out, in)
				}
			}
		})
		return out
	}}
}

func isErrorType(t types.Type) bool {
	return types.Identical(t, types.Universe.Lookup("error").Type())
}

// resultValues resolves the i-th result of a return through phis.
func returnLeaf(v ssa.Value, seen map[ssa.Value]bool, f func(ssa.Value)) {
	if seen[v] {
		return
	}
	seen[v] = true
	if ph, ok := v.(*ssa.Phi); ok {
		for _, e := range ph.Edges {
			returnLeaf(e, seen, f)
		}
		return
	}
	f(v)
}

// RetResult resolves the i-th result of a return instruction. In functions
// with a defer go/ssa spills results into allocs (`*r = v; ...; return *r`);
// the value last stored into the alloc on the way to the return is found by
// walking back through the block and its chain of single predecessors.
func RetResult(r *ssa.Return, i int) ssa.Value {
	if i >= len(r.Results) {
		return nil
	}
	v := r.Results[i]
	u, ok := v.(*ssa.UnOp)
	if !ok || u.Op != token.MUL {
		return v
	}
	al, ok := u.X.(*ssa.Alloc)
	if !ok {
		return v
	}
	b := r.Block()
	idx := len(b.Instrs)
	for hops := 0; hops < 16 && b != nil; hops++ {
		for k := idx - 1; k >= 0; k-- {
			if st, ok := b.Instrs[k].(*ssa.Store); ok && st.Addr == al {
				return st.Val
			}
		}
		if len(b.Preds) != 1 {
			break
		}
		b = b.Preds[0]
		idx = len(b.Instrs)
	}
	return v
}

// RetOK selects return instructions whose error result is the constant nil
// (for functions without an error result: every return).
func RetOK() Sel {
	return Sel{"return <nil error>", func(p *Prog, fn *ssa.Function) []ssa.Instruction {
		res := fn.Signature.Results()
		ei := -1
		for i := 0; i < res.Len(); i++ {
			if isErrorType(res.At(i).Type()) {
				ei = i
			}
		}
		var out []ssa.Instruction
		eachInstr(fn, func(in ssa.Instruction) {
			r, ok := in.(*ssa.Return)
			if !ok {
				return
			}
			if ei < 0 {
				out = append(out, in)
				return
			}
			if c, ok := RetResult(r, ei).(*ssa.Const); ok && c.Value == nil {
				out = append(out, in)
			}
		})
		return out
	}}
}

// RetConst selects returns whose i-th result renders as the given constant
// ("true", "false", "nil", "0", ...).
func RetConst(i int, val string) Sel {
	return Sel{fmt.Sprintf("return #%d=%s", i, val), func(p *Prog, fn *ssa.Function) []ssa.Instruction {
		var out []ssa.Instruction
		eachInstr(fn, func(in ssa.Instruction) {
			r, ok := in.(*ssa.Return)
			if !ok || i >= len(r.Results) {
				return
			}
			if c, ok := RetResult(r, i).(*ssa.Const); ok && constString(c) == val {
				out = append(out, in)
			}
		})
		return out
	}}
}

// Returns selects all return instructions.
func Returns() Sel {
	return Sel{"return", func(p *Prog, fn *ssa.Function) []ssa.Instruction {
		var out []ssa.Instruction
		eachInstr(fn, func(in ssa.Instruction) {
			if _, ok := in.(*ssa.Return); ok {
				out = append(out, in)
			}
		})
		return out
	}}
}

// RetTerm selects returns whose i-th result renders as term.
func RetTerm(i int, term string) Sel {
	return Sel{fmt.Sprintf("return #%d=%s", i, term), func(p *Prog, fn *ssa.Function) []ssa.Instruction {
		var out []ssa.Instruction
		eachInstr(fn, func(in ssa.Instruction) {
			r, ok := in.(*ssa.Return)
			if !ok || i >= len(r.Results) {
				return
			}
			if Term(RetResult(r, i)) == term {
				out = append(out, in)
			}
		})
		return out
	}}
}

// Indexing selects index and slice operations whose container renders as base.
func Indexing(base string) Sel {
	return Sel{"index " + base, func(p *Prog, fn *ssa.Function) []ssa.Instruction {
		var out []ssa.Instruction
		r := func() *renderer { return &renderer{phis: map[*ssa.Phi]bool{}} }
		eachInstr(fn, func(in ssa.Instruction) {
			var b string
			switch x := in.(type) {
			case *ssa.IndexAddr:
				b = r().base(x.X)
			case *ssa.Index:
				b = r().term(x.X)
			case *ssa.Slice:
				b = r().base(x.X)
			default:
				return
			}
			if b == base {
				out = append(out, in)
			}
		})
		return out
	}}
}

// Panics selects explicit panic instructions.
func Panics() Sel {
	return Sel{"panic", func(p *Prog, fn *ssa.Function) []ssa.Instruction {
		var out []ssa.Instruction
		eachInstr(fn, func(in ssa.Instruction) {
			if _, ok := in.(*ssa.Panic); ok {
				out = append(out, in)
			}
		})
		return out
	}}
}

// Where filters a selector by a predicate on the rendered instruction
// (for calls: "callee(arg,arg)"; for stores: "addr=value").
func (s Sel) Where(desc string, pred func(in ssa.Instruction) bool) Sel {
	return Sel{s.Name + " where " + desc, func(p *Prog, fn *ssa.Function) []ssa.Instruction {
		var out []ssa.Instruction
		for _, in := range s.F(p, fn) {
			if pred(in) {
				out = append(out, in)
			}
		}
		return out
	}}
}

// ArgIs filters calls whose i-th argument (receiver counts for methods)
// renders as term.
func (s Sel) ArgIs(i int, term string) Sel {
	return s.Where(fmt.Sprintf("arg%d=%s", i, term), func(in ssa.Instruction) bool {
		c, ok := in.(ssa.CallInstruction)
		if !ok {
			return false
		}
		args := BaselineArgs(c.Common())
		return i < len(args) && Term(args[i]) == term
	})
}

// StoredIs filters stores whose value renders as term.
func (s Sel) StoredIs(term string) Sel {
	return s.Where("value="+term, func(in ssa.Instruction) bool {
		st, ok := in.(*ssa.Store)
		return ok && Term(st.Val) == term
	})
}

// Union of selectors.
func Union(sels ...Sel) Sel {
	var names []string
	for _, s := range sels {
		names = append(names, s.Name)
	}
	return Sel{strings.Join(names, " | "), func(p *Prog, fn *ssa.Function) []ssa.Instruction {
		var out []ssa.Instruction
		for _, s := range sels {
			out = append(out, s.F(p, fn)...)
		}
		return out
	}}
}

// DescribeInstr renders an instruction for reports.
func DescribeInstr(in ssa.Instruction) string {
	switch x := in.(type) {
	case *ssa.Store:
		a := Term(x.Addr)
		if strings.HasPrefix(a, "&") {
			a = a[1:]
		} else {
			a = "*" + a
		}
		return a + " = " + Term(x.Val)
	case *ssa.MapUpdate:
		return Term(x.Map) + "[" + Term(x.Key) + "] = " + Term(x.Value)
	case *ssa.Return:
		var parts []string
		for _, r := range x.Results {
			parts = append(parts, Term(r))
		}
		return "return " + strings.Join(parts, ", ")
	case *ssa.Go:
		return "go " + callString(&x.Call)
	case *ssa.Defer:
		return "defer " + callString(&x.Call)
	case *ssa.Panic:
		return "panic(" + Term(x.X) + ")"
	case *ssa.If:
		return "if " + CondAtom(x.Cond).String()
	case ssa.Value:
		return Term(x)
	}
	return in.String()
}

func callString(c *ssa.CallCommon) string {
	r := &renderer{phis: map[*ssa.Phi]bool{}}
	name := calleeShort(c)
	if c.IsInvoke() {
		return name + "(" + r.args(append([]ssa.Value{c.Value}, c.Args...)) + ")"
	}
	if name == "" {
		return "call(" + r.term(c.Value) + ")(" + r.args(c.Args) + ")"
	}
	return name + "(" + r.args(BaselineArgs(c)) + ")"
}

// ---------------------------------------------------------------------------
// Facts: atoms established by dominating branch edges.

// Fact is an atom together with the If instruction that established it.
type Fact struct {
	Atom Atom
	If   *ssa.If
}

// edgeDominates reports whether the edge from→to dominates block b: every
// path from entry to b uses that edge. With to having the single
// predecessor from, this is to.Dominates(b).
func edgeDominates(from, to, b *ssa.BasicBlock) bool {
	if len(to.Preds) != 1 || to.Preds[0] != from {
		return false
	}
	return to.Dominates(b)
}

// FactsAt returns the atoms that hold whenever control reaches block b.
func FactsAt(b *ssa.BasicBlock) []Fact { return factsAt(b, 0) }

func factsAt(b *ssa.BasicBlock, depth int) []Fact {
	var out []Fact
	if depth > 6 {
		return nil
	}
	for d := b.Idom(); d != nil; d = d.Idom() {
		if len(d.Instrs) == 0 {
			continue
		}
		ifi, ok := d.Instrs[len(d.Instrs)-1].(*ssa.If)
		if !ok {
			continue
		}
		if edgeDominates(d, d.Succs[0], b) {
			out = append(out, condFacts(ifi, ifi.Cond, true, depth)...)
		} else if edgeDominates(d, d.Succs[1], b) {
			out = append(out, condFacts(ifi, ifi.Cond, false, depth)...)
		}
	}
	// inductive facts about the counters of rotated loops (for i := range n), whose
	// test sits on the entry edge and on the back edge instead of in a dominating header
	for h := b; h != nil; h = h.Idom() {
		out = append(out, loopCounterFacts(h, depth)...)
	}
	return out
}

// ownEdgeAtoms: the atoms established by the branch at the end of pred on its edge to succ.
func ownEdgeAtoms(pred, succ *ssa.BasicBlock, depth int) ([]Fact, *ssa.If) {
	if len(pred.Instrs) == 0 {
		return nil, nil
	}
	ifi, ok := pred.Instrs[len(pred.Instrs)-1].(*ssa.If)
	if !ok || len(pred.Succs) != 2 || pred.Succs[0] == pred.Succs[1] {
		return nil, nil
	}
	switch succ {
	case pred.Succs[0]:
		return condFacts(ifi, ifi.Cond, true, depth+1), ifi
	case pred.Succs[1]:
		return condFacts(ifi, ifi.Cond, false, depth+1), ifi
	}
	return nil, nil
}

// loopCounterFacts derives, for a block h with two predecessors and an integer phi
// c = φ(init, c+d), the atoms A(c) that hold whenever h is entered: the back edge
// establishes A for the next value (its branch tests c+d) and the entry edge
// establishes A(init). Only the branch at the end of each predecessor is used.
func loopCounterFacts(h *ssa.BasicBlock, depth int) []Fact {
	if len(h.Preds) != 2 || depth > 4 {
		return nil
	}
	var out []Fact
	for _, in := range h.Instrs {
		ph, ok := in.(*ssa.Phi)
		if !ok {
			break
		}
		if !isIntegral(ph.Type()) || len(ph.Edges) != 2 {
			continue
		}
		name := Term(ph)
		for k := 0; k < 2; k++ {
			step := Linearize(ph.Edges[k])
			if len(step.Coef) != 1 || step.Coef[name] != 1 || step.K == 0 {
				continue
			}
			d := step.K
			backFacts, backIf := ownEdgeAtoms(h.Preds[k], h, depth)
			initPred := h.Preds[1-k]
			initFacts, _ := ownEdgeAtoms(initPred, h, depth)
			if initPred != h && !h.Dominates(initPred) {
				initFacts = append(initFacts, factsAt(initPred, depth+1)...)
			}
			v0 := Linearize(ph.Edges[1-k])
			for _, f := range backFacts {
				c, mentions := f.Atom.L.Coef[name]
				if f.Atom.Kind != LE || !mentions || f.If != backIf {
					continue
				}
				// f: L(c) <= 0 holds for the value c+d that the phi takes next: A(x) = L(x-d)
				inv := f.Atom.L.scale(1)
				inv.K -= c * d
				// A(init)
				atInit := inv.add(Lin{Coef: map[string]int64{name: c}}, -1).add(v0.scale(c), 1)
				okInit := false
				if atInit.isConst() {
					okInit = atInit.K <= 0
				} else {
					okInit = holds(initFacts, Atom{Kind: LE, L: atInit}, false)
				}
				if okInit {
					out = append(out, Fact{Atom{Kind: LE, L: inv, NonNeg: f.Atom.NonNeg}, backIf})
				}
			}
		}
	}
	return out
}

// condFacts: the facts implied by `cond == val` at the branch ifi. A boolean
// phi produced by && / || (or by a tagless switch case with &&) is looked
// through: if only one incoming edge can make the phi equal val, control came
// along that edge, so the facts of that predecessor and of its value hold too.
func condFacts(ifi *ssa.If, cond ssa.Value, val bool, depth int) []Fact {
	for {
		if u, ok := cond.(*ssa.UnOp); ok && u.Op == token.NOT {
			cond, val = u.X, !val
			continue
		}
		break
	}
	if ph, ok := cond.(*ssa.Phi); ok && depth < 6 {
		dead := DeadBlocks(ph.Parent())
		cand := -1
		n := 0
		for i, e := range ph.Edges {
			if i < len(ph.Block().Preds) && dead[ph.Block().Preds[i]] {
				continue
			}
			if c, isConst := e.(*ssa.Const); isConst && c.Value != nil {
				if (constString(c) == "true") != val {
					continue // this edge cannot produce val
				}
			}
			cand = i
			n++
		}
		if n == 1 && cand < len(ph.Block().Preds) {
			pred := ph.Block().Preds[cand]
			var out []Fact
			// facts that hold at the predecessor (it dominates itself: include its own dominating edges)
			for _, f := range factsAt(pred, depth+1) {
				out = append(out, Fact{f.Atom, ifi})
			}
			// the edge pred -> phi block, if pred ends in a branch
			if len(pred.Instrs) > 0 {
				if pif, ok := pred.Instrs[len(pred.Instrs)-1].(*ssa.If); ok {
					if pred.Succs[0] == ph.Block() && pred.Succs[1] != ph.Block() {
						for _, f := range condFacts(pif, pif.Cond, true, depth+1) {
							out = append(out, Fact{f.Atom, ifi})
						}
					} else if pred.Succs[1] == ph.Block() && pred.Succs[0] != ph.Block() {
						for _, f := range condFacts(pif, pif.Cond, false, depth+1) {
							out = append(out, Fact{f.Atom, ifi})
						}
					}
				}
			}
			if _, isConst := ph.Edges[cand].(*ssa.Const); !isConst {
				out = append(out, condFacts(ifi, ph.Edges[cand], val, depth+1)...)
			}
			return out
		}
	}
	a := CondAtom(cond)
	if !val {
		a = a.Negate()
	}
	return []Fact{{a, ifi}}
}

// EdgeFacts returns the facts carried by the edge of ifi taken when its
// condition equals val (boolean phis of && / || looked through).
func EdgeFactsOf(ifi *ssa.If, val bool) []Fact { return condFacts(ifi, ifi.Cond, val, 0) }

// EdgeAlternatives returns, for the edge of ifi taken when its condition
// equals val, one fact list per way the condition can get that value: a
// boolean phi of || (or &&) contributes one alternative per incoming edge that
// can produce val. Every alternative is a conjunction; the edge carries their disjunction.
func EdgeAlternatives(ifi *ssa.If, val bool) [][]Fact {
	cond := ifi.Cond
	for {
		if u, ok := cond.(*ssa.UnOp); ok && u.Op == token.NOT {
			cond, val = u.X, !val
			continue
		}
		break
	}
	ph, ok := cond.(*ssa.Phi)
	if !ok {
		return [][]Fact{condFacts(ifi, cond, val, 0)}
	}
	var out [][]Fact
	dead := DeadBlocks(ph.Parent())
	for i, e := range ph.Edges {
		if i >= len(ph.Block().Preds) || dead[ph.Block().Preds[i]] {
			continue
		}
		if c, isConst := e.(*ssa.Const); isConst && c.Value != nil && (constString(c) == "true") != val {
			continue
		}
		pred := ph.Block().Preds[i]
		var alt []Fact
		alt = append(alt, factsAt(pred, 1)...)
		if len(pred.Instrs) > 0 {
			if pif, ok := pred.Instrs[len(pred.Instrs)-1].(*ssa.If); ok {
				if pred.Succs[0] == ph.Block() && pred.Succs[1] != ph.Block() {
					alt = append(alt, condFacts(pif, pif.Cond, true, 1)...)
				} else if pred.Succs[1] == ph.Block() && pred.Succs[0] != ph.Block() {
					alt = append(alt, condFacts(pif, pif.Cond, false, 1)...)
				}
			}
		}
		if _, isConst := e.(*ssa.Const); !isConst {
			alt = append(alt, condFacts(ifi, e, val, 1)...)
		}
		out = append(out, alt)
	}
	return out
}

// FactsAtInstr = facts at the instruction's block.
func FactsAtInstr(in ssa.Instruction) []Fact { return FactsAt(in.Block()) }

func factStrings(fs []Fact) string {
	var ss []string
	for _, f := range fs {
		ss = append(ss, f.Atom.String())
	}
	sort.Strings(ss)
	return strings.Join(ss, " ; ")
}

// holds reports whether spec is among (exact) or implied by the facts.
func holds(fs []Fact, spec Atom, exact bool) bool {
	for _, f := range fs {
		if exact && SameAtom(f.Atom, spec) {
			return true
		}
		if !exact && Implies(f.Atom, spec) {
			return true
		}
	}
	return false
}

// ---------------------------------------------------------------------------
// Reachability inside a function.

type ipos struct {
	b *ssa.BasicBlock
	i int
}

func posOf(in ssa.Instruction) ipos {
	b := in.Block()
	for i, x := range b.Instrs {
		if x == in {
			return ipos{b, i}
		}
	}
	return ipos{b, 0}
}

// walkFrom visits every instruction reachable strictly after start (or
// from the first instruction of start block when fromTop). visit returns
// false to stop exploring past that instruction. Branches whose outcome is
// fixed by the predecessor the walk came through are threaded: a constant
// condition, or a test of a phi against nil / as a boolean whose incoming
// value on that edge is known (an error variable set on the way).
func walkFrom(start ipos, inclusive bool, visit func(ssa.Instruction) bool) {
	type key struct {
		b    *ssa.BasicBlock
		pred *ssa.BasicBlock
	}
	seen := map[key]bool{}
	var run func(b *ssa.BasicBlock, i int, pred *ssa.BasicBlock)
	run = func(b *ssa.BasicBlock, i int, pred *ssa.BasicBlock) {
		for ; i < len(b.Instrs); i++ {
			if !visit(b.Instrs[i]) {
				return
			}
		}
		succs := b.Succs
		if len(b.Instrs) > 0 {
			if ifi, ok := b.Instrs[len(b.Instrs)-1].(*ssa.If); ok {
				if t, known := threadIf(ifi, pred); known {
					if t {
						succs = b.Succs[:1]
					} else {
						succs = b.Succs[1:2]
					}
				}
			}
		}
		for _, s := range succs {
			k := key{s, b}
			if !seen[k] {
				seen[k] = true
				run(s, 0, b)
			}
		}
	}
	i := start.i
	if !inclusive {
		i++
	}
	run(start.b, i, nil)
}

// threadIf decides a branch from the predecessor through which its block was entered.
func threadIf(ifi *ssa.If, pred *ssa.BasicBlock) (taken bool, known bool) {
	cond := ifi.Cond
	neg := false
	for {
		if u, ok := cond.(*ssa.UnOp); ok && u.Op == token.NOT {
			cond, neg = u.X, !neg
			continue
		}
		break
	}
	if c, ok := cond.(*ssa.Const); ok && c.Value != nil {
		return (constString(c) == "true") != neg, true
	}
	if pred == nil {
		return false, false
	}
	incoming := func(v ssa.Value) ssa.Value {
		ph, ok := v.(*ssa.Phi)
		if !ok || ph.Block() != ifi.Block() {
			return nil
		}
		for i, p := range ph.Block().Preds {
			if p == pred && i < len(ph.Edges) {
				return ph.Edges[i]
			}
		}
		return nil
	}
	switch x := cond.(type) {
	case *ssa.Phi:
		if v := incoming(x); v != nil {
			if c, ok := v.(*ssa.Const); ok && c.Value != nil {
				return (constString(c) == "true") != neg, true
			}
		}
	case *ssa.BinOp:
		if x.Op != token.EQL && x.Op != token.NEQ {
			break
		}
		var other ssa.Value
		var v ssa.Value
		if v = incoming(x.X); v != nil {
			other = x.Y
		} else if v = incoming(x.Y); v != nil {
			other = x.X
		}
		if v == nil || !isNilConst(other) {
			break
		}
		isNil, ok := nilness(v)
		if !ok {
			// the facts of the incoming edge may say it: `if err != nil { r = err; goto merge }`
			t := Lin{Coef: map[string]int64{Term(v): 1}}
			fs := edgeFacts_h2server(pred, ifi.Block())
			switch {
			case holds(fs, Atom{Kind: NE, L: t}, true):
				isNil, ok = false, true
			case holds(fs, Atom{Kind: EQ, L: t}, true):
				isNil, ok = true, true
			}
		}
		if !ok {
			break
		}
		res := isNil == (x.Op == token.EQL)
		return res != neg, true
	}
	return false, false
}

// nilness: is v certainly nil / certainly non-nil?
func nilness(v ssa.Value) (isNil bool, known bool) {
	switch x := v.(type) {
	case *ssa.Const:
		if x.Value == nil {
			return true, true
		}
	case *ssa.MakeInterface, *ssa.Alloc, *ssa.FieldAddr, *ssa.IndexAddr, *ssa.MakeClosure, *ssa.Function, *ssa.MakeSlice, *ssa.MakeMap, *ssa.MakeChan:
		return false, true
	case *ssa.ChangeInterface:
		return nilness(x.X)
	case *ssa.UnOp:
		// load of a package-level sentinel (var errX = errors.New(...)): assigned a
		// non-nil value once, in the package initialiser, and never stored to again
		if g, ok := x.X.(*ssa.Global); ok && x.Op == token.MUL && sentinelNonNil(g) {
			return false, true
		}
	case *ssa.Call:
		// the error constructors of the standard library never return nil
		switch CalleeName(&x.Call) {
		case "errors.New", "fmt.Errorf":
			return false, true
		}
		return callNilness(x, 0, 0)
	case *ssa.Extract:
		if call, ok := x.Tuple.(*ssa.Call); ok {
			return callNilness(call, x.Index, 0)
		}
	}
	return false, false
}

// callNilness summarises a static callee with a body: if every return yields,
// for result idx, a value that is certainly nil / certainly non-nil (a
// parameter counts as its argument at this call), the call result is too.
func callNilness(call *ssa.Call, idx, depth int) (isNil bool, known bool) {
	callee := call.Call.StaticCallee()
	if callee == nil || callee.Blocks == nil || depth > 3 {
		return false, false
	}
	first := true
	var res bool
	var eval func(v ssa.Value, d int) (bool, bool)
	eval = func(v ssa.Value, d int) (bool, bool) {
		if d > 6 {
			return false, false
		}
		switch x := v.(type) {
		case *ssa.Parameter:
			for i, p := range callee.Params {
				if p == x && i < len(call.Call.Args) {
					return nilness(call.Call.Args[i])
				}
			}
			return false, false
		case *ssa.Phi:
			f := true
			var r bool
			for _, e := range x.Edges {
				n, k := eval(e, d+1)
				if !k {
					return false, false
				}
				if f {
					r, f = n, false
				} else if r != n {
					return false, false
				}
			}
			return r, !f
		case *ssa.Call:
			return callNilness(x, 0, depth+1)
		case *ssa.Extract:
			if c, ok := x.Tuple.(*ssa.Call); ok {
				return callNilness(c, x.Index, depth+1)
			}
			return false, false
		}
		return nilness(v)
	}
	for _, b := range callee.Blocks {
		if len(b.Instrs) == 0 {
			continue
		}
		ret, ok := b.Instrs[len(b.Instrs)-1].(*ssa.Return)
		if !ok {
			continue
		}
		if idx >= len(ret.Results) {
			return false, false
		}
		n, k := eval(RetResult(ret, idx), 0)
		if !k {
			return false, false
		}
		if first {
			res, first = n, false
		} else if res != n {
			return false, false
		}
	}
	return res, !first
}

// canReach reports whether any instruction in targets is reachable from start
// without passing through an instruction in barriers.
func canReach(start ipos, inclusive bool, targets, barriers map[ssa.Instruction]bool) (ssa.Instruction, bool) {
	var hit ssa.Instruction
	walkFrom(start, inclusive, func(in ssa.Instruction) bool {
		if hit != nil {
			return false
		}
		if barriers[in] {
			return false
		}
		if targets[in] {
			hit = in
			return false
		}
		return true
	})
	return hit, hit != nil
}

func instrSet(ins []ssa.Instruction) map[ssa.Instruction]bool {
	m := map[ssa.Instruction]bool{}
	for _, in := range ins {
		m[in] = true
	}
	return m
}

// ---------------------------------------------------------------------------
// Dead blocks: blocks reachable from the entry only through a branch whose
// condition is a constant that sends control the other way (build-time
// constants such as runtime.GOOS == "zos").

var deadCache = map[*ssa.Function]map[*ssa.BasicBlock]bool{}

// DeadBlocks returns the unreachable blocks of fn under constant folding of branch conditions.
func DeadBlocks(fn *ssa.Function) map[*ssa.BasicBlock]bool {
	if fn == nil || len(fn.Blocks) == 0 {
		return nil
	}
	if d, ok := deadCache[fn]; ok {
		return d
	}
	live := map[*ssa.BasicBlock]bool{}
	var walk func(b *ssa.BasicBlock)
	walk = func(b *ssa.BasicBlock) {
		if live[b] {
			return
		}
		live[b] = true
		if len(b.Instrs) > 0 {
			if ifi, ok := b.Instrs[len(b.Instrs)-1].(*ssa.If); ok {
				if c, ok := ifi.Cond.(*ssa.Const); ok && c.Value != nil {
					if constString(c) == "true" {
						walk(b.Succs[0])
					} else {
						walk(b.Succs[1])
					}
					return
				}
			}
		}
		for _, s := range b.Succs {
			walk(s)
		}
	}
	walk(fn.Blocks[0])
	dead := map[*ssa.BasicBlock]bool{}
	for _, b := range fn.Blocks {
		if !live[b] {
			dead[b] = true
		}
	}
	if fn.Recover != nil {
		delete(dead, fn.Recover)
	}
	deadCache[fn] = dead
	return dead
}

// FieldOfAddr is the exported form of fieldOfAddr.
func FieldOfAddr(v ssa.Value) *types.Var { return fieldOfAddr(v) }

// FactsImply reports whether some branch fact dominating in implies a.
func FactsImply(in ssa.Instruction, a Atom) bool { return holds(FactsAtInstr(in), a, false) }

// Entry selects the first instruction of the function (the start of every path).
func Entry() Sel {
	return Sel{"function entry", func(p *Prog, fn *ssa.Function) []ssa.Instruction {
		if len(fn.Blocks) == 0 || len(fn.Blocks[0].Instrs) == 0 {
			return nil
		}
		return []ssa.Instruction{fn.Blocks[0].Instrs[0]}
	}}
}

var initStoreCache = map[*ssa.Global]ssa.Value{}
var initStoreDone = map[*ssa.Global]bool{}

// singleInitStore returns the value stored into the package-level variable g
// when g is assigned exactly once, in its package initialiser, and is never
// stored to or has its address taken anywhere else (for an exported variable
// every package of the program is scanned); nil otherwise.
func singleInitStore(g *ssa.Global) ssa.Value {
	if initStoreDone[g] {
		return initStoreCache[g]
	}
	initStoreDone[g] = true
	if g.Pkg == nil {
		return nil
	}
	stores, good := 0, true
	var val ssa.Value
	var scan func(fn *ssa.Function)
	scan = func(fn *ssa.Function) {
		for _, b := range fn.Blocks {
			for _, in := range b.Instrs {
				switch x := in.(type) {
				case *ssa.Store:
					if x.Val == ssa.Value(g) {
						good = false
					}
					if x.Addr != ssa.Value(g) {
						continue
					}
					stores++
					if fn.Name() != "init" || fn.Parent() != nil {
						good = false
						continue
					}
					val = x.Val
				default:
					// the address escaping (passed or stored) would allow other writes
					for _, op := range in.Operands(nil) {
						if *op == ssa.Value(g) {
							if u, isLoad := in.(*ssa.UnOp); !(isLoad && u.Op == token.MUL) {
								good = false
							}
						}
					}
				}
			}
		}
		for _, a := range fn.AnonFuncs {
			scan(a)
		}
	}
	// every package that can name g: its own, and for an exported variable all the others
	pkgs := []*ssa.Package{g.Pkg}
	if g.Object() != nil && g.Object().Exported() {
		pkgs = g.Pkg.Prog.AllPackages()
	}
	for _, pk := range pkgs {
		for _, m := range pk.Members {
			if fn, ok := m.(*ssa.Function); ok {
				scan(fn)
			}
		}
		for _, m := range pk.Members {
			if t, ok := m.(*ssa.Type); ok {
				for _, recv := range []types.Type{t.Type(), types.NewPointer(t.Type())} {
					ms := pk.Prog.MethodSets.MethodSet(recv)
					for i := 0; i < ms.Len(); i++ {
						if fn := pk.Prog.MethodValue(ms.At(i)); fn != nil && fn.Pkg == pk && fn.Synthetic == "" {
							scan(fn)
						}
					}
				}
			}
		}
	}
	if good && stores == 1 {
		initStoreCache[g] = val
	}
	return initStoreCache[g]
}

// sentinelNonNil: g is assigned once, in the package initialiser, a value that is certainly non-nil.
func sentinelNonNil(g *ssa.Global) bool {
	v := singleInitStore(g)
	if v == nil {
		return false
	}
	if isNil, known := nilness(v); known && !isNil {
		return true
	}
	if call, isCall := v.(*ssa.Call); isCall {
		n := CalleeName(&call.Call)
		return n == "errors.New" || n == "fmt.Errorf"
	}
	return false
}

// GlobalSliceCap: g is a package-level slice assigned once, in the initialiser,
// make([]T, n[, c]) with constant sizes; its capacity (and length n) never change.
func GlobalSliceCap(g *ssa.Global) (length, capacity int64, ok bool) {
	v := singleInitStore(g)
	// make with constant sizes is compiled to new([n]T)[:]
	if sl, isSl := v.(*ssa.Slice); isSl && sl.Low == nil && sl.Max == nil {
		if al, isAl := sl.X.(*ssa.Alloc); isAl {
			if at, isArr := al.Type().Underlying().(*types.Pointer).Elem().Underlying().(*types.Array); isArr {
				n := at.Len()
				if sl.High != nil {
					hc, isK := sl.High.(*ssa.Const)
					if !isK || hc.Value == nil {
						return 0, 0, false
					}
					n = hc.Int64()
				}
				return n, at.Len(), true
			}
		}
	}
	ms, isMake := v.(*ssa.MakeSlice)
	if !isMake {
		return 0, 0, false
	}
	lc, ok1 := ms.Len.(*ssa.Const)
	cc, ok2 := ms.Cap.(*ssa.Const)
	if !ok1 || !ok2 || lc.Value == nil || cc.Value == nil {
		return 0, 0, false
	}
	return lc.Int64(), cc.Int64(), true
}
