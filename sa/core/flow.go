package core

import (
	"fmt"
	"go/token"

	"golang.org/x/tools/go/ssa"
)

// ---------------------------------------------------------------------------
// E9: backward dependency (def-use closure inside one function).

// Backward visits v and everything it is computed from. visit returns false to
// stop expanding below a node. Loads from address-taken locals follow every
// store into that local (and its sub-locations).
func Backward(v ssa.Value, visit func(ssa.Value) bool) {
	seen := map[ssa.Value]bool{}
	var walk func(ssa.Value)
	walk = func(x ssa.Value) {
		if x == nil || seen[x] {
			return
		}
		seen[x] = true
		if !visit(x) {
			return
		}
		if a := rootAlloc(x); a != nil {
			for _, st := range storesInto(a) {
				walk(st.Val)
			}
		}
		if in, ok := x.(ssa.Instruction); ok {
			for _, op := range in.Operands(nil) {
				if *op != nil {
					walk(*op)
				}
			}
		}
	}
	walk(v)
}

// rootAlloc returns the local allocation an address or load is based on.
func rootAlloc(v ssa.Value) *ssa.Alloc {
	for i := 0; i < 8; i++ {
		switch x := v.(type) {
		case *ssa.Alloc:
			return x
		case *ssa.UnOp:
			if x.Op != token.MUL {
				return nil
			}
			v = x.X
		case *ssa.FieldAddr:
			v = x.X
		case *ssa.IndexAddr:
			v = x.X
		default:
			return nil
		}
	}
	return nil
}

// storesInto lists stores to a or to locations projected from a.
func storesInto(a *ssa.Alloc) []*ssa.Store {
	var out []*ssa.Store
	seen := map[ssa.Value]bool{}
	var walk func(v ssa.Value)
	walk = func(v ssa.Value) {
		if seen[v] {
			return
		}
		seen[v] = true
		refs := v.Referrers()
		if refs == nil {
			return
		}
		for _, r := range *refs {
			switch x := r.(type) {
			case *ssa.Store:
				if x.Addr == v {
					out = append(out, x)
				}
			case *ssa.FieldAddr:
				walk(x)
			case *ssa.IndexAddr:
				walk(x)
			}
		}
	}
	walk(a)
	return out
}

// DependsOn reports whether v is computed from a value satisfying pred.
func DependsOn(v ssa.Value, pred func(ssa.Value) bool) bool {
	found := false
	Backward(v, func(x ssa.Value) bool {
		if found {
			return false
		}
		if pred(x) {
			found = true
			return false
		}
		return true
	})
	return found
}

// IsCallTo is a predicate: the value is (a result of) a call to one of names.
func IsCallTo(names ...string) func(ssa.Value) bool {
	return func(v ssa.Value) bool {
		if c, ok := v.(*ssa.Call); ok {
			return matchCallee(&c.Call, names)
		}
		return false
	}
}

// IsTerm is a predicate: the value renders as term.
func IsTerm(term string) func(ssa.Value) bool {
	return func(v ssa.Value) bool { return Term(v) == term }
}

// ArgFrom: in fnName, argument idx (receiver counts) of every selected call
// is computed from a value satisfying pred.
func (c *Ctx) ArgFrom(fnName string, sel Sel, idx int, desc string, pred func(ssa.Value) bool) bool {
	rule := "derives-from"
	construct := fmt.Sprintf("%s: arg%d of [%s] derives from %s", fnName, idx, sel.Name, desc)
	_, ins := c.sites(rule, fnName, sel)
	if ins == nil {
		return false
	}
	for _, in := range ins {
		ci, ok := in.(ssa.CallInstruction)
		if !ok || idx >= len(BaselineArgs(ci.Common())) {
			c.Undecided(rule, construct, "site is not a call with that many arguments")
			return false
		}
		if !DependsOn(BaselineArgs(ci.Common())[idx], pred) {
			c.Fail(rule, construct, InstrPos(in), fmt.Sprintf("argument `%s` does not derive from %s", Term(BaselineArgs(ci.Common())[idx]), desc))
			return false
		}
	}
	c.OK(rule, construct, fmt.Sprintf("%d site(s)", len(ins)))
	return true
}

// ArgNotFrom: the argument must NOT depend on a value satisfying pred.
func (c *Ctx) ArgNotFrom(fnName string, sel Sel, idx int, desc string, pred func(ssa.Value) bool) bool {
	rule := "independent-of"
	construct := fmt.Sprintf("%s: arg%d of [%s] independent of %s", fnName, idx, sel.Name, desc)
	_, ins := c.sites(rule, fnName, sel)
	if ins == nil {
		return false
	}
	for _, in := range ins {
		ci, ok := in.(ssa.CallInstruction)
		if !ok || idx >= len(BaselineArgs(ci.Common())) {
			c.Undecided(rule, construct, "site is not a call with that many arguments")
			return false
		}
		if DependsOn(BaselineArgs(ci.Common())[idx], pred) {
			c.Fail(rule, construct, InstrPos(in), fmt.Sprintf("argument `%s` derives from %s", Term(BaselineArgs(ci.Common())[idx]), desc))
			return false
		}
	}
	c.OK(rule, construct, fmt.Sprintf("%d site(s)", len(ins)))
	return true
}

// StoredFrom: the value stored by every selected store derives from pred.
func (c *Ctx) StoredFrom(fnName string, sel Sel, desc string, pred func(ssa.Value) bool) bool {
	rule := "derives-from"
	construct := fmt.Sprintf("%s: value of [%s] derives from %s", fnName, sel.Name, desc)
	_, ins := c.sites(rule, fnName, sel)
	if ins == nil {
		return false
	}
	for _, in := range ins {
		st, ok := in.(*ssa.Store)
		if !ok {
			c.Undecided(rule, construct, "site is not a store")
			return false
		}
		if !DependsOn(st.Val, pred) {
			c.Fail(rule, construct, InstrPos(in), fmt.Sprintf("stored value `%s` does not derive from %s", Term(st.Val), desc))
			return false
		}
	}
	c.OK(rule, construct, fmt.Sprintf("%d site(s)", len(ins)))
	return true
}

// ResultUsed: the (idx-th) result of every selected call is used by some
// instruction other than a debug reference (i.e. it is not dropped).
func (c *Ctx) ResultUsed(fnName string, sel Sel) bool {
	rule := "result-used"
	construct := fmt.Sprintf("%s: result of [%s] is not dropped", fnName, sel.Name)
	_, ins := c.sites(rule, fnName, sel)
	if ins == nil {
		return false
	}
	for _, in := range ins {
		v, ok := in.(ssa.Value)
		if !ok {
			continue
		}
		refs := v.Referrers()
		if refs == nil || len(*refs) == 0 {
			c.Fail(rule, construct, InstrPos(in), fmt.Sprintf("result of `%s` is discarded", DescribeInstr(in)))
			return false
		}
	}
	c.OK(rule, construct, fmt.Sprintf("%d site(s)", len(ins)))
	return true
}
