package core

import (
	"go/token"
	"go/types"
	"strings"

	"golang.org/x/tools/go/ssa"
)

// Byte-layout extraction through a byte-order VALUE.
//
// ByteAccesses recognises only static calls binary.BigEndian.PutUint16(b[i:j], v). The same write
// can be made through a local of type encoding/binary.ByteOrder that the code selects first
// (`order := binary.BigEndian; if <const cond> { order = binary.NativeEndian }; order.PutUint16(...)`).
// M60ByteAccesses adds those invoke-mode accessors: the byte order of such an access is the order of
// every concrete value that can reach the receiver in the analysed build configuration (phi edges
// arriving over a branch edge that a compile-time constant condition never takes are ignored — the
// same folding LiveBlocks applies to the blocks themselves). When the possible values disagree, or
// one of them is not a known encoding/binary order, the access is NOT reported (the layout rule
// then fails with "not recognised" rather than guessing).

var m60Width = map[string]int{"Uint16": 2, "Uint32": 4, "Uint64": 8, "PutUint16": 2, "PutUint32": 4, "PutUint64": 8}

// M60LiveEdge reports whether control can pass from pred to its successor number si under constant
// folding of pred's branch condition (pred itself must be live).
func m60LiveEdge(live map[*ssa.BasicBlock]bool, pred *ssa.BasicBlock, si int) bool {
	if !live[pred] {
		return false
	}
	if len(pred.Instrs) == 0 {
		return true
	}
	if ifi, ok := pred.Instrs[len(pred.Instrs)-1].(*ssa.If); ok {
		if val, ok := constCond(ifi.Cond); ok {
			if val {
				return si == 0
			}
			return si == 1
		}
	}
	return true
}

// M60LiveLeaves returns the non-phi values that can reach v through phis in the analysed build
// configuration: an edge of a phi counts only when its predecessor block is live and the branch
// edge from that predecessor into the phi's block is not excluded by a constant condition.
// Loads of a local that is only stored and loaded are expanded to the values stored in live blocks.
// ok is false when a local has uses other than loads and stores (its content cannot be enumerated).
func M60LiveLeaves(v ssa.Value) (leaves []ssa.Value, ok bool) {
	ok = true
	seen := map[ssa.Value]bool{}
	var live map[*ssa.BasicBlock]bool
	liveOf := func(b *ssa.BasicBlock) map[*ssa.BasicBlock]bool {
		if live == nil {
			live = LiveBlocks(b.Parent())
		}
		return live
	}
	var walk func(x ssa.Value)
	walk = func(x ssa.Value) {
		if seen[x] {
			return
		}
		seen[x] = true
		switch y := x.(type) {
		case *ssa.Phi:
			blk := y.Block()
			lv := liveOf(blk)
			for i, e := range y.Edges {
				pred := blk.Preds[i]
				// the successor slot(s) of pred that lead to blk
				reach := false
				for si, s := range pred.Succs {
					if s == blk && m60LiveEdge(lv, pred, si) {
						reach = true
					}
				}
				if reach {
					walk(e)
				}
			}
			return
		case *ssa.UnOp:
			if al, isAl := y.X.(*ssa.Alloc); isAl && y.Op == token.MUL {
				refs := al.Referrers()
				if refs == nil {
					ok = false
					return
				}
				lv := liveOf(y.Block())
				n := 0
				for _, r := range *refs {
					switch u := r.(type) {
					case *ssa.Store:
						if u.Addr != ssa.Value(al) {
							ok = false // the address itself is stored somewhere
							return
						}
						if lv[u.Block()] {
							n++
							walk(u.Val)
						}
					case *ssa.UnOp:
					case *ssa.DebugRef:
					default:
						ok = false
						return
					}
				}
				if n == 0 {
					ok = false
				}
				return
			}
		}
		leaves = append(leaves, x)
	}
	walk(v)
	return
}

// m60OrderOfType maps a concrete encoding/binary byte-order type to "be"/"le". nativeEndian is the
// struct that embeds the order of the analysed GOARCH; it is resolved through the embedded field.
func m60OrderOfType(t types.Type) string {
	for depth := 0; depth < 3; depth++ {
		n, ok := t.(*types.Named)
		if !ok || n.Obj().Pkg() == nil || n.Obj().Pkg().Path() != "encoding/binary" {
			return ""
		}
		switch n.Obj().Name() {
		case "bigEndian":
			return "be"
		case "littleEndian":
			return "le"
		}
		st, ok := n.Underlying().(*types.Struct)
		if !ok || st.NumFields() != 1 || !st.Field(0).Embedded() {
			return ""
		}
		t = st.Field(0).Type()
	}
	return ""
}

// M60ByteOrderOf decides the byte order of an interface value of type encoding/binary.ByteOrder
// (or AppendByteOrder): "be" or "le" when every concrete value that can reach it in the analysed
// build configuration has that order, "" otherwise.
func M60ByteOrderOf(v ssa.Value) string {
	leaves, ok := M60LiveLeaves(v)
	if !ok || len(leaves) == 0 {
		return ""
	}
	enc := ""
	for _, l := range leaves {
		for {
			if ci, isCI := l.(*ssa.ChangeInterface); isCI {
				l = ci.X
				continue
			}
			break
		}
		mi, isMI := l.(*ssa.MakeInterface)
		if !isMI {
			return ""
		}
		e := m60OrderOfType(mi.X.Type())
		if e == "" || (enc != "" && e != enc) {
			return ""
		}
		enc = e
	}
	return enc
}

func m60IsBinaryOrderIface(t types.Type) bool {
	n, ok := t.(*types.Named)
	if !ok || n.Obj().Pkg() == nil || n.Obj().Pkg().Path() != "encoding/binary" {
		return false
	}
	_, isIface := n.Underlying().(*types.Interface)
	return isIface && (n.Obj().Name() == "ByteOrder" || n.Obj().Name() == "AppendByteOrder")
}

// M60InvokeByteAccesses lists the fixed-width accessors called on an encoding/binary.ByteOrder
// interface value in live blocks whose byte order is decided by M60ByteOrderOf.
func M60InvokeByteAccesses(fn *ssa.Function) (reads, writes []ByteAccess) {
	live := LiveBlocks(fn)
	for _, b := range fn.Blocks {
		if !live[b] {
			continue
		}
		for _, in := range b.Instrs {
			x, ok := in.(*ssa.Call)
			if !ok || !x.Call.IsInvoke() || !m60IsBinaryOrderIface(x.Call.Value.Type()) {
				continue
			}
			m := x.Call.Method.Name()
			width := m60Width[m]
			if width == 0 || len(x.Call.Args) < 1 {
				continue
			}
			enc := M60ByteOrderOf(x.Call.Value)
			if enc == "" {
				continue
			}
			base, lo, hi, ok := sliceBounds(x.Call.Args[0])
			if !ok {
				continue
			}
			acc := ByteAccess{Base: base, Off: lo, Hi: hi, Width: width, Enc: enc, In: in}
			if strings.HasPrefix(m, "Put") && len(x.Call.Args) == 2 {
				acc.Val = x.Call.Args[1]
				writes = append(writes, acc)
			} else if !strings.HasPrefix(m, "Put") {
				acc.Val = x
				reads = append(reads, acc)
			}
		}
	}
	return
}

// M60ByteAccesses = ByteAccesses plus the accessors invoked on a byte-order value.
func M60ByteAccesses(fn *ssa.Function) (reads, writes []ByteAccess) {
	reads, writes = ByteAccesses(fn)
	r2, w2 := M60InvokeByteAccesses(fn)
	return append(reads, r2...), append(writes, w2...)
}

// M60ByteWrites selects the instructions of the live byte writes of fn (M60ByteAccesses) accepted by keep.
func M60ByteWrites(name string, keep func(ByteAccess) bool) Sel {
	return Sel{name, func(p *Prog, fn *ssa.Function) []ssa.Instruction {
		_, ws := M60ByteAccesses(fn)
		var out []ssa.Instruction
		for _, w := range ws {
			if keep(w) {
				out = append(out, w.In)
			}
		}
		return out
	}}
}
