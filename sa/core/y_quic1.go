package core

import (
	"fmt"
	"go/token"
	"strings"

	"golang.org/x/tools/go/ssa"
)

// Helpers for the quic stream rules (C19-C21) that decide bounds and
// read-before-write facts over SSA values and linear forms instead of over
// rendered terms, so that the rules do not depend on how a clamp is spelled
// (if-clamp, min()/max(), named intermediate locals) or on whether results
// are named.

// q1LE proves   v + shift <= max(targets)   structurally:
//   - the linear form of v+shift is a target (or a target minus a constant);
//   - a fact that holds here implies v+shift-target <= 0;
//   - v is min(...) and some operand is bounded; v is max(...) and every operand is;
//   - v is an if/else merge and every incoming value is bounded under the
//     facts of its incoming edge;
//   - v is x+y / x-y: the other operand is moved into shift;
//   - a fact here says v <= w (or <) and w is bounded where that test was made.
//
// Signedness and overflow are not considered.
func q1LE(v ssa.Value, shift Lin, targets []Lin, fs []Fact, depth int, seen map[ssa.Value]bool) bool {
	if depth > 10 {
		return false
	}
	v = stripConv_h2server(v)
	l := Linearize(v).add(shift, 1)
	for _, t := range targets {
		d := l.add(t, -1)
		if d.isConst() && d.K <= 0 {
			return true
		}
		if len(d.Coef) > 0 && holds(fs, Atom{Kind: LE, L: d}, false) {
			return true
		}
	}
	if seen[v] {
		return false
	}
	seen[v] = true
	defer delete(seen, v)
	switch x := v.(type) {
	case *ssa.Call:
		if bi, isB := x.Call.Value.(*ssa.Builtin); isB {
			switch bi.Name() {
			case "min":
				for _, a := range x.Call.Args {
					if q1LE(a, shift, targets, fs, depth+1, seen) {
						return true
					}
				}
			case "max":
				all := len(x.Call.Args) > 0
				for _, a := range x.Call.Args {
					if !q1LE(a, shift, targets, fs, depth+1, seen) {
						all = false
						break
					}
				}
				if all {
					return true
				}
			}
		}
	case *ssa.Phi:
		all := len(x.Edges) > 0
		for i, e := range x.Edges {
			if !q1LE(e, shift, targets, edgeFacts_h2server(x.Block().Preds[i], x.Block()), depth+1, seen) {
				all = false
				break
			}
		}
		if all {
			return true
		}
	case *ssa.BinOp:
		if isIntegral(x.Type()) {
			switch x.Op {
			case token.ADD:
				if q1LE(x.X, shift.add(Linearize(x.Y), 1), targets, fs, depth+1, seen) ||
					q1LE(x.Y, shift.add(Linearize(x.X), 1), targets, fs, depth+1, seen) {
					return true
				}
			case token.SUB:
				if q1LE(x.X, shift.add(Linearize(x.Y), -1), targets, fs, depth+1, seen) {
					return true
				}
			}
		}
	}
	for _, f := range fs {
		if f.If == nil {
			continue
		}
		if w := upperOperand(f, v); w != nil {
			if q1LE(w, shift, targets, append(append([]Fact{}, FactsAt(f.If.Block())...), fs...), depth+1, seen) {
				return true
			}
		}
	}
	return false
}

func (p *Prog) q1Lins(specs []string) ([]Lin, error) {
	var out []Lin
	for _, s := range specs {
		l, err := p.parseLin(s)
		if err != nil {
			return nil, err
		}
		out = append(out, l)
	}
	return out, nil
}

// Q1ValueBounded: at instruction `at`, v <= max(targets) is provable (see
// q1LE); targets are linear expressions in spec syntax.
func (p *Prog) Q1ValueBounded(v ssa.Value, at ssa.Instruction, targets ...string) bool {
	ts, err := p.q1Lins(targets)
	if err != nil || len(ts) == 0 {
		return false
	}
	return q1LE(v, Lin{Coef: map[string]int64{}}, ts, FactsAtInstr(at), 0, map[ssa.Value]bool{})
}

// Q1ArgSumBounded: for every selected call, arg[idx] + arg[plusIdx] is
// provably <= the largest of the targets (linear expressions in spec syntax),
// whatever way the clamp is written. plusIdx < 0: the argument alone. A target
// "arg:N" stands for argument N of the same call.
func (c *Ctx) Q1ArgSumBounded(fnName string, sel Sel, idx, plusIdx int, desc string, targets ...string) bool {
	rule := "clamp"
	construct := fmt.Sprintf("%s: [%s] %s", fnName, sel.Name, desc)
	_, ins := c.sites(rule, fnName, sel)
	if ins == nil {
		return false
	}
	var argTargets []int
	var specs []string
	for _, t := range targets {
		var k int
		if _, err := fmt.Sscanf(t, "arg:%d", &k); err == nil {
			argTargets = append(argTargets, k)
		} else {
			specs = append(specs, t)
		}
	}
	ts0, err := c.P.q1Lins(specs)
	if err != nil || len(ts0)+len(argTargets) == 0 {
		c.Undecided(rule, construct, "bad bound specification")
		return false
	}
	for _, in := range ins {
		ci, ok := in.(ssa.CallInstruction)
		if !ok {
			c.Undecided(rule, construct, "site is not a call")
			return false
		}
		args := BaselineArgs(ci.Common())
		if idx >= len(args) || plusIdx >= len(args) {
			c.Undecided(rule, construct, "site is not a call with that many arguments")
			return false
		}
		ts := append([]Lin{}, ts0...)
		for _, k := range argTargets {
			if k >= len(args) {
				c.Undecided(rule, construct, "site is not a call with that many arguments")
				return false
			}
			ts = append(ts, Linearize(args[k]))
		}
		shift := Lin{Coef: map[string]int64{}}
		what := "`" + Term(args[idx]) + "`"
		if plusIdx >= 0 {
			shift = Linearize(args[plusIdx])
			what += " plus `" + Term(args[plusIdx]) + "`"
		}
		if !q1LE(args[idx], shift, ts, FactsAtInstr(in), 0, map[ssa.Value]bool{}) {
			c.Fail(rule, construct, InstrPos(in), fmt.Sprintf("%s is not provably bounded by any of {%s} on every value path; facts here: {%s}", what, strings.Join(targets, " ; "), factStrings(FactsAtInstr(in))))
			return false
		}
	}
	c.OK(rule, construct, fmt.Sprintf("%d site(s)", len(ins)))
	return true
}

// Q1GuardAny is QaGuardAny with a caller-chosen, stable description of the
// alternatives (the alternatives themselves may be derived from the code).
func (c *Ctx) Q1GuardAny(fnName string, sel Sel, desc string, alts ...[]string) bool {
	rule := "guard-before"
	construct := fmt.Sprintf("%s: [%s] under %s", fnName, sel.Name, desc)
	_, ins := c.sites(rule, fnName, sel)
	if ins == nil {
		return false
	}
	var parsed [][]Atom
	for _, a := range alts {
		as, ok := c.atoms(rule, construct, a)
		if !ok {
			return false
		}
		parsed = append(parsed, as)
	}
	if len(parsed) == 0 {
		c.Undecided(rule, construct, "no alternative could be derived from the code")
		return false
	}
	for _, in := range ins {
		fs := FactsAtInstr(in)
		good := false
		for _, as := range parsed {
			all := true
			for _, a := range as {
				if !holds(fs, a, true) {
					all = false
					break
				}
			}
			if all {
				good = true
				break
			}
		}
		if !good && guardedByPaths(in.Parent(), parsed, ins) {
			good = true
		}
		if !good {
			c.Fail(rule, construct, InstrPos(in), fmt.Sprintf("site `%s` is not dominated by any of the required tests; facts here: {%s}", DescribeInstr(in), factStrings(fs)))
			return false
		}
	}
	c.OK(rule, construct, fmt.Sprintf("%d site(s)", len(ins)))
	return true
}

// q1ResolveLocal follows v through loads of non-escaping result/local slots:
// when v is a load of an alloc, the value last stored into the alloc before
// the load (same block, then the chain of single predecessors) replaces it.
func q1ResolveLocal(v ssa.Value, before ssa.Instruction) ssa.Value {
	for hop := 0; hop < 8; hop++ {
		v = qaStripConv(v)
		u, ok := v.(*ssa.UnOp)
		if !ok || u.Op != token.MUL {
			return v
		}
		al, ok := u.X.(*ssa.Alloc)
		if !ok {
			return v
		}
		// position of the load (or of the instruction using the value)
		var at ssa.Instruction = u
		b := at.Block()
		if b == nil {
			at = before
			b = at.Block()
		}
		idx := -1
		for k, in := range b.Instrs {
			if in == at {
				idx = k
				break
			}
		}
		if idx < 0 {
			return v
		}
		var found *ssa.Store
		for hops := 0; hops < 16 && b != nil && found == nil; hops++ {
			for k := idx - 1; k >= 0; k-- {
				if st, ok := b.Instrs[k].(*ssa.Store); ok && st.Addr == ssa.Value(al) {
					found = st
					break
				}
			}
			if found != nil || len(b.Preds) != 1 {
				break
			}
			b = b.Preds[0]
			idx = len(b.Instrs)
		}
		if found == nil {
			return v
		}
		v = found.Val
	}
	return v
}

// q1Precedes: a is executed before b on every path reaching b (same block
// earlier, or a's block strictly dominates b's block).
func q1Precedes(a, b ssa.Instruction) bool {
	pa, pb := posOf(a), posOf(b)
	if pa.b == pb.b {
		return pa.i < pb.i
	}
	return pa.b.Dominates(pb.b)
}

// Q1ReturnsValueBeforeUpdate: result #idx of every successful return of fnName
// (nil error) is the value the field had BEFORE the function updated it: the
// returned value is a read of the field, that read precedes every store to the
// field in the function, and no store to the field can be executed before the
// read. Independent of named/unnamed results and of the local the old value is
// kept in.
func (c *Ctx) Q1ReturnsValueBeforeUpdate(fnName string, idx int, field string) bool {
	rule := "read-before-write"
	construct := fmt.Sprintf("%s: result #%d of a successful return is %s as read before it is updated", fnName, idx, field)
	fn, rets := c.sites(rule, fnName, RetOK())
	if rets == nil {
		return false
	}
	stores := Stores(field).F(c.P, fn)
	if len(stores) == 0 {
		c.Undecided(rule, construct, "no store to "+field+" in this function")
		return false
	}
	isLoad := c.P.QaIsLoadOf(field)
	n := 0
	for _, in := range rets {
		r := in.(*ssa.Return)
		if idx >= len(r.Results) {
			c.Undecided(rule, construct, "return has too few results")
			return false
		}
		v := q1ResolveLocal(r.Results[idx], r)
		ld, ok := v.(ssa.Instruction)
		if !ok || !isLoad(v) {
			c.Fail(rule, construct, InstrPos(in), fmt.Sprintf("the returned value `%s` is not a read of %s", Term(v), field))
			return false
		}
		for _, st := range stores {
			if !q1Precedes(ld, st) {
				c.Fail(rule, construct, InstrPos(st), fmt.Sprintf("the read of %s that is returned does not precede the update `%s`: the caller would get the updated value", field, DescribeInstr(st)))
				return false
			}
			if _, reach := canReach(posOf(st), false, map[ssa.Instruction]bool{ld: true}, nil); reach {
				c.Fail(rule, construct, InstrPos(st), fmt.Sprintf("the read of %s that is returned can be executed after the update `%s`", field, DescribeInstr(st)))
				return false
			}
		}
		n++
	}
	c.OK(rule, construct, fmt.Sprintf("%d successful return(s), %d update(s)", n, len(stores)))
	return true
}

// Q1LinOfSpec / Q1LinOf: canonical strings of linear forms, for comparing a
// value with an expression independent of how the sum is spelled.
func (p *Prog) Q1LinOfSpec(s string) string {
	l, err := p.parseLin(s)
	if err != nil {
		return "<bad spec " + s + ">"
	}
	return l.String()
}

func Q1LinOf(v ssa.Value) string { return Linearize(v).String() }
