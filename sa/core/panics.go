package core

import (
	"bytes"
	"go/constant"
	"os"
	"fmt"
	"go/ast"
	"go/token"
	"go/types"
	"os/exec"
	"regexp"
	"sort"
	"strconv"
	"strings"

	"golang.org/x/tools/go/ssa"
)

// ---------------------------------------------------------------------------
// E4: panic-obligation inventory.
//
// From the entry points the set of repo functions reachable through static
// calls, interface dispatch (methods of repo types with the same name that
// implement the interface), closures and function values is computed. In that
// set the potential run-time panic sites of the classes
//     idx    index / slice expression the gc compiler could not prove in
//            bounds (read from its own -d=ssa/check_bce report on the current tree)
//     panic  explicit panic(...) call
//     assert x.(T) without comma-ok
//     div    integer / or % with a non-constant divisor
// are counted per function and compared with the reviewed inventory. A
// function may have at most the reviewed number of sites of each class; a
// function outside the inventory none. Nil dereference, nil map write,
// closed-channel operations, stack exhaustion and out-of-memory are out of scope.

// Inv is the reviewed inventory of one function: "idx=2 panic=1" and the reason.
type Inv struct {
	Sites string
	Why   string
}

// Reachable computes the repo functions reachable from the named entries.
func (p *Prog) Reachable(entries []string, stopAt map[string]bool) (map[*ssa.Function]bool, []string) {
	var missing []string
	seen := map[*ssa.Function]bool{}
	var work []*ssa.Function
	push := func(f *ssa.Function) {
		if f == nil || seen[f] {
			return
		}
		if f.Blocks == nil {
			return
		}
		if _, ok := p.Funcs[FnName(f)]; !ok {
			// generic instantiation or synthetic wrapper: map to origin
			if o := f.Origin(); o != nil && o != f {
				f = o
			}
			if _, ok := p.Funcs[FnName(f)]; !ok {
				// wrappers ($bound, $thunk): follow their single callee
				if f.Synthetic != "" {
					eachInstr(f, func(in ssa.Instruction) {
						if ci, ok := in.(ssa.CallInstruction); ok {
							if sc := ci.Common().StaticCallee(); sc != nil && !seen[sc] {
								if _, ok := p.Funcs[FnName(sc)]; ok {
									seen[sc] = true
									work = append(work, sc)
								}
							}
						}
					})
				}
				return
			}
			if seen[f] {
				return
			}
		}
		seen[f] = true
		work = append(work, f)
	}
	for _, e := range entries {
		f := p.Fn(e)
		if f == nil {
			missing = append(missing, e)
			continue
		}
		push(f)
	}
	// method index for interface dispatch
	byName := map[string][]*ssa.Function{}
	for _, f := range p.All {
		if f.Signature.Recv() != nil {
			byName[f.Name()] = append(byName[f.Name()], f)
		}
	}
	for len(work) > 0 {
		f := work[len(work)-1]
		work = work[:len(work)-1]
		if stopAt[FnName(f)] {
			continue
		}
		for _, a := range f.AnonFuncs {
			push(a)
		}
		eachInstr(f, func(in ssa.Instruction) {
			if ci, ok := in.(ssa.CallInstruction); ok {
				cc := ci.Common()
				if sc := cc.StaticCallee(); sc != nil {
					push(sc)
				} else if cc.IsInvoke() {
					iface, _ := cc.Value.Type().Underlying().(*types.Interface)
					// only interfaces declared in the repository are resolved; a call
					// through io.Writer, error, ... is a boundary of the analysis
					if nt, ok := cc.Value.Type().(*types.Named); !ok || nt.Obj().Pkg() == nil || !strings.HasPrefix(nt.Obj().Pkg().Path(), strings.TrimSuffix(ModPrefix, "/")) {
						iface = nil
					}
					for _, m := range byName[cc.Method.Name()] {
						if iface != nil && types.Implements(m.Signature.Recv().Type(), iface) {
							push(m)
						}
					}
				}
			}
			for _, op := range in.Operands(nil) {
				if *op == nil {
					continue
				}
				switch x := (*op).(type) {
				case *ssa.Function:
					push(x)
				case *ssa.MakeClosure:
					if fn, ok := x.Fn.(*ssa.Function); ok {
						push(fn)
					}
				}
			}
		})
	}
	sort.Strings(missing)
	return seen, missing
}

var bceLine = regexp.MustCompile(`^(.+\.go):(\d+):(\d+): Found (IsInBounds|IsSliceInBounds)`)

// BCESite is one unproven bounds check reported by the compiler.
type BCESite struct {
	File string // repo-relative
	Line int
	Col  int
	Kind string
}

// BCEReport runs the compiler's bounds-check report for the given short package paths.
func (p *Prog) BCEReport(pkgs []string) ([]BCESite, error) {
	var out []BCESite
	var overlayArg []string
	if len(p.Overlay) > 0 {
		js, cleanup, err := writeOverlay(p.Overlay)
		if err != nil {
			return nil, err
		}
		defer cleanup()
		overlayArg = []string{"-overlay", js}
	}
	for _, pk := range pkgs {
		full := ModPrefix + pk
		args := append([]string{"build"}, overlayArg...)
		args = append(args, "-gcflags="+full+"=-l -d=ssa/check_bce/debug=1", "./"+pk+"/")
		cmd := exec.Command("go", args...)
		cmd.Dir = p.Repo
		cmd.Env = p.Env
		var buf bytes.Buffer
		cmd.Stdout = &buf
		cmd.Stderr = &buf
		err := cmd.Run()
		n := 0
		for _, line := range strings.Split(buf.String(), "\n") {
			m := bceLine.FindStringSubmatch(strings.TrimSpace(line))
			if m == nil {
				continue
			}
			l, _ := strconv.Atoi(m[2])
			col, _ := strconv.Atoi(m[3])
			f := strings.TrimPrefix(m[1], "./")
			f = strings.TrimPrefix(f, p.Repo+"/")
			out = append(out, BCESite{f, l, col, m[4]})
			n++
		}
		if err != nil {
			return nil, fmt.Errorf("go build %s: %v\n%s", pk, err, buf.String())
		}
	}
	return out, nil
}

// funcAt maps file:line to the innermost source function containing it.
func (p *Prog) funcIndex() func(file string, line int) *ssa.Function {
	type span struct {
		fn         *ssa.Function
		start, end int
	}
	idx := map[string][]span{}
	for _, fn := range p.All {
		syn := fn.Syntax()
		if syn == nil {
			continue
		}
		s, e := p.Fset.Position(syn.Pos()), p.Fset.Position(syn.End())
		f := strings.TrimPrefix(s.Filename, p.Repo+"/")
		idx[f] = append(idx[f], span{fn, s.Line, e.Line})
	}
	return func(file string, line int) *ssa.Function {
		var best *span
		for i := range idx[file] {
			sp := &idx[file][i]
			if sp.start <= line && line <= sp.end {
				if best == nil || sp.end-sp.start < best.end-best.start {
					best = sp
				}
			}
		}
		if best == nil {
			return nil
		}
		return best.fn
	}
}

type siteCount map[string]int // class -> count

func parseSites(s string) siteCount {
	out := siteCount{}
	for _, f := range strings.Fields(s) {
		kv := strings.SplitN(f, "=", 2)
		if len(kv) == 2 {
			n, _ := strconv.Atoi(kv[1])
			out[kv[0]] = n
		}
	}
	return out
}

func (sc siteCount) String() string {
	var parts []string
	for _, k := range []string{"idx", "panic", "assert", "div"} {
		if sc[k] > 0 {
			parts = append(parts, fmt.Sprintf("%s=%d", k, sc[k]))
		}
	}
	return strings.Join(parts, " ")
}

// PanicInventory checks the reachable panic sites against the reviewed table.
// stop lists functions whose callees are not followed (with the reason given in
// their inventory entry, e.g. a recover() frame).
func (c *Ctx) PanicInventory(entries []string, stop []string, table map[string]Inv) {
	rule := "panic-inventory"
	if c.P.Config != "" {
		// the compiler's bounds-check report is specific to a build configuration;
		// the reviewed inventory is for the default one
		c.Note("panic inventory skipped under %s", c.P.Config)
		return
	}
	stopAt := map[string]bool{}
	for _, s := range stop {
		stopAt[s] = true
	}
	reach, missing := c.P.Reachable(entries, stopAt)
	for _, m := range missing {
		c.Undecided("anchor", m, "entry point not found")
	}
	c.Stats["reachable_functions"] = len(reach)
	// packages to compile
	pkgset := map[string]bool{}
	for fn := range reach {
		if pk := c.P.PkgOfFn(fn); pk != nil {
			pkgset[Short(pk.PkgPath)] = true
		}
	}
	var pkgs []string
	for k := range pkgset {
		pkgs = append(pkgs, k)
	}
	sort.Strings(pkgs)
	sites, err := c.P.BCEReport(pkgs)
	if err != nil {
		c.Undecided(rule, "compiler-bce-report", err.Error())
		return
	}
	c.Stats["bce_unproven_in_packages"] = len(sites)
	at := c.P.funcIndex()
	counts := map[string]siteCount{}
	where := map[string][]string{}
	bump := func(fn *ssa.Function, class, pos string) {
		n := FnName(fn)
		if counts[n] == nil {
			counts[n] = siteCount{}
		}
		counts[n][class]++
		where[n] = append(where[n], class+"@"+pos)
	}
	proved := 0
	for _, s := range sites {
		fn := at(s.File, s.Line)
		if fn == nil || !reach[fn] {
			continue
		}
		// a site in a function without reviewed allowance may still be in bounds by the
		// branch facts that dominate it (index below a tested length, slice of a fixed array)
		if _, listed := table[FnName(fn)]; !listed && c.P.boundsProvedByFacts(fn, s) {
			proved++
			continue
		}
		bump(fn, "idx", fmt.Sprintf("%s:%d:%d", s.File, s.Line, s.Col))
	}
	c.Stats["idx_sites_proved_by_facts"] = proved
	for fn := range reach {
		eachInstr(fn, func(in ssa.Instruction) {
			switch x := in.(type) {
			case *ssa.Panic:
				if in.Pos().IsValid() { // explicit panic() call
					bump(fn, "panic", c.P.Pos(in.Pos()))
				}
			case *ssa.TypeAssert:
				if !x.CommaOk {
					bump(fn, "assert", c.P.Pos(InstrPos(in)))
				}
			case *ssa.BinOp:
				if (x.Op == token.QUO || x.Op == token.REM) && isIntegral(x.Type()) {
					if _, isConst := x.Y.(*ssa.Const); !isConst {
						bump(fn, "div", c.P.Pos(InstrPos(in)))
					}
				}
			}
		})
	}
	var names []string
	for n := range counts {
		names = append(names, n)
	}
	sort.Strings(names)
	total := 0
	for _, n := range names {
		got := counts[n]
		inv, listed := table[n]
		allowed := parseSites(inv.Sites)
		for _, class := range []string{"idx", "panic", "assert", "div"} {
			if got[class] == 0 {
				continue
			}
			total += got[class]
			construct := n + ":" + class
			if got[class] > allowed[class] {
				sort.Strings(where[n])
				msg := fmt.Sprintf("%d %s site(s) but the reviewed inventory allows %d", got[class], class, allowed[class])
				if !listed {
					msg = fmt.Sprintf("%d %s site(s) in a function that has no reviewed inventory entry", got[class], class)
				}
				c.Fail(rule, construct, c.P.Fn(n).Pos(), msg+"; sites: "+strings.Join(where[n], " "))
			} else {
				c.OK(rule, construct, fmt.Sprintf("%d site(s) ≤ %d reviewed: %s", got[class], allowed[class], inv.Why))
			}
		}
	}
	c.Stats["panic_sites_reachable"] = total
	// stale entries are not failures (sites may legitimately disappear) but are noted
	for n := range table {
		if _, ok := counts[n]; !ok {
			c.Note("inventory entry %s has no site any more", n)
		}
	}
}

// DumpInventory prints the current inventory for the entries in table syntax.
func DumpInventory(p *Prog, entries, stop []string) string {
	c := newCtx(p, &Property{ID: "dump"}, "quick")
	stopAt := map[string]bool{}
	for _, s := range stop {
		stopAt[s] = true
	}
	reach, missing := p.Reachable(entries, stopAt)
	var sb strings.Builder
	for _, m := range missing {
		fmt.Fprintf(&sb, "// MISSING entry %s\n", m)
	}
	pkgset := map[string]bool{}
	for fn := range reach {
		if pk := p.PkgOfFn(fn); pk != nil {
			pkgset[Short(pk.PkgPath)] = true
		}
	}
	var pkgs []string
	for k := range pkgset {
		pkgs = append(pkgs, k)
	}
	sort.Strings(pkgs)
	sites, err := p.BCEReport(pkgs)
	if err != nil {
		return err.Error()
	}
	at := p.funcIndex()
	counts := map[string]siteCount{}
	where := map[string][]string{}
	bump := func(fn *ssa.Function, class, pos string) {
		n := FnName(fn)
		if counts[n] == nil {
			counts[n] = siteCount{}
		}
		counts[n][class]++
		where[n] = append(where[n], class+"@"+pos)
	}
	for _, s := range sites {
		fn := at(s.File, s.Line)
		if fn == nil || !reach[fn] {
			continue
		}
		bump(fn, "idx", fmt.Sprintf("%d:%d", s.Line, s.Col))
	}
	for fn := range reach {
		eachInstr(fn, func(in ssa.Instruction) {
			switch x := in.(type) {
			case *ssa.Panic:
				if in.Pos().IsValid() {
					bump(fn, "panic", strconv.Itoa(p.Fset.Position(in.Pos()).Line))
				}
			case *ssa.TypeAssert:
				if !x.CommaOk {
					bump(fn, "assert", strconv.Itoa(p.Fset.Position(InstrPos(in)).Line))
				}
			case *ssa.BinOp:
				if (x.Op == token.QUO || x.Op == token.REM) && isIntegral(x.Type()) {
					if _, isConst := x.Y.(*ssa.Const); !isConst {
						bump(fn, "div", strconv.Itoa(p.Fset.Position(InstrPos(in)).Line))
					}
				}
			}
		})
	}
	var names []string
	for n := range counts {
		names = append(names, n)
	}
	sort.Strings(names)
	fmt.Fprintf(&sb, "// %d reachable functions, packages %v\n", len(reach), pkgs)
	for _, n := range names {
		fmt.Fprintf(&sb, "\t%q: {%q, \"\"}, // %s %s\n", n, counts[n].String(), p.Pos(p.Fn(n).Pos()), strings.Join(where[n], " "))
	}
	_ = c
	return sb.String()
}

var _ = ast.Inspect

// boundsProvedByFacts: every index/slice instruction of fn at the reported source
// position is in bounds by dominating branch facts (linear atoms) alone.
func (p *Prog) boundsProvedByFacts(fn *ssa.Function, s BCESite) bool {
	n, ok := 0, true
	capOf := func(x ssa.Value) (Lin, bool) {
		t := x.Type().Underlying()
		if pt, isP := t.(*types.Pointer); isP {
			t = pt.Elem().Underlying()
		}
		switch tt := t.(type) {
		case *types.Array:
			return Lin{Coef: map[string]int64{}, K: tt.Len()}, true
		case *types.Basic: // string
			return Lin{Coef: map[string]int64{"len(" + Term(x) + ")": 1}}, true
		case *types.Slice:
			return Lin{Coef: map[string]int64{"len(" + Term(x) + ")": 1}}, true
		}
		return Lin{}, false
	}
	nonNeg := func(in ssa.Instruction, v ssa.Value) bool {
		if v == nil || nonNegValue(v) {
			return true
		}
		l := Linearize(v)
		if l.isConst() {
			return l.K >= 0
		}
		return FactsImply(in, LEZero(l.scale(-1)))
	}
	le := func(in ssa.Instruction, a Lin, b Lin, strict bool) bool {
		d := a.add(b, -1)
		if strict {
			d.K++
		}
		if d.isConst() {
			return d.K <= 0
		}
		return FactsImply(in, LEZero(d))
	}
	// x & K with a constant K below a constant capacity is in bounds whatever x is
	masked := func(v ssa.Value, c Lin) bool {
		for {
			if cv, ok := v.(*ssa.Convert); ok {
				v = cv.X
				continue
			}
			break
		}
		bo, ok := v.(*ssa.BinOp)
		if !ok || bo.Op != token.AND || !c.isConst() {
			return false
		}
		for _, op := range []ssa.Value{bo.X, bo.Y} {
			if k, isK := op.(*ssa.Const); isK && k.Value != nil {
				if n, exact := constant.Int64Val(constant.ToInt(k.Value)); exact && n >= 0 && n < c.K {
					return true
				}
			}
		}
		return false
	}
	eachInstr(fn, func(in ssa.Instruction) {
		pos := p.Fset.Position(in.Pos())
		// the compiler and go/ssa do not always agree on the column of an expression:
		// every bounds-checked instruction of the line has to be proved
		if !in.Pos().IsValid() || pos.Line != s.Line {
			return
		}
		if os.Getenv("VSA_DEBUG_BCE") != "" {
			fmt.Fprintf(os.Stderr, "bce-debug %s:%d:%d %T %s\n", s.File, pos.Line, pos.Column, in, DescribeInstr(in))
		}
		switch x := in.(type) {
		case *ssa.IndexAddr:
			n++
			c, known := capOf(x.X)
			if !known || !(masked(x.Index, c) || nonNeg(in, x.Index) && le(in, Linearize(x.Index), c, true)) {
				ok = false
			}
		case *ssa.Index:
			n++
			c, known := capOf(x.X)
			if !known || !(masked(x.Index, c) || nonNeg(in, x.Index) && le(in, Linearize(x.Index), c, true)) {
				ok = false
			}
		case *ssa.Slice:
			n++
			c, known := capOf(x.X)
			if _, isSlice := x.X.Type().Underlying().(*types.Slice); isSlice {
				known = false // the bound is cap(x), which facts about len do not give ...
				// ... unless x is a package-level slice made once with constant size
				if ld, isLd := x.X.(*ssa.UnOp); isLd && ld.Op == token.MUL {
					if g, isG := ld.X.(*ssa.Global); isG {
						if _, cp, okc := GlobalSliceCap(g); okc {
							c, known = Lin{Coef: map[string]int64{}, K: cp}, true
						}
					}
				}
			}
			if !known || x.Max != nil {
				ok = false
				return
			}
			hi := c
			if x.High != nil {
				hi = Linearize(x.High)
				if !nonNeg(in, x.High) || !le(in, hi, c, false) {
					ok = false
				}
			}
			if x.Low != nil {
				if !nonNeg(in, x.Low) || !le(in, Linearize(x.Low), hi, false) {
					ok = false
				}
			}
		}
	})
	return n > 0 && ok
}
