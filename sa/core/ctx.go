package core

import (
	"bufio"
	"encoding/json"
	"fmt"
	"go/token"
	"os"
	"regexp"
	"sort"
	"strings"
	"time"
)

// Status of an obligation.
type Status string

const (
	Discharged Status = "discharged"
	Violated   Status = "violated"
	Undecided  Status = "undecided"
	Known      Status = "known-finding"
	// Unanchored: the construct a rule is anchored on (function, call site,
	// store, branch) is not present in this tree, so the rule has nothing to
	// examine. It is reported (UNANCHORED line, evidence) but is not an alarm:
	// a rule that finds a construct and cannot establish its claim is Undecided
	// or Violated, and both of those fail. A vacuity guard in RunProperty fails
	// the property when too much of its rule set is unanchored.
	Unanchored Status = "unanchored"
)

var unanchoredRE = regexp.MustCompile(`(?i)^no such site|no such site in this function|function not found|entry point not found|^no \[[^\]]*\] site|no target or no via site|^\d+ target site\(s\), \d+ via site`)

// Obligation is one decided rule instance. Key = Rule + ":" + Construct is
// stable across line-number changes.
type Obligation struct {
	Rule      string `json:"rule"`
	Construct string `json:"construct"`
	Status    Status `json:"status"`
	Pos       string `json:"pos,omitempty"`
	Detail    string `json:"detail,omitempty"`
	Trivial   bool   `json:"-"`
}

// Key is space-free so that it can be listed in known_findings.txt.
func (o Obligation) Key() string { return strings.ReplaceAll(o.Rule+":"+o.Construct, " ", "_") }

// Property is the registration record of one property's rule set.
type Property struct {
	ID         string
	Level      string // "other" or "proof"
	Clauses    string // what is decided
	NotCovered string // what is not
	Floor      int    // minimum number of obligations confirmed by hand
	Run        func(c *Ctx)
	Trusted    []string
}

var registry = map[string]*Property{}

// Register adds a property rule set.
func Register(p *Property) {
	if _, dup := registry[p.ID]; dup {
		panic("duplicate property " + p.ID)
	}
	if p.Level == "" {
		p.Level = "other"
	}
	registry[p.ID] = p
}

// Advisory lists rule instances (property, key prefix) that are reported but
// do not fail the check: instances that raised an alarm on a behaviour-preserving
// patch (benign/, recorded in the reason) and that are not the only detector of
// any mutant in the detection matrix (tools/matrix.py). Each entry names one
// rule instance and says why.
type AdvisoryEntry struct {
	Prop, KeyPrefix, Why string
}

var advisory []AdvisoryEntry

// RegisterAdvisory adds advisory entries.
func RegisterAdvisory(es ...AdvisoryEntry) { advisory = append(advisory, es...) }

func isAdvisory(prop, key string) (string, bool) {
	for _, e := range advisory {
		if e.Prop == prop && strings.HasPrefix(key, e.KeyPrefix) {
			return e.Why, true
		}
	}
	return "", false
}

// extras are supplementary rule sets added to a registered property (rules
// written after the property file, e.g. to cover an independently seeded change).
var extras = map[string][]func(c *Ctx){}

// extraClauses is appended to the property's published clause text.
var extraClauses = map[string]string{}

// ExtraClause records what a supplementary rule set decides.
func ExtraClause(id, text string) { extraClauses[id] += " " + text }

// AllClauses is the published description of what is decided.
func (p *Property) AllClauses() string { return p.Clauses + extraClauses[p.ID] }

// RegisterExtra appends a rule set to property id.
func RegisterExtra(id string, run func(c *Ctx)) { extras[id] = append(extras[id], run) }

// RunAll runs the property's rule set and its supplementary rule sets.
func (p *Property) RunAll(c *Ctx) {
	p.Run(c)
	for _, f := range extras[p.ID] {
		f(c)
	}
}

// Lookup returns a registered property.
func Lookup(id string) *Property { return registry[id] }

// IDs returns all registered ids, sorted.
func IDs() []string {
	out := []string{}
	for k := range registry {
		out = append(out, k)
	}
	sort.Strings(out)
	return out
}

// Ctx is handed to a property's Run function.
type Ctx struct {
	P     *Prog
	Prop  *Property
	Tier  string
	Obls  []Obligation
	seen  map[string]int
	Stats map[string]int // functions_analysed, call_sites, ...
	Notes []string
	fnSet map[string]bool
}

func newCtx(p *Prog, prop *Property, tier string) *Ctx {
	return &Ctx{P: p, Prop: prop, Tier: tier, seen: map[string]int{}, Stats: map[string]int{}, fnSet: map[string]bool{}}
}

func (c *Ctx) add(o Obligation) {
	k := o.Key()
	if n := c.seen[k]; n > 0 {
		o.Construct = fmt.Sprintf("%s#%d", o.Construct, n+1)
	}
	c.seen[k]++
	c.Obls = append(c.Obls, o)
}

// OK records a discharged obligation.
func (c *Ctx) OK(rule, construct, detail string) {
	c.add(Obligation{Rule: rule, Construct: construct, Status: Discharged, Detail: detail})
}

// Triv records a discharged obligation that needed no real argument
// (counted in obligations, not in distinct_nontrivial).
func (c *Ctx) Triv(rule, construct, detail string) {
	c.add(Obligation{Rule: rule, Construct: construct, Status: Discharged, Detail: detail, Trivial: true})
}

// Fail records a violated obligation.
func (c *Ctx) Fail(rule, construct string, pos token.Pos, why string) {
	c.add(Obligation{Rule: rule, Construct: construct, Status: Violated, Pos: c.P.Pos(pos), Detail: why})
}

// Undecided records an obligation whose anchor or idiom was not recognised.
func (c *Ctx) Undecided(rule, construct, why string) {
	if unanchoredRE.MatchString(why) {
		c.add(Obligation{Rule: rule, Construct: construct, Status: Unanchored, Detail: why})
		return
	}
	c.add(Obligation{Rule: rule, Construct: construct, Status: Undecided, Detail: why})
}

// Check records OK or Fail depending on cond.
func (c *Ctx) Check(cond bool, rule, construct string, pos token.Pos, okDetail, why string) bool {
	if cond {
		c.OK(rule, construct, okDetail)
	} else {
		c.Fail(rule, construct, pos, why)
	}
	return cond
}

// Note adds an informational line to the evidence (never affects the verdict).
func (c *Ctx) Note(format string, a ...any) { c.Notes = append(c.Notes, fmt.Sprintf(format, a...)) }

// Touch counts a function as analysed.
func (c *Ctx) Touch(fn string) {
	if !c.fnSet[fn] {
		c.fnSet[fn] = true
		c.Stats["functions_analysed"]++
	}
}

// known findings -----------------------------------------------------------

type finding struct {
	prop, key, text string
}

func loadFindings(path string) ([]finding, error) {
	f, err := os.Open(path)
	if err != nil {
		if os.IsNotExist(err) {
			return nil, nil
		}
		return nil, err
	}
	defer f.Close()
	var out []finding
	sc := bufio.NewScanner(f)
	sc.Buffer(make([]byte, 1<<20), 1<<20)
	for sc.Scan() {
		line := strings.TrimSpace(sc.Text())
		if !strings.HasPrefix(line, "finding:") {
			continue // comments and "fixed:" lines suppress nothing
		}
		rest := strings.TrimSpace(strings.TrimPrefix(line, "finding:"))
		var fd finding
		for _, tok := range strings.Fields(rest) {
			if strings.HasPrefix(tok, "property=") && fd.prop == "" {
				fd.prop = strings.TrimPrefix(tok, "property=")
			} else if strings.HasPrefix(tok, "key=") && fd.key == "" {
				fd.key = strings.TrimPrefix(tok, "key=")
			}
		}
		if i := strings.Index(rest, "key="+fd.key); i >= 0 {
			fd.text = strings.TrimSpace(rest[i+len("key="+fd.key):])
		}
		if fd.prop != "" && fd.key != "" {
			out = append(out, fd)
		}
	}
	return out, sc.Err()
}

// evidence -----------------------------------------------------------------

type evidence struct {
	PropertyID  string         `json:"property_id"`
	Tier        string         `json:"tier"`
	Seed        int            `json:"seed"`
	Level       string         `json:"level"`
	Coverage    map[string]any `json:"coverage"`
	Assumptions []string       `json:"assumptions"`
	WallS       float64        `json:"wall_s"`
	Violations  int            `json:"violations"`
}

// RunProperty executes one property, writes evidence and returns the exit code.
func RunProperty(p *Prog, prop *Property, tier string, seed int, evidencePath, findingsPath string, start time.Time, extra map[string]any) int {
	c := newCtx(p, prop, tier)
	// the rename table is per tree; another tree may have been loaded since p was
	DetectRenames(p.Repo)
	func() {
		defer func() {
			if r := recover(); r != nil {
				c.Undecided("internal", "panic", fmt.Sprintf("checker panic: %v", r))
			}
		}()
		prop.RunAll(c)
	}()
	// vacuity guard: the hand-confirmed instance count may shrink a little when
	// code is restructured, but a rule set that lost a large part of its anchors
	// decides nothing and must not pass.
	unanch := 0
	for _, o := range c.Obls {
		if o.Status == Unanchored {
			unanch++
		}
	}
	// (the floors were confirmed for the default build configuration; under an additional
	// configuration parts of a rule set, e.g. the compiler-based panic inventory, are skipped)
	if anchored := len(c.Obls) - unanch; p.Config == "" && prop.Floor > 0 && anchored*100 < prop.Floor*85 {
		c.Undecided("floor", "obligation-count", fmt.Sprintf("%d anchored obligations generated (%d unanchored), hand-confirmed floor is %d: more than 15%% of the rule set has nothing to examine", anchored, unanch, prop.Floor))
	}
	if len(c.Obls) == 0 {
		c.Undecided("floor", "no-obligations", "the rule set matched nothing")
	}
	fds, err := loadFindings(findingsPath)
	if err != nil {
		c.Undecided("internal", "known_findings", err.Error())
	}
	var bad, known, advis, unanchored []Obligation
	discharged, nontriv := 0, 0
	distinct := map[string]bool{}
	for i := range c.Obls {
		o := &c.Obls[i]
		switch o.Status {
		case Discharged:
			discharged++
			if !o.Trivial && !distinct[o.Key()] {
				distinct[o.Key()] = true
				nontriv++
			}
		case Unanchored:
			unanchored = append(unanchored, *o)
		default:
			matched := false
			for _, f := range fds {
				if f.prop == prop.ID && f.key == o.Key() {
					matched = true
					o.Detail = o.Detail + " [listed in known_findings.txt: " + f.text + "]"
					break
				}
			}
			if matched {
				o.Status = Known
				known = append(known, *o)
			} else if why, adv := isAdvisory(prop.ID, o.Key()); adv {
				o.Detail += " [advisory only: " + why + "]"
				o.Status = "advisory"
				advis = append(advis, *o)
			} else {
				bad = append(bad, *o)
			}
		}
	}
	for _, o := range advis {
		fmt.Printf("ADVISORY: property=%s %s %s: %s\n", prop.ID, o.Key(), o.Pos, o.Detail)
	}
	for _, o := range unanchored {
		fmt.Printf("UNANCHORED: property=%s %s: %s (rule has nothing to examine in this tree; not an alarm)\n", prop.ID, o.Key(), o.Detail)
	}
	for _, o := range known {
		fmt.Printf("KNOWN-FINDING: property=%s %s %s: %s\n", prop.ID, o.Key(), o.Pos, o.Detail)
	}
	// samples: violations first, then a spread of discharged obligations
	var samples []any
	for _, o := range bad {
		samples = append(samples, o)
	}
	for _, o := range known {
		samples = append(samples, o)
	}
	step := 1
	if len(c.Obls) > 16 {
		step = len(c.Obls) / 16
	}
	for i := 0; i < len(c.Obls) && len(samples) < 24; i += step {
		if c.Obls[i].Status == Discharged {
			samples = append(samples, c.Obls[i])
		}
	}
	rules := map[string]int{}
	for _, o := range c.Obls {
		rules[o.Rule]++
	}
	cov := map[string]any{
		"obligations":         len(c.Obls),
		"discharged":          discharged + len(known),
		"evaluations":         len(c.Obls),
		"distinct_nontrivial": nontriv,
		"rule":                "one case per (rule, construct) obligation generated from /repo's current source; non-trivial = discharge needed a dominance/ownership/dataflow/table argument rather than a mere existence lookup; distinct by key",
		"explanation":         "DECIDED (structural necessary conditions only, not the behaviour): " + prop.AllClauses() + " NOT COVERED: " + prop.NotCovered,
		"samples":             samples,
		"rules_applied":       rules,
		"known_findings":      len(known),
		"advisory":            advis,
		"unanchored":          unanchored,
		"instance_floor":      prop.Floor,
		"packages":            len(p.ByPath),
		"functions_in_repo":   len(p.All),
		"notes":               c.Notes,
		"checker_cmd":         fmt.Sprintf("./run.sh %s %s", prop.ID, tier),
		"trusted_base":        append([]string{"go/types", "go/ssa (x/tools v0.29.0)", "rule tables in /verif/sa/props"}, prop.Trusted...),
		"exhaustive":          false,
	}
	for k, v := range c.Stats {
		cov[k] = v
	}
	for k, v := range extra {
		cov[k] = v
	}
	level := prop.Level
	if level == "proof" && (len(bad) > 0 || len(known) > 0 || len(unanchored) > 0) {
		level = "other"
	}
	ev := evidence{
		PropertyID: prop.ID, Tier: tier, Seed: seed, Level: level, Coverage: cov,
		Assumptions: []string{
			"static analysis only: no golang/net code is executed",
			"the rules are necessary conditions of the property, not the property itself",
			"go/types and go/ssa model the program faithfully; default build configuration linux/amd64 unless the coverage lists more",
		},
		WallS:      time.Since(start).Seconds(),
		Violations: len(bad),
	}
	if evidencePath != "" {
		b, _ := json.MarshalIndent(ev, "", " ")
		if err := os.WriteFile(evidencePath, append(b, '\n'), 0o644); err != nil {
			fmt.Fprintf(os.Stderr, "cannot write evidence: %v\n", err)
			return 2
		}
	}
	fmt.Printf("property=%s tier=%s obligations=%d discharged=%d known=%d failed=%d wall=%.1fs\n",
		prop.ID, tier, len(c.Obls), discharged, len(known), len(bad), time.Since(start).Seconds())
	if len(bad) > 0 {
		fmt.Printf("VIOLATION property=%s replay=%s\n", prop.ID, evidencePath)
		for _, o := range bad {
			fmt.Printf("  %s: [%s] %s %s: %s\n", o.Pos, o.Status, o.Rule, o.Construct, o.Detail)
		}
		return 1
	}
	return 0
}

// Any runs the alternatives in order and keeps the obligations of the first one
// that adds no failing obligation (or of the first alternative if all fail). It
// lets a rule name equivalent spellings of the same condition, e.g. a method
// call and the field access it reduces to under the branch facts.
func (c *Ctx) Any(alts ...func()) bool {
	start := len(c.Obls)
	seen0 := map[string]int{}
	for k, v := range c.seen {
		seen0[k] = v
	}
	restore := func() {
		c.Obls = c.Obls[:start]
		c.seen = map[string]int{}
		for k, v := range seen0 {
			c.seen[k] = v
		}
	}
	var first []Obligation
	for i, alt := range alts {
		restore()
		alt()
		bad := false
		for _, o := range c.Obls[start:] {
			if o.Status != Discharged {
				bad = true
			}
		}
		if !bad {
			return true
		}
		if i == 0 {
			first = append([]Obligation(nil), c.Obls[start:]...)
		}
	}
	restore()
	for _, o := range first {
		c.seen[o.Key()]++
		c.Obls = append(c.Obls, o)
	}
	return false
}
