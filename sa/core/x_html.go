package core

import (
	"go/ast"
	"go/constant"
	"go/token"
	"go/types"
	"strings"

	"golang.org/x/tools/go/ssa"
)

// Helpers for the html / html/atom rule sets (C39..C42). All names carry the
// Htm prefix so that they cannot collide with other rule authors' helpers.

// HtmStrip removes value-preserving conversions (Convert, ChangeType) from v.
func HtmStrip(v ssa.Value) ssa.Value {
	for {
		switch x := v.(type) {
		case *ssa.Convert:
			v = x.X
		case *ssa.ChangeType:
			v = x.X
		default:
			return v
		}
	}
}

// HtmConstInt returns the integer value of v if it is an integer constant
// (through conversions).
func HtmConstInt(v ssa.Value) (int64, bool) {
	c, ok := HtmStrip(v).(*ssa.Const)
	if !ok || c.Value == nil || c.Value.Kind() != constant.Int {
		return 0, false
	}
	if i, ok := constant.Int64Val(c.Value); ok {
		return i, true
	}
	if u, ok := constant.Uint64Val(c.Value); ok {
		return int64(u), true
	}
	return 0, false
}

// HtmConstStr returns the string value of v if it is a string constant.
func HtmConstStr(v ssa.Value) (string, bool) {
	c, ok := HtmStrip(v).(*ssa.Const)
	if !ok || c.Value == nil || c.Value.Kind() != constant.String {
		return "", false
	}
	return constant.StringVal(c.Value), true
}

// HtmBin matches v (through conversions) as a binary operation op with a
// constant operand on the right (or on either side for commutative ops) and
// returns the other operand and the constant.
func HtmBin(v ssa.Value, op token.Token) (ssa.Value, int64, bool) {
	b, ok := HtmStrip(v).(*ssa.BinOp)
	if !ok || b.Op != op {
		return nil, 0, false
	}
	if k, ok := HtmConstInt(b.Y); ok {
		return b.X, k, true
	}
	switch op {
	case token.ADD, token.MUL, token.AND, token.OR, token.XOR:
		if k, ok := HtmConstInt(b.X); ok {
			return b.Y, k, true
		}
	}
	return nil, 0, false
}

// HtmEach calls f for every instruction of fn (closures excluded).
func HtmEach(fn *ssa.Function, f func(ssa.Instruction)) { eachInstr(fn, f) }

// HtmEachDeep calls f for every instruction of fn and of its nested closures.
func HtmEachDeep(fn *ssa.Function, f func(*ssa.Function, ssa.Instruction)) {
	for _, g := range Closures(fn) {
		g := g
		eachInstr(g, func(in ssa.Instruction) { f(g, in) })
	}
}

// HtmBlockReaches reports whether some instruction of targets is reachable
// starting at the first instruction of block b.
func HtmBlockReaches(b *ssa.BasicBlock, targets []ssa.Instruction) bool {
	if len(b.Instrs) == 0 {
		return false
	}
	_, ok := canReach(ipos{b, 0}, true, instrSet(targets), nil)
	return ok
}

// HtmReachesAfter reports whether a target is reachable strictly after in.
func HtmReachesAfter(in ssa.Instruction, targets []ssa.Instruction) bool {
	_, ok := canReach(posOf(in), false, instrSet(targets), nil)
	return ok
}

// HtmFieldPath returns the chain of field names addressed by addr, outermost
// first (e.g. ["raw","start"] for &z.raw.start), and the root value the chain
// starts from. Array/slice indexing steps are rendered as "[]".
func HtmFieldPath(addr ssa.Value) ([]string, ssa.Value) {
	var path []string
	v := addr
	for {
		switch x := v.(type) {
		case *ssa.FieldAddr:
			path = append([]string{fieldName(x.X.Type(), x.Field)}, path...)
			v = x.X
			continue
		case *ssa.IndexAddr:
			path = append([]string{"[]"}, path...)
			v = x.X
			continue
		case *ssa.UnOp:
			if x.Op == token.MUL {
				// load of a slice/pointer held in a field: z.attr[i] goes through a load of z.attr
				if _, ok := x.X.(*ssa.FieldAddr); ok {
					v = x.X
					continue
				}
			}
		}
		return path, v
	}
}

// HtmStore is a store whose address is a field path below a value of the named struct type.
type HtmStore struct {
	Fn    *ssa.Function // innermost function containing the store
	Outer string        // name of the outermost enclosing source function
	Path  string        // "raw.start"
	St    *ssa.Store
}

// HtmStoresUnder lists every store in the program whose address is a field
// path rooted at a value of type *T (T = "pkg.Type"); path elements are joined
// with ".".
func (p *Prog) HtmStoresUnder(typeQ string) []HtmStore {
	obj := p.Object(typeQ)
	if obj == nil {
		return nil
	}
	var out []HtmStore
	for _, fn := range p.All {
		fn := fn
		eachInstr(fn, func(in ssa.Instruction) {
			st, ok := in.(*ssa.Store)
			if !ok {
				return
			}
			path, root := HtmFieldPath(st.Addr)
			if len(path) == 0 {
				return
			}
			t := root.Type()
			if pt, ok := t.Underlying().(*types.Pointer); ok {
				t = pt.Elem()
			}
			if !types.Identical(t, obj.Type()) {
				return
			}
			out = append(out, HtmStore{fn, FnName(Outer(fn)), strings.Join(path, "."), st})
		})
	}
	return out
}

// HtmSubAddrEscapes lists instructions that take the address of the named
// field ("pkg.T.f") and use it other than for projecting to a sub-field,
// loading from it or storing to it (i.e. the address may be kept or passed on),
// plus whole-value stores to the field.
func (p *Prog) HtmSubAddrEscapes(field string) []ssa.Instruction {
	fv := p.Field(field)
	if fv == nil {
		return nil
	}
	var out []ssa.Instruction
	for _, fn := range p.All {
		eachInstr(fn, func(in ssa.Instruction) {
			fa, ok := in.(*ssa.FieldAddr)
			if !ok || fieldOfAddr(fa) != fv {
				return
			}
			refs := fa.Referrers()
			if refs == nil {
				return
			}
			for _, r := range *refs {
				switch x := r.(type) {
				case *ssa.FieldAddr, *ssa.IndexAddr, *ssa.DebugRef:
					continue
				case *ssa.UnOp:
					if x.Op == token.MUL {
						continue
					}
				case *ssa.Store:
					if x.Addr == fa {
						out = append(out, r) // whole-value overwrite
						continue
					}
				}
				out = append(out, r)
			}
		})
	}
	return out
}

// HtmCase is one clause of an expression switch: the constant case values and
// the string constants assigned (or returned) in its body.
type HtmCase struct {
	Vals    []constant.Value
	Strs    []string // string literals assigned/returned/passed in the clause body
	Default bool
	Panics  bool
	Pos     token.Pos
	Clause  *ast.CaseClause
}

// HtmSwitches returns, for every expression switch with a tag in the syntax of
// fnName for which tagOK(tag) holds, its clauses.
func (p *Prog) HtmSwitches(fnName string, tagOK func(tag ast.Expr, info *types.Info) bool) [][]HtmCase {
	fn := p.Fn(fnName)
	if fn == nil || fn.Syntax() == nil {
		return nil
	}
	pk := p.PkgOfFn(fn)
	var out [][]HtmCase
	ast.Inspect(fn.Syntax(), func(n ast.Node) bool {
		sw, ok := n.(*ast.SwitchStmt)
		if !ok || sw.Tag == nil || !tagOK(sw.Tag, pk.TypesInfo) {
			return true
		}
		var cases []HtmCase
		for _, cl := range sw.Body.List {
			cc := cl.(*ast.CaseClause)
			hc := HtmCase{Default: cc.List == nil, Pos: cc.Pos(), Clause: cc}
			for _, e := range cc.List {
				if tv, ok := pk.TypesInfo.Types[e]; ok && tv.Value != nil {
					hc.Vals = append(hc.Vals, tv.Value)
				}
			}
			for _, st := range cc.Body {
				ast.Inspect(st, func(m ast.Node) bool {
					switch x := m.(type) {
					case *ast.SwitchStmt:
						return false // nested switch has its own clauses
					case *ast.BasicLit:
						if x.Kind == token.STRING {
							if tv, ok := pk.TypesInfo.Types[x]; ok && tv.Value != nil && tv.Value.Kind() == constant.String {
								hc.Strs = append(hc.Strs, constant.StringVal(tv.Value))
							}
						}
					case *ast.CallExpr:
						if id, ok := x.Fun.(*ast.Ident); ok && id.Name == "panic" {
							if _, isBuiltin := pk.TypesInfo.Uses[id].(*types.Builtin); isBuiltin {
								hc.Panics = true
								return false
							}
						}
					}
					return true
				})
			}
			cases = append(cases, hc)
		}
		out = append(out, cases)
		return true
	})
	return out
}

// HtmIsIndexOf reports whether tag is an index expression x[i] whose base has a string or byte-slice type.
func HtmIsIndexOf(tag ast.Expr, info *types.Info) bool {
	ix, ok := tag.(*ast.IndexExpr)
	if !ok {
		return false
	}
	t := info.TypeOf(ix.X)
	if t == nil {
		return false
	}
	switch u := t.Underlying().(type) {
	case *types.Basic:
		return u.Info()&types.IsString != 0
	case *types.Slice:
		b, ok := u.Elem().Underlying().(*types.Basic)
		return ok && b.Kind() == types.Byte
	}
	return false
}

// HtmMapLit reads a package-level map[string]T composite literal into key -> value expression.
func (p *Prog) HtmMapLit(q string) (map[string]ast.Expr, bool) {
	e, pk := p.VarDecl(q)
	if e == nil {
		return nil, false
	}
	out := map[string]ast.Expr{}
	for _, el := range Elts(e) {
		k, v := KV(el)
		if k == nil {
			return nil, false
		}
		ks, ok := StrOf(pk, k)
		if !ok {
			return nil, false
		}
		out[ks] = v
	}
	return out, true
}

// HtmDeferredRecover describes a `defer func(){ ... recover() ... }()` in fn.
type HtmDeferredRecover struct {
	Defer   *ssa.Defer
	Closure *ssa.Function
	// Guarded: the closure stores to a captured variable only under `recover() != nil`.
	StoresNamedResult bool
}

// HtmDeferredRecovers lists the defers of fn whose closure calls recover() directly.
func HtmDeferredRecovers(fn *ssa.Function) []HtmDeferredRecover {
	var out []HtmDeferredRecover
	eachInstr(fn, func(in ssa.Instruction) {
		d, ok := in.(*ssa.Defer)
		if !ok {
			return
		}
		var cl *ssa.Function
		switch f := d.Call.Value.(type) {
		case *ssa.MakeClosure:
			cl, _ = f.Fn.(*ssa.Function)
		case *ssa.Function:
			cl = f
		}
		if cl == nil {
			return
		}
		rec := false
		stores := false
		eachInstr(cl, func(x ssa.Instruction) {
			if c, ok := x.(*ssa.Call); ok {
				if b, ok := c.Call.Value.(*ssa.Builtin); ok && b.Name() == "recover" {
					rec = true
				}
			}
			if st, ok := x.(*ssa.Store); ok {
				if _, ok := st.Addr.(*ssa.FreeVar); ok {
					stores = true
				}
			}
		})
		if rec {
			out = append(out, HtmDeferredRecover{d, cl, stores})
		}
	})
	return out
}

// HtmCallees returns the repo functions that fn (including its closures) may
// call or reference directly: static callees, closures made, function values
// mentioned. Interface dispatch is resolved as in Reachable for repo interfaces.
func (p *Prog) HtmCallees(fn *ssa.Function) map[*ssa.Function][]ssa.Instruction {
	out := map[*ssa.Function][]ssa.Instruction{}
	add := func(f *ssa.Function, in ssa.Instruction) {
		if f == nil {
			return
		}
		if _, ok := p.Funcs[FnName(f)]; !ok {
			if o := f.Origin(); o != nil {
				f = o
			}
			if _, ok := p.Funcs[FnName(f)]; !ok {
				return
			}
		}
		out[f] = append(out[f], in)
	}
	eachInstr(fn, func(in ssa.Instruction) {
		if ci, ok := in.(ssa.CallInstruction); ok {
			if sc := ci.Common().StaticCallee(); sc != nil {
				add(sc, in)
			}
		}
		for _, op := range in.Operands(nil) {
			if *op == nil {
				continue
			}
			switch x := (*op).(type) {
			case *ssa.Function:
				add(x, in)
			case *ssa.MakeClosure:
				if f, ok := x.Fn.(*ssa.Function); ok {
					add(f, in)
				}
			}
		}
	})
	return out
}
