package core

import (
	"fmt"
	"go/token"
	"strings"

	"golang.org/x/tools/go/ssa"
)

// Helpers for C29: callee summaries on enumerated paths.
//
// A gate method may be written in terms of another gate method (waitAndLock's
// fast path is lockIfSet). On an enumerated path such a call is an event whose
// effect depends on the call's result; the path itself records which way the
// branch on that result went.

// Q29BoolEdge reports which way path x went at the branches that test the
// boolean result of the call event ev: +1 the result was true, -1 it was
// false, 0 the path never branches on it (the effect of the call is then not
// determined by the path). feasible is false when the path takes the true
// edge of one test and the false edge of another test of the same value: no
// execution follows such a path.
func Q29BoolEdge(x *XPath, ev XEvent) (edge int, feasible bool) {
	call, ok := ev.In.(*ssa.Call)
	if !ok {
		return 0, true
	}
	return q29Edge(x, func(cond ssa.Value) (match, truth bool) {
		neg := false
		for {
			u, ok := cond.(*ssa.UnOp)
			if !ok || u.Op != token.NOT {
				break
			}
			cond, neg = x.Resolve(u.X), !neg
		}
		if cond != ssa.Value(call) {
			return false, false
		}
		return true, !neg
	})
}

// Q29NilEdge is Q29BoolEdge for a call whose (first) result is compared with
// nil: +1 the result was nil, -1 it was non-nil, 0 not tested on the path.
func Q29NilEdge(x *XPath, ev XEvent) (edge int, feasible bool) {
	call, ok := ev.In.(*ssa.Call)
	if !ok {
		return 0, true
	}
	return q29Edge(x, func(cond ssa.Value) (match, truth bool) {
		neg := false
		for {
			u, ok := cond.(*ssa.UnOp)
			if !ok || u.Op != token.NOT {
				break
			}
			cond, neg = x.Resolve(u.X), !neg
		}
		bo, ok := cond.(*ssa.BinOp)
		if !ok || bo.Op != token.EQL && bo.Op != token.NEQ {
			return false, false
		}
		l, r := x.Resolve(bo.X), x.Resolve(bo.Y)
		if !(isResultOf(l, call) && isNilConst(r) || isResultOf(r, call) && isNilConst(l)) {
			return false, false
		}
		return true, (bo.Op == token.EQL) != neg
	})
}

// q29Edge scans the branches taken by x; classify says whether a branch
// condition tests the value of interest and what the condition being true
// means for it.
func q29Edge(x *XPath, classify func(cond ssa.Value) (match, truth bool)) (edge int, feasible bool) {
	feasible = true
	for i := 0; i+1 < len(x.Blocks); i++ {
		b := x.Blocks[i]
		if len(b.Instrs) == 0 {
			continue
		}
		ifi, ok := b.Instrs[len(b.Instrs)-1].(*ssa.If)
		if !ok || len(b.Succs) != 2 || b.Succs[0] == b.Succs[1] {
			continue
		}
		match, truth := classify(x.Resolve(ifi.Cond))
		if !match {
			continue
		}
		var e int
		switch x.Blocks[i+1] {
		case b.Succs[0]:
			e = 1
		case b.Succs[1]:
			e = -1
		default:
			continue
		}
		if !truth {
			e = -e
		}
		if edge != 0 && edge != e {
			feasible = false
		}
		if edge == 0 {
			edge = e
		}
	}
	return edge, feasible
}

// q29ChanObj maps a channel term to the lock object it carries the token of
// ("$r.set" -> "$r" when "set" is one of the token channel fields).
func q29ChanObj(on string, chanFields []string) (string, bool) {
	for _, f := range chanFields {
		if strings.HasSuffix(on, "."+f) {
			return strings.TrimPrefix(strings.TrimSuffix(on, "."+f), "&"), true
		}
	}
	return "", false
}

// Q29LockBalancedPaths is the acquire/release typestate of XLockBalanced
// evaluated on the enumerated paths of a loop-free function, for functions
// that mix primitive token-channel operations with calls of table operations
// (a lock primitive written in terms of another primitive):
//
//   - a receive from obj.<chanField> acquires obj, a send to it releases obj;
//   - a call of a table operation has the table's effect; a conditional
//     acquire takes effect according to the edge the path took at the test of
//     the call's result (no test on the path: the state is not determined, a
//     violation);
//   - never a double acquire, never a release of an object not held;
//   - at a return, after the deferred releases of the path ran, exactly
//     expect(path) is held. expect may depend on the value returned on that
//     path; it returns why != "" when the returned value does not determine
//     the expected state.
//
// Paths ending in panic are not constrained (as in XLockBalanced).
func (c *Ctx) Q29LockBalancedPaths(fnName, contract string, ops []XLockOp, chanFields []string, heldAtEntry []string, expect func(x *XPath) (held []string, why string)) bool {
	rule := "lock-typestate"
	construct := fnName + ": acquire/release balanced on every path (" + contract + ")"
	fn := c.MustFn(fnName)
	if fn == nil {
		return false
	}
	ps, cyc, trunc := XPaths(fn, 256)
	if cyc || trunc || len(ps) == 0 {
		c.Undecided(rule, construct, fmt.Sprintf("paths not enumerable (cyclic=%v truncated=%v paths=%d)", cyc, trunc, len(ps)))
		return false
	}
	find := func(cc *ssa.CallCommon) *XLockOp {
		for i := range ops {
			if matchCallee(cc, []string{ops[i].Callee}) {
				return &ops[i]
			}
		}
		return nil
	}
	nOps, nPaths := 0, 0
	for _, x := range ps {
		st := lockState{}
		for _, h := range heldAtEntry {
			st[h] = 1
		}
		deferred := lockState{}
		fail := ""
		var failPos token.Pos
		setFail := func(in ssa.Instruction, msg string) {
			if fail == "" {
				fail, failPos = msg, InstrPos(in)
			}
		}
		acquire := func(in ssa.Instruction, o string) {
			if st[o] > 0 {
				setFail(in, "double acquire of "+o)
			}
			st[o]++
		}
		release := func(in ssa.Instruction, o string) {
			if st[o] <= 0 {
				setFail(in, "release of "+o+" which is not held on this path")
			}
			st[o]--
		}
		infeasible := false
		for _, ev := range x.Events {
			switch ev.Kind {
			case "recv":
				if o, ok := q29ChanObj(ev.On, chanFields); ok {
					nOps++
					acquire(ev.In, o)
				}
			case "send":
				if o, ok := q29ChanObj(ev.On, chanFields); ok {
					nOps++
					release(ev.In, o)
				}
			case "go":
				ci := ev.In.(ssa.CallInstruction)
				if find(ci.Common()) != nil {
					setFail(ev.In, "lock operation in a go statement is not modelled")
				}
			case "defer":
				ci := ev.In.(ssa.CallInstruction)
				op := find(ci.Common())
				if op == nil {
					continue
				}
				nOps++
				if op.Kind != "rel" {
					setFail(ev.In, "deferred acquire is not modelled")
					continue
				}
				for _, o := range xLockObjs(ev.In, ci.Common(), op) {
					deferred[o]++
				}
			case "call":
				ci := ev.In.(ssa.CallInstruction)
				op := find(ci.Common())
				if op == nil {
					continue
				}
				nOps++
				objs := xLockObjs(ev.In, ci.Common(), op)
				switch op.Kind {
				case "acq", "acq-result":
					for _, o := range objs {
						acquire(ev.In, o)
					}
				case "rel":
					for _, o := range objs {
						release(ev.In, o)
					}
				case "acq-if-true", "acq-if-nil":
					var edge int
					var feas bool
					if op.Kind == "acq-if-true" {
						edge, feas = Q29BoolEdge(x, ev)
					} else {
						edge, feas = Q29NilEdge(x, ev)
					}
					if !feas {
						infeasible = true
						continue
					}
					switch edge {
					case 1:
						for _, o := range objs {
							acquire(ev.In, o)
						}
					case -1:
						for _, o := range objs {
							if st[o] > 0 {
								setFail(ev.In, "double acquire of "+o)
							}
						}
					default:
						setFail(ev.In, "conditional acquire of "+strings.Join(objs, ",")+" whose result is not tested on this path")
					}
				default:
					setFail(ev.In, "unknown lock operation kind "+op.Kind)
				}
			}
		}
		if infeasible {
			continue
		}
		nPaths++
		if _, isRet := x.Exit.(*ssa.Return); isRet && fail == "" {
			got := st.clone()
			for o, v := range deferred {
				if v > 0 {
					got[o] -= v
					if got[o] < 0 {
						setFail(x.Exit, "deferred release of "+o+" which is not held at this return")
					}
				}
			}
			held, why := expect(x)
			if fail == "" && why != "" {
				setFail(x.Exit, why)
			}
			want := lockState{}
			for _, h := range held {
				want[h] = 1
			}
			if fail == "" && got.String() != want.String() {
				setFail(x.Exit, fmt.Sprintf("return %s with lock state %s, expected %s", x.Ret(0), got, want))
			}
		}
		if fail != "" {
			c.Fail(rule, construct, failPos, fail)
			return false
		}
	}
	if nOps == 0 || nPaths == 0 {
		c.Undecided(rule, construct, "no acquire/release operation found in this function")
		return false
	}
	c.Stats["lock_ops"] += nOps
	c.OK(rule, construct, fmt.Sprintf("%d path(s)", nPaths))
	return true
}
