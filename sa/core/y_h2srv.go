package core

import (
	"fmt"

	"golang.org/x/tools/go/ssa"
)

// Leaf expansion of call arguments.
//
// `if c { a.f(n) } else { b.f(n) }` and `x := b; if c { x = a }; x.f(n)` are the same
// behaviour: the second form hands the callee a merge of a and b. A rule that speaks
// about "which object is operated on under which condition" therefore looks at the
// leaves of the argument: the argument itself, or — when it is an if/else merge —
// every incoming value together with the branch facts of the edge it arrives on
// (the facts of the call site hold on each of them too). This is StoreLeaves for
// call arguments.

// HsArgLeaf is one value argument Idx of Call can have, with the facts that hold
// whenever it has that value.
type HsArgLeaf struct {
	Call  ssa.Instruction
	Val   ssa.Value
	Facts []Fact
}

// HsArgLeaves expands argument idx (receiver counts) of the selected calls into leaves.
func HsArgLeaves(p *Prog, fn *ssa.Function, sel Sel, idx int) []HsArgLeaf {
	var out []HsArgLeaf
	for _, in := range sel.F(p, fn) {
		ci, ok := in.(ssa.CallInstruction)
		if !ok || idx >= len(BaselineArgs(ci.Common())) {
			continue
		}
		var expand func(v ssa.Value, fs []Fact, depth int)
		expand = func(v ssa.Value, fs []Fact, depth int) {
			ph, isPhi := v.(*ssa.Phi)
			if !isPhi || depth > 4 {
				out = append(out, HsArgLeaf{in, v, fs})
				return
			}
			dead := DeadBlocks(fn)
			for i, e := range ph.Edges {
				if i >= len(ph.Block().Preds) || dead[ph.Block().Preds[i]] {
					continue
				}
				ef := edgeFacts_h2server(ph.Block().Preds[i], ph.Block())
				expand(e, append(append([]Fact{}, fs...), ef...), depth+1)
			}
		}
		expand(BaselineArgs(ci.Common())[idx], FactsAtInstr(in), 0)
	}
	return out
}

// HsHolds reports whether atom a is among (exact) or implied by the facts.
func HsHolds(fs []Fact, a Atom, exact bool) bool { return holds(fs, a, exact) }

// HsFactStrings renders facts for a diagnostic.
func HsFactStrings(fs []Fact) string { return factStrings(fs) }

// HsArgUnder: argument idx of the selected calls takes only the listed values (rendered
// terms), each only where its guard atom is established ("" for none), and every listed
// value occurs. A merged argument counts once per incoming value, with the facts of that
// edge, so a call per branch and one call on a conditionally chosen operand are the same to it.
func (c *Ctx) HsArgUnder(fnName string, sel Sel, idx int, table map[string]string) bool {
	rule := "arg-under"
	construct := fmt.Sprintf("%s: arg%d of [%s] is one of the listed values, each under its guard", fnName, idx, sel.Name)
	fn := c.MustFn(fnName)
	if fn == nil {
		return false
	}
	leaves := HsArgLeaves(c.P, fn, sel, idx)
	if len(leaves) == 0 {
		c.Undecided(rule, construct, "no such site in this function")
		return false
	}
	seen := map[string]bool{}
	for _, l := range leaves {
		t := Term(l.Val)
		guard, listed := table[t]
		if !listed {
			c.Fail(rule, construct, InstrPos(l.Call), "`"+DescribeInstr(l.Call)+"`: the argument can be `"+t+"`, which is not one of the listed values")
			return false
		}
		seen[t] = true
		if guard == "" {
			continue
		}
		a, err := c.P.ParseAtom(guard)
		if err != nil {
			c.Undecided(rule, construct, "bad spec "+guard+": "+err.Error())
			return false
		}
		if !holds(l.Facts, a, false) {
			c.Fail(rule, construct, InstrPos(l.Call), "`"+DescribeInstr(l.Call)+"`: the argument is `"+t+"` without "+a.String()+" being established; facts on that path: {"+factStrings(l.Facts)+"}")
			return false
		}
	}
	for t := range table {
		if !seen[t] {
			c.Fail(rule, construct, fn.Pos(), "no call is ever handed `"+t+"`")
			return false
		}
	}
	c.OK(rule, construct, fmt.Sprintf("%d value(s) on %d path(s)", len(table), len(leaves)))
	return true
}

// HsStoreLeaves is StoreLeaves with a stop predicate: a merge for which atomic(v) holds is a
// leaf itself (a loop-carried cursor the rule speaks about as one value) and is not expanded.
func HsStoreLeaves(p *Prog, fn *ssa.Function, sel Sel, atomic func(ssa.Value) bool) []StoreLeaf {
	var out []StoreLeaf
	dead := DeadBlocks(fn)
	for _, in := range sel.F(p, fn) {
		st, ok := in.(*ssa.Store)
		if !ok {
			continue
		}
		var expand func(v ssa.Value, fs []Fact, depth int)
		expand = func(v ssa.Value, fs []Fact, depth int) {
			ph, isPhi := v.(*ssa.Phi)
			if !isPhi || depth > 4 || atomic != nil && atomic(v) {
				out = append(out, StoreLeaf{in, v, fs})
				return
			}
			for i, e := range ph.Edges {
				if i >= len(ph.Block().Preds) || dead[ph.Block().Preds[i]] {
					continue
				}
				ef := edgeFacts_h2server(ph.Block().Preds[i], ph.Block())
				expand(e, append(append([]Fact{}, fs...), ef...), depth+1)
			}
		}
		expand(st.Val, FactsAtInstr(in), 0)
	}
	return out
}

// hsReachableUnder is ReachableUnder with barriers: instructions of barriers end the path
// they are on. It reports a target reached from the entry of fn along a path none of whose
// branch edges is unsatisfiable together with an atom of assume and that passes no barrier.
func hsReachableUnder(fn *ssa.Function, assume []Atom, targets, barriers map[ssa.Instruction]bool) (ssa.Instruction, bool) {
	if len(fn.Blocks) == 0 {
		return nil, false
	}
	type key struct{ b, pred *ssa.BasicBlock }
	seen := map[key]bool{}
	var hit ssa.Instruction
	var run func(b, pred *ssa.BasicBlock)
	run = func(b, pred *ssa.BasicBlock) {
		if hit != nil || seen[key{b, pred}] {
			return
		}
		seen[key{b, pred}] = true
		for _, in := range b.Instrs {
			if barriers[in] {
				return
			}
			if targets[in] {
				hit = in
				return
			}
		}
		if len(b.Instrs) == 0 {
			return
		}
		ifi, ok := b.Instrs[len(b.Instrs)-1].(*ssa.If)
		if !ok {
			for _, s := range b.Succs {
				run(s, b)
			}
			return
		}
		if t, known := threadIf(ifi, pred); known {
			if t {
				run(b.Succs[0], b)
			} else {
				run(b.Succs[1], b)
			}
			return
		}
		a, constant, val := branchAtom(ifi, pred)
		for k, s := range b.Succs {
			if constant {
				if (k == 0) != val {
					continue
				}
			} else {
				e := a
				if k == 1 {
					e = a.Negate()
				}
				pruned := false
				for _, as := range assume {
					if Unsat(e, as) {
						pruned = true
					}
				}
				if pruned {
					continue
				}
			}
			run(s, b)
		}
	}
	run(fn.Blocks[0], nil)
	return hit, hit != nil
}

// HsPassThroughUnder: on every path from the entry of fn to a normal return that is consistent
// with the assumed atoms a `through` site is passed ("when cond holds, the action happens").
// It is the converse of Guard ("the action happens only when cond holds") and, unlike
// PassThroughIncl(c.Edge(cond), ...), does not need a branch testing exactly cond: a test
// that lets some value satisfying cond slip past the action is reported. The assumed atoms
// must speak about values that do not change before the `through` site is reached.
func (c *Ctx) HsPassThroughUnder(fnName string, assume []string, through Sel) bool {
	rule := "pass-through-under"
	construct := fmt.Sprintf("%s: when %s always [%s]", fnName, stripSpaces(fmt.Sprint(assume)), through.Name)
	fn := c.MustFn(fnName)
	if fn == nil {
		return false
	}
	as, good := c.atoms(rule, construct, assume)
	if !good {
		return false
	}
	barriers := through.F(c.P, fn)
	if len(barriers) == 0 {
		c.Undecided(rule, construct, "no such site in this function")
		return false
	}
	rets := instrSet(Returns().F(c.P, fn))
	if r, reach := hsReachableUnder(fn, as, rets, instrSet(barriers)); reach {
		c.Fail(rule, construct, InstrPos(r), fmt.Sprintf("the return at %s is reachable under %s without [%s]", c.P.Pos(InstrPos(r)), atomList(as), through.Name))
		return false
	}
	c.OK(rule, construct, fmt.Sprintf("%d site(s)", len(barriers)))
	return true
}
