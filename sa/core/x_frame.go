package core

import (
	"fmt"
	"go/ast"
	"go/constant"
	"go/token"
	"go/types"
	"sort"
	"strings"

	"golang.org/x/tools/go/packages"
	"golang.org/x/tools/go/ssa"
)

// ---------------------------------------------------------------------------
// Predicate-based variants of Guard / Reject. An AtomPred accepts a set of
// canonical atoms, so that one rule can accept alternative but equivalent
// formulations (fh.StreamID read through the parameter or through the frame
// being built) or quantify over compiler-chosen names.

// AtomPred is a named predicate over canonical branch atoms.
type AtomPred struct {
	Desc string
	F    func(Atom) bool
}

// AtomIs accepts exactly the atoms written as specs (any of them).
func (c *Ctx) AtomIs(specs ...string) AtomPred {
	var as []Atom
	var names []string
	bad := ""
	for _, s := range specs {
		a, err := c.P.ParseAtom(s)
		if err != nil {
			bad = s + ": " + err.Error()
			continue
		}
		as = append(as, a)
		names = append(names, stripSpaces(s))
	}
	desc := strings.Join(names, " or ")
	if bad != "" {
		desc = "BAD SPEC " + bad
		as = nil
	}
	return AtomPred{desc, func(a Atom) bool {
		for _, s := range as {
			if SameAtom(a, s) {
				return true
			}
		}
		return false
	}}
}

// AtomLike accepts atoms of the given kind (LE, EQ, NE, TRUE, FALS) whose
// linear form satisfies f.
func AtomLike(desc, kind string, f func(l Lin) bool) AtomPred {
	return AtomPred{desc, func(a Atom) bool {
		a = a.norm()
		return a.Kind == kind && f(a.L)
	}}
}

// LinTerms returns the terms of l sorted, with their coefficients.
func LinTerms(l Lin) ([]string, []int64) {
	var ts []string
	for t := range l.Coef {
		ts = append(ts, t)
	}
	sort.Strings(ts)
	cs := make([]int64, len(ts))
	for i, t := range ts {
		cs[i] = l.Coef[t]
	}
	return ts, cs
}

func xfPredNames(ps []AtomPred) string {
	var ss []string
	for _, p := range ps {
		ss = append(ss, p.Desc)
	}
	return strings.Join(ss, " && ")
}

// RejectP is Reject with predicate atoms: some branch edge carries a fact
// matching every predicate (the edge's own condition matching one of them),
// no selected site is reachable from it, and the outermost deciding test
// dominates every site.
func (c *Ctx) RejectP(fnName string, sel Sel, preds ...AtomPred) bool {
	rule := "reject-before"
	construct := fmt.Sprintf("%s: when %s never [%s]", fnName, xfPredNames(preds), sel.Name)
	fn, ins := c.sites(rule, fnName, sel)
	if ins == nil {
		return false
	}
	type cand struct {
		succ  *ssa.BasicBlock
		outer *ssa.If
	}
	var cands []cand
	for _, blk := range fn.Blocks {
		if len(blk.Instrs) == 0 {
			continue
		}
		ifi, ok := blk.Instrs[len(blk.Instrs)-1].(*ssa.If)
		if !ok {
			continue
		}
		base := FactsAt(blk)
		ca := CondAtom(ifi.Cond)
		for k, edgeAtom := range []Atom{ca, ca.Negate()} {
			fs := append(append([]Fact{}, base...), Fact{edgeAtom, ifi})
			all := true
			own := false
			var outer *ssa.If
			for _, p := range preds {
				hit := false
				for _, f := range fs {
					if p.F(f.Atom) {
						hit = true
						if outer == nil || f.If.Block().Dominates(outer.Block()) {
							outer = f.If
						}
						break
					}
				}
				if !hit {
					all = false
					break
				}
				if p.F(edgeAtom) {
					own = true
				}
			}
			if all && own {
				cands = append(cands, cand{blk.Succs[k], outer})
			}
		}
	}
	if len(cands) == 0 {
		c.Fail(rule, construct, fn.Pos(), "no branch in this function establishes {"+xfPredNames(preds)+"}; branch conditions present: "+c.condSummary(fn))
		return false
	}
	for _, in := range ins {
		ok := false
		why := ""
		for _, cd := range cands {
			if _, reach := canReach(ipos{cd.succ, 0}, true, map[ssa.Instruction]bool{in: true}, nil); reach {
				why = fmt.Sprintf("the branch where %s holds still reaches `%s`", xfPredNames(preds), DescribeInstr(in))
				continue
			}
			if !cd.outer.Block().Dominates(in.Block()) {
				if why == "" {
					why = fmt.Sprintf("site `%s` is reachable without passing the test", DescribeInstr(in))
				}
				continue
			}
			ok = true
			break
		}
		if !ok {
			c.Fail(rule, construct, InstrPos(in), why)
			return false
		}
	}
	c.OK(rule, construct, fmt.Sprintf("%d rejecting edge(s); %d site(s)", len(cands), len(ins)))
	return true
}

// GuardP: every selected site is dominated by a branch edge whose fact
// matches pred (one obligation per predicate).
func (c *Ctx) GuardP(fnName string, sel Sel, preds ...AtomPred) bool {
	rule := "guard-before"
	_, ins := c.sites(rule, fnName, sel)
	if ins == nil {
		return false
	}
	ok := true
	for _, p := range preds {
		construct := fmt.Sprintf("%s: [%s] under %s", fnName, sel.Name, p.Desc)
		var bad ssa.Instruction
		for _, in := range ins {
			hit := false
			for _, f := range FactsAtInstr(in) {
				if p.F(f.Atom) {
					hit = true
					break
				}
			}
			if !hit {
				bad = in
				break
			}
		}
		if bad != nil {
			ok = false
			c.Fail(rule, construct, InstrPos(bad), fmt.Sprintf("site `%s` is not dominated by a branch establishing %s; facts here: {%s}",
				DescribeInstr(bad), p.Desc, factStrings(FactsAtInstr(bad))))
		} else {
			c.OK(rule, construct, fmt.Sprintf("%d site(s)", len(ins)))
		}
	}
	return ok
}

// UnderP keeps the sites of sel that are dominated by a fact matching pred.
func (s Sel) UnderP(pred AtomPred) Sel {
	return s.Where("under "+pred.Desc, func(in ssa.Instruction) bool {
		for _, f := range FactsAtInstr(in) {
			if pred.F(f.Atom) {
				return true
			}
		}
		return false
	})
}

// ---------------------------------------------------------------------------
// Selectors for variables that are not struct fields.

// VarOfAddr names the local or captured variable an address denotes ("" if none).
func VarOfAddr(v ssa.Value) string {
	switch x := v.(type) {
	case *ssa.FreeVar:
		return x.Name()
	case *ssa.Alloc:
		return allocName(x)
	}
	return ""
}

// StoresVar selects stores to the captured or address-taken local variable name.
func StoresVar(name string) Sel {
	return Sel{"store var " + name, func(p *Prog, fn *ssa.Function) []ssa.Instruction {
		var out []ssa.Instruction
		eachInstr(fn, func(in ssa.Instruction) {
			if s, ok := in.(*ssa.Store); ok && VarOfAddr(s.Addr) == name {
				out = append(out, in)
			}
		})
		return out
	}}
}

// RetNil is RetOK that also understands functions with defers, where go/ssa
// spills the results into locals: there the site is the store of a nil error
// into the error result that the return statement then loads.
func RetNil() Sel {
	return Sel{"return <nil error>", func(p *Prog, fn *ssa.Function) []ssa.Instruction {
		res := fn.Signature.Results()
		ei := -1
		for i := 0; i < res.Len(); i++ {
			if isErrorType(res.At(i).Type()) {
				ei = i
			}
		}
		if ei < 0 {
			return nil
		}
		var out []ssa.Instruction
		seen := map[ssa.Instruction]bool{}
		eachInstr(fn, func(in ssa.Instruction) {
			r, ok := in.(*ssa.Return)
			if !ok {
				return
			}
			switch x := r.Results[ei].(type) {
			case *ssa.Const:
				if x.Value == nil && !seen[in] {
					seen[in] = true
					out = append(out, in)
				}
			case *ssa.UnOp:
				a, ok := x.X.(*ssa.Alloc)
				if !ok || x.Op != token.MUL || a.Referrers() == nil {
					return
				}
				for _, ref := range *a.Referrers() {
					st, ok := ref.(*ssa.Store)
					if !ok || st.Addr != a || seen[st] {
						continue
					}
					if cst, ok := st.Val.(*ssa.Const); ok && cst.Value == nil {
						seen[st] = true
						out = append(out, st)
					}
				}
			}
		})
		return out
	}}
}

// ---------------------------------------------------------------------------
// ErrTestedBefore: the error result of every selected call is tested against nil,
// the non-nil branch never reaches an `ok` site, and no path from the call to
// an `ok` site avoids the test. errIdx < 0: the call's only result is the error.
func (c *Ctx) ErrTestedBefore(fnName string, calls Sel, errIdx int, ok Sel) bool {
	rule := "error-checked"
	construct := fmt.Sprintf("%s: error of [%s] tested before [%s]", fnName, calls.Name, ok.Name)
	fn, ins := c.sites(rule, fnName, calls)
	if ins == nil {
		return false
	}
	oks := ok.F(c.P, fn)
	if len(oks) == 0 {
		c.Undecided(rule, construct, "no ["+ok.Name+"] site in this function")
		return false
	}
	for _, in := range ins {
		v, isVal := in.(ssa.Value)
		if !isVal {
			c.Undecided(rule, construct, "selected site has no result")
			return false
		}
		term := Term(v)
		if errIdx >= 0 {
			term = fmt.Sprintf("%s#%d", term, errIdx)
		}
		ne := Atom{Kind: NE, L: Lin{Coef: map[string]int64{term: 1}}}.norm()
		// tests of this error
		var tests []*ssa.If
		eachInstr(fn, func(x ssa.Instruction) {
			if ifi, isIf := x.(*ssa.If); isIf {
				ca := CondAtom(ifi.Cond)
				if SameAtom(ca, ne) || SameAtom(ca.Negate(), ne) {
					tests = append(tests, ifi)
				}
			}
		})
		for _, site := range oks {
			if _, reach := canReach(posOf(in), false, map[ssa.Instruction]bool{site: true}, nil); !reach {
				continue
			}
			good := false
			for _, ifi := range tests {
				k := 0 // successor on which err != nil
				if !SameAtom(CondAtom(ifi.Cond), ne) {
					k = 1
				}
				if _, r := canReach(ipos{ifi.Block().Succs[k], 0}, true, map[ssa.Instruction]bool{site: true}, nil); r {
					continue
				}
				if _, r := canReach(posOf(in), false, map[ssa.Instruction]bool{site: true}, map[ssa.Instruction]bool{ifi: true}); r {
					continue
				}
				good = true
				break
			}
			if !good {
				c.Fail(rule, construct, InstrPos(in), fmt.Sprintf("`%s` reaches `%s` without a test %s != nil that excludes it", DescribeInstr(in), DescribeInstr(site), term))
				return false
			}
		}
	}
	c.OK(rule, construct, fmt.Sprintf("%d call(s), %d success site(s)", len(ins), len(oks)))
	return true
}

// SubtractiveSlices selects slice expressions x[..:h] whose upper bound is a
// difference (a term with a negative coefficient), the shape of "strip n
// trailing bytes".
func SubtractiveSlices() Sel {
	return Sel{"slice with subtractive upper bound", func(p *Prog, fn *ssa.Function) []ssa.Instruction {
		var out []ssa.Instruction
		eachInstr(fn, func(in ssa.Instruction) {
			s, ok := in.(*ssa.Slice)
			if !ok || s.High == nil {
				return
			}
			l := Linearize(s.High)
			for _, k := range l.Coef {
				if k < 0 {
					out = append(out, in)
					return
				}
			}
		})
		return out
	}}
}

// SliceHighNonNeg: every selected slice is dominated by a branch that
// establishes (or implies) upper bound >= 0.
func (c *Ctx) SliceHighNonNeg(fnName string, sel Sel) bool {
	rule := "guard-before"
	construct := fmt.Sprintf("%s: [%s] under upper-bound >= 0", fnName, sel.Name)
	_, ins := c.sites(rule, fnName, sel)
	if ins == nil {
		return false
	}
	for _, in := range ins {
		s, ok := in.(*ssa.Slice)
		if !ok || s.High == nil {
			c.Undecided(rule, construct, "selected site is not a slice with an upper bound")
			return false
		}
		want := Atom{Kind: LE, L: Linearize(s.High).scale(-1)}
		if !holds(FactsAtInstr(in), want, false) {
			c.Fail(rule, construct, InstrPos(in), fmt.Sprintf("`%s` is not dominated by a branch establishing %s; facts here: {%s}", DescribeInstr(in), want, factStrings(FactsAtInstr(in))))
			return false
		}
	}
	c.OK(rule, construct, fmt.Sprintf("%d site(s)", len(ins)))
	return true
}

// ---------------------------------------------------------------------------
// A small evaluator for scalar predicates, run on the syntax tree. It
// understands constants, parameters, comparisons, boolean connectives,
// integer arithmetic with the static type's wrap-around, conversions between
// integer types, lookups in package-level table literals, slices.Contains on
// a literal, calls of repository functions that are themselves evaluable, and
// the statements return / if / const / := / ++. Anything else is an error
// ("undecided"). Strings are abstract: a string parameter has a length and
// one element value that every index expression on it yields.

// Scalar is an integer or boolean value.
type Scalar struct {
	IsBool bool
	B      bool
	I      int64
}

func (s Scalar) String() string {
	if s.IsBool {
		return fmt.Sprint(s.B)
	}
	return fmt.Sprint(s.I)
}

// Int and Bool build scalars.
func Int(i int64) Scalar { return Scalar{I: i} }
func Bool(b bool) Scalar { return Scalar{IsBool: true, B: b} }

// AbsStr is an abstract string/[]byte argument.
type AbsStr struct {
	Len  int64
	Elem int64
}

// Env binds variables for the evaluator.
type Env struct {
	Vars map[types.Object]Scalar
	Strs map[types.Object]AbsStr
}

// NewEnv returns an empty environment.
func NewEnv() *Env { return evNewEnv() }

func evNewEnv() *Env { return &Env{Vars: map[types.Object]Scalar{}, Strs: map[types.Object]AbsStr{}} }

// Evaluator evaluates predicates of one program.
type Evaluator struct {
	P      *Prog
	tables map[types.Object]*evTableLit
	decls  map[string]*evDeclInfo
	depth  int
}

type evDeclInfo struct {
	d      *ast.FuncDecl
	pk     *packages.Package
	params []types.Object
	err    error
}

type evTableLit struct {
	vals map[int64]Scalar
	n    int64 // length (-1 unknown)
	zero Scalar
}

// NewEvaluator returns an evaluator for p.
func (p *Prog) NewEvaluator() *Evaluator {
	return &Evaluator{P: p, tables: map[types.Object]*evTableLit{}, decls: map[string]*evDeclInfo{}}
}

func (ev *Evaluator) decl(fnName string) (*ast.FuncDecl, *packages.Package, error) {
	if di, ok := ev.decls[fnName]; ok {
		return di.d, di.pk, di.err
	}
	d, pk, err := ev.decl0(fnName)
	di := &evDeclInfo{d: d, pk: pk, err: err}
	if err == nil {
		di.params = evParamObjs(pk, d)
	}
	ev.decls[fnName] = di
	return d, pk, err
}

// Decl returns the syntax and package of a function, and its parameter objects.
func (ev *Evaluator) Decl(fnName string) (*ast.FuncDecl, *packages.Package, []types.Object, error) {
	d, pk, err := ev.decl(fnName)
	if err != nil {
		return nil, nil, nil, err
	}
	return d, pk, ev.decls[fnName].params, nil
}

func (ev *Evaluator) decl0(fnName string) (*ast.FuncDecl, *packages.Package, error) {
	fn := ev.P.Fn(fnName)
	if fn == nil {
		return nil, nil, fmt.Errorf("function %s not found", fnName)
	}
	d := ev.P.FuncDecl(fn)
	if d == nil || d.Body == nil {
		return nil, nil, fmt.Errorf("function %s has no syntax", fnName)
	}
	return d, ev.P.PkgOfFn(fn), nil
}

func evParamObjs(pk *packages.Package, d *ast.FuncDecl) []types.Object {
	var out []types.Object
	for _, f := range d.Type.Params.List {
		for _, n := range f.Names {
			out = append(out, pk.TypesInfo.Defs[n])
		}
	}
	return out
}

// Call evaluates a function all of whose parameters are scalars.
func (ev *Evaluator) Call(fnName string, args ...Scalar) (Scalar, error) {
	d, pk, err := ev.decl(fnName)
	if err != nil {
		return Scalar{}, err
	}
	return ev.callDecl(pk, d, ev.decls[fnName].params, args)
}

func (ev *Evaluator) callDecl(pk *packages.Package, d *ast.FuncDecl, ps []types.Object, args []Scalar) (Scalar, error) {
	if ev.depth > 8 {
		return Scalar{}, fmt.Errorf("call depth exceeded")
	}
	if len(ps) != len(args) {
		return Scalar{}, fmt.Errorf("%s: %d parameters, %d arguments", d.Name.Name, len(ps), len(args))
	}
	env := evNewEnv()
	for i, o := range ps {
		b, ok := o.Type().Underlying().(*types.Basic)
		if !ok || b.Info()&(types.IsInteger|types.IsBoolean) == 0 {
			return Scalar{}, fmt.Errorf("%s: parameter %s is not a scalar", d.Name.Name, o.Name())
		}
		env.Vars[o] = evWrap(args[i], o.Type())
	}
	ev.depth++
	defer func() { ev.depth-- }()
	out, v, err := ev.Stmts(pk, d.Body.List, env)
	if err != nil {
		return Scalar{}, err
	}
	if out != "return" {
		return Scalar{}, fmt.Errorf("%s: control falls off the end", d.Name.Name)
	}
	return v, nil
}

// Stmts executes a statement list. The outcome is "return" (with the value),
// "break", "continue" or "next" (fell through).
func (ev *Evaluator) Stmts(pk *packages.Package, list []ast.Stmt, env *Env) (string, Scalar, error) {
	for _, st := range list {
		out, v, err := ev.stmt(pk, st, env)
		if err != nil || out != "next" {
			return out, v, err
		}
	}
	return "next", Scalar{}, nil
}

func (ev *Evaluator) stmt(pk *packages.Package, st ast.Stmt, env *Env) (string, Scalar, error) {
	switch s := st.(type) {
	case *ast.ReturnStmt:
		if len(s.Results) == 0 {
			return "", Scalar{}, fmt.Errorf("%s: bare return", ev.P.Pos(s.Pos()))
		}
		// of several results only the last (the ok / verdict result) is evaluated
		v, err := ev.Expr(pk, s.Results[len(s.Results)-1], env)
		return "return", v, err
	case *ast.BlockStmt:
		return ev.Stmts(pk, s.List, env)
	case *ast.IfStmt:
		if s.Init != nil {
			if out, v, err := ev.stmt(pk, s.Init, env); err != nil || out != "next" {
				return out, v, err
			}
		}
		cv, err := ev.Expr(pk, s.Cond, env)
		if err != nil {
			return "", Scalar{}, err
		}
		if !cv.IsBool {
			return "", Scalar{}, fmt.Errorf("%s: non-boolean condition", ev.P.Pos(s.Pos()))
		}
		if cv.B {
			return ev.Stmts(pk, s.Body.List, env)
		}
		if s.Else != nil {
			return ev.stmt(pk, s.Else, env)
		}
		return "next", Scalar{}, nil
	case *ast.SwitchStmt:
		if s.Init != nil {
			if out, v, err := ev.stmt(pk, s.Init, env); err != nil || out != "next" {
				return out, v, err
			}
		}
		var tag *Scalar
		if s.Tag != nil {
			tv, err := ev.Expr(pk, s.Tag, env)
			if err != nil {
				return "", Scalar{}, err
			}
			tag = &tv
		}
		var chosen, deflt *ast.CaseClause
		for _, cl := range s.Body.List {
			cc := cl.(*ast.CaseClause)
			if cc.List == nil {
				deflt = cc
				continue
			}
			for _, e := range cc.List {
				v, err := ev.Expr(pk, e, env)
				if err != nil {
					return "", Scalar{}, err
				}
				if tag == nil && v.IsBool && v.B || tag != nil && v == *tag {
					chosen = cc
					break
				}
			}
			if chosen != nil {
				break
			}
		}
		if chosen == nil {
			chosen = deflt
		}
		if chosen == nil {
			return "next", Scalar{}, nil
		}
		for _, b := range chosen.Body {
			if br, ok := b.(*ast.BranchStmt); ok && br.Tok == token.FALLTHROUGH {
				return "", Scalar{}, fmt.Errorf("%s: fallthrough", ev.P.Pos(b.Pos()))
			}
		}
		out, v, err := ev.Stmts(pk, chosen.Body, env)
		if out == "break" {
			out = "next"
		}
		return out, v, err
	case *ast.DeclStmt:
		if gd, ok := s.Decl.(*ast.GenDecl); ok && gd.Tok == token.CONST {
			return "next", Scalar{}, nil
		}
	case *ast.BranchStmt:
		if s.Label == nil {
			switch s.Tok {
			case token.BREAK:
				return "break", Scalar{}, nil
			case token.CONTINUE:
				return "continue", Scalar{}, nil
			}
		}
	case *ast.IncDecStmt:
		// a counter; if its value matters a later read fails as unbound
		if id, ok := s.X.(*ast.Ident); ok {
			if o := pk.TypesInfo.Uses[id]; o != nil {
				if _, bound := env.Vars[o]; !bound {
					return "next", Scalar{}, nil
				}
			}
		}
	case *ast.AssignStmt:
		if len(s.Lhs) == 1 && len(s.Rhs) == 1 && (s.Tok == token.DEFINE || s.Tok == token.ASSIGN) {
			id, ok := s.Lhs[0].(*ast.Ident)
			if ok {
				v, err := ev.Expr(pk, s.Rhs[0], env)
				if err != nil {
					return "", Scalar{}, err
				}
				o := pk.TypesInfo.Defs[id]
				if o == nil {
					o = pk.TypesInfo.Uses[id]
				}
				if o != nil {
					env.Vars[o] = evWrap(v, o.Type())
					return "next", Scalar{}, nil
				}
			}
		}
	}
	return "", Scalar{}, fmt.Errorf("%s: statement %T is outside the evaluator's fragment", ev.P.Pos(st.Pos()), st)
}

func evBasicOf(t types.Type) *types.Basic {
	if t == nil {
		return nil
	}
	b, _ := t.Underlying().(*types.Basic)
	return b
}

// evWrap reduces an integer to the range of its static type.
func evWrap(v Scalar, t types.Type) Scalar {
	b := evBasicOf(t)
	if v.IsBool || b == nil {
		return v
	}
	switch b.Kind() {
	case types.Uint8:
		v.I = int64(uint8(v.I))
	case types.Int8:
		v.I = int64(int8(v.I))
	case types.Uint16:
		v.I = int64(uint16(v.I))
	case types.Int16:
		v.I = int64(int16(v.I))
	case types.Uint32:
		v.I = int64(uint32(v.I))
	case types.Int32:
		v.I = int64(int32(v.I))
	}
	return v
}

func evConstScalar(cv constant.Value) (Scalar, bool) {
	switch cv.Kind() {
	case constant.Bool:
		return Bool(constant.BoolVal(cv)), true
	case constant.Int:
		if i, ok := constant.Int64Val(cv); ok {
			return Int(i), true
		}
	}
	return Scalar{}, false
}

// Expr evaluates an expression.
func (ev *Evaluator) Expr(pk *packages.Package, e ast.Expr, env *Env) (Scalar, error) {
	fail := func(why string) (Scalar, error) {
		return Scalar{}, fmt.Errorf("%s: %s", ev.P.Pos(e.Pos()), why)
	}
	if tv, ok := pk.TypesInfo.Types[e]; ok && tv.Value != nil {
		if s, ok := evConstScalar(tv.Value); ok {
			return s, nil
		}
		return fail("constant of unsupported kind")
	}
	switch x := e.(type) {
	case *ast.ParenExpr:
		return ev.Expr(pk, x.X, env)
	case *ast.Ident:
		o := pk.TypesInfo.Uses[x]
		if v, ok := env.Vars[o]; ok {
			return v, nil
		}
		return fail("variable " + x.Name + " is not bound to a scalar")
	case *ast.UnaryExpr:
		v, err := ev.Expr(pk, x.X, env)
		if err != nil {
			return v, err
		}
		switch {
		case x.Op == token.NOT && v.IsBool:
			return Bool(!v.B), nil
		case x.Op == token.SUB && !v.IsBool:
			return evWrap(Int(-v.I), pk.TypesInfo.TypeOf(e)), nil
		case x.Op == token.ADD && !v.IsBool:
			return v, nil
		}
		return fail("unary operator " + x.Op.String())
	case *ast.BinaryExpr:
		l, err := ev.Expr(pk, x.X, env)
		if err != nil {
			return l, err
		}
		if x.Op == token.LAND || x.Op == token.LOR {
			if !l.IsBool {
				return fail("non-boolean operand")
			}
			if (x.Op == token.LAND) != l.B {
				return l, nil // short circuit
			}
			r, err := ev.Expr(pk, x.Y, env)
			if err != nil || !r.IsBool {
				if err == nil {
					err = fmt.Errorf("%s: non-boolean operand", ev.P.Pos(e.Pos()))
				}
				return r, err
			}
			return r, nil
		}
		r, err := ev.Expr(pk, x.Y, env)
		if err != nil {
			return r, err
		}
		if l.IsBool != r.IsBool {
			return fail("mixed operands")
		}
		if l.IsBool {
			switch x.Op {
			case token.EQL:
				return Bool(l.B == r.B), nil
			case token.NEQ:
				return Bool(l.B != r.B), nil
			}
			return fail("operator " + x.Op.String() + " on booleans")
		}
		// comparisons of unsigned 64-bit values are not needed here; operands
		// are at most 32 bits wide or non-negative
		switch x.Op {
		case token.EQL:
			return Bool(l.I == r.I), nil
		case token.NEQ:
			return Bool(l.I != r.I), nil
		case token.LSS:
			return Bool(l.I < r.I), nil
		case token.LEQ:
			return Bool(l.I <= r.I), nil
		case token.GTR:
			return Bool(l.I > r.I), nil
		case token.GEQ:
			return Bool(l.I >= r.I), nil
		}
		var out int64
		switch x.Op {
		case token.ADD:
			out = l.I + r.I
		case token.SUB:
			out = l.I - r.I
		case token.MUL:
			out = l.I * r.I
		case token.AND:
			out = l.I & r.I
		case token.OR:
			out = l.I | r.I
		case token.XOR:
			out = l.I ^ r.I
		case token.SHL:
			if r.I < 0 || r.I > 62 {
				return fail("shift count")
			}
			out = l.I << uint(r.I)
		case token.SHR:
			if r.I < 0 || r.I > 62 {
				return fail("shift count")
			}
			out = l.I >> uint(r.I)
		default:
			return fail("operator " + x.Op.String())
		}
		return evWrap(Int(out), pk.TypesInfo.TypeOf(e)), nil
	case *ast.IndexExpr:
		if id, ok := x.X.(*ast.Ident); ok {
			o := pk.TypesInfo.Uses[id]
			if s, ok := env.Strs[o]; ok {
				return evWrap(Int(s.Elem), pk.TypesInfo.TypeOf(e)), nil
			}
			if v, ok := o.(*types.Var); ok && v.Parent() == v.Pkg().Scope() {
				tab, err := ev.table(v)
				if err != nil {
					return fail(err.Error())
				}
				iv, err := ev.Expr(pk, x.Index, env)
				if err != nil {
					return iv, err
				}
				if iv.IsBool {
					return fail("boolean index")
				}
				if iv.I < 0 || tab.n >= 0 && iv.I >= tab.n {
					return fail(fmt.Sprintf("index %d out of range of %s (length %d)", iv.I, v.Name(), tab.n))
				}
				if s, ok := tab.vals[iv.I]; ok {
					return s, nil
				}
				return tab.zero, nil
			}
		}
		return fail("index expression on something other than the abstract string or a package-level table")
	case *ast.CallExpr:
		// conversion
		if tv, ok := pk.TypesInfo.Types[x.Fun]; ok && tv.IsType() && len(x.Args) == 1 {
			if b := evBasicOf(tv.Type); b != nil && b.Info()&types.IsInteger != 0 {
				v, err := ev.Expr(pk, x.Args[0], env)
				if err != nil || v.IsBool {
					if err == nil {
						err = fmt.Errorf("%s: conversion of a boolean", ev.P.Pos(e.Pos()))
					}
					return v, err
				}
				return evWrap(v, tv.Type), nil
			}
			return fail("conversion to a non-integer type")
		}
		var callee types.Object
		switch f := x.Fun.(type) {
		case *ast.Ident:
			callee = pk.TypesInfo.Uses[f]
		case *ast.SelectorExpr:
			callee = pk.TypesInfo.Uses[f.Sel]
		}
		switch fo := callee.(type) {
		case *types.Builtin:
			if fo.Name() == "len" && len(x.Args) == 1 {
				if id, ok := x.Args[0].(*ast.Ident); ok {
					if s, ok := env.Strs[pk.TypesInfo.Uses[id]]; ok {
						return Int(s.Len), nil
					}
				}
			}
			return fail("builtin " + fo.Name())
		case *types.Func:
			if fo.Pkg() != nil && fo.Pkg().Path() == "slices" && fo.Name() == "Contains" && len(x.Args) == 2 {
				set, err := ev.literalSet(pk, x.Args[0])
				if err != nil {
					return fail(err.Error())
				}
				v, err := ev.Expr(pk, x.Args[1], env)
				if err != nil {
					return v, err
				}
				return Bool(set[v.I]), nil
			}
			if fo.Pkg() != nil && strings.HasPrefix(fo.Pkg().Path(), strings.TrimSuffix(ModPrefix, "/")) {
				sig := fo.Type().(*types.Signature)
				if sig.Recv() != nil {
					return fail("method call")
				}
				name := Short(fo.Pkg().Path()) + "." + fo.Name()
				d, cpk, err := ev.decl(name)
				if err != nil {
					return fail(err.Error())
				}
				var args []Scalar
				for _, a := range x.Args {
					v, err := ev.Expr(pk, a, env)
					if err != nil {
						return v, err
					}
					args = append(args, v)
				}
				return ev.callDecl(cpk, d, ev.decls[name].params, args)
			}
			return fail("call of " + fo.FullName())
		}
		return fail("call of a non-static function")
	}
	return fail(fmt.Sprintf("expression %T is outside the evaluator's fragment", e))
}

// literalSet evaluates []byte{c1,c2,...} or []byte("const") to a set.
func (ev *Evaluator) literalSet(pk *packages.Package, e ast.Expr) (map[int64]bool, error) {
	for {
		p, ok := e.(*ast.ParenExpr)
		if !ok {
			break
		}
		e = p.X
	}
	out := map[int64]bool{}
	switch x := e.(type) {
	case *ast.CompositeLit:
		for _, el := range x.Elts {
			if _, isKV := el.(*ast.KeyValueExpr); isKV {
				return nil, fmt.Errorf("keyed element in set literal")
			}
			i, ok := IntOf(pk, el)
			if !ok {
				return nil, fmt.Errorf("non-constant element in set literal")
			}
			out[i] = true
		}
		return out, nil
	case *ast.CallExpr:
		if tv, ok := pk.TypesInfo.Types[x.Fun]; ok && tv.IsType() && len(x.Args) == 1 {
			if s, ok := StrOf(pk, x.Args[0]); ok {
				for i := 0; i < len(s); i++ {
					out[int64(s[i])] = true
				}
				return out, nil
			}
		}
	}
	return nil, fmt.Errorf("%s: not a literal byte set", ev.P.Pos(e.Pos()))
}

// table reads a package-level array/slice literal of constants.
func (ev *Evaluator) table(v *types.Var) (*evTableLit, error) {
	if t, ok := ev.tables[v]; ok {
		return t, nil
	}
	q := Short(v.Pkg().Path()) + "." + v.Name()
	init, pk := ev.P.VarDecl(q)
	if init == nil {
		return nil, fmt.Errorf("table %s has no literal initialiser", q)
	}
	cl, ok := init.(*ast.CompositeLit)
	if !ok {
		return nil, fmt.Errorf("table %s is not a composite literal", q)
	}
	t := &evTableLit{vals: map[int64]Scalar{}, n: -1}
	var elem types.Type
	switch u := v.Type().Underlying().(type) {
	case *types.Array:
		t.n = u.Len()
		elem = u.Elem()
	case *types.Slice:
		elem = u.Elem()
	default:
		return nil, fmt.Errorf("table %s is neither array nor slice", q)
	}
	if b := evBasicOf(elem); b == nil || b.Info()&(types.IsInteger|types.IsBoolean) == 0 {
		return nil, fmt.Errorf("table %s has non-scalar elements", q)
	} else if b.Info()&types.IsBoolean != 0 {
		t.zero = Bool(false)
	}
	next := int64(0)
	for _, el := range cl.Elts {
		k, val := KV(el)
		if k != nil {
			i, ok := IntOf(pk, k)
			if !ok {
				return nil, fmt.Errorf("table %s: non-constant key", q)
			}
			next = i
		}
		cv := ConstOf(pk, val)
		if cv == nil {
			return nil, fmt.Errorf("table %s: non-constant element", q)
		}
		s, ok := evConstScalar(cv)
		if !ok {
			return nil, fmt.Errorf("table %s: unsupported element", q)
		}
		if _, dup := t.vals[next]; dup {
			return nil, fmt.Errorf("table %s: duplicate index %d", q, next)
		}
		t.vals[next] = s
		next++
	}
	if t.n < 0 {
		t.n = next
	}
	ev.tables[v] = t
	return t, nil
}

// TableTrue returns the indices at which the boolean table "pkg.name" is true, and its length.
func (ev *Evaluator) TableTrue(q string) (map[int64]bool, int64, error) {
	v, ok := ev.P.Object(q).(*types.Var)
	if !ok {
		return nil, 0, fmt.Errorf("variable %s not found", q)
	}
	t, err := ev.table(v)
	if err != nil {
		return nil, 0, err
	}
	out := map[int64]bool{}
	for i, s := range t.vals {
		if s.IsBool && s.B {
			out[i] = true
		}
	}
	return out, t.n, nil
}

// ElemLoop describes the single top-level loop of a function over its
// string (or []byte(string)) parameter.
type ElemLoop struct {
	Decl  *ast.FuncDecl
	Pkg   *packages.Package
	Index int          // position of the loop in the body
	Str   types.Object // the parameter iterated over
	Elem  types.Object // element variable of a range loop (nil for index loops)
	Rune  bool         // elements are runes (range over a string)
	Body  *ast.BlockStmt
	While ast.Expr // additional loop condition on the element (for i < len(p) && test(p[i]))
}

// FindElemLoop locates the loop.
func (ev *Evaluator) FindElemLoop(fnName string) (*ElemLoop, error) {
	d, pk, err := ev.decl(fnName)
	if err != nil {
		return nil, err
	}
	params := map[types.Object]bool{}
	for _, o := range evParamObjs(pk, d) {
		if b := evBasicOf(o.Type()); b != nil && b.Info()&types.IsString != 0 {
			params[o] = true
		}
	}
	var found *ElemLoop
	for i, st := range d.Body.List {
		var l *ElemLoop
		switch s := st.(type) {
		case *ast.RangeStmt:
			x := s.X
			overBytes := false
			if ce, ok := x.(*ast.CallExpr); ok && len(ce.Args) == 1 {
				if tv, ok := pk.TypesInfo.Types[ce.Fun]; ok && tv.IsType() {
					if sl, ok := tv.Type.Underlying().(*types.Slice); ok {
						if b := evBasicOf(sl.Elem()); b != nil && b.Kind() == types.Uint8 {
							x = ce.Args[0]
							overBytes = true
						}
					}
				}
			}
			id, ok := x.(*ast.Ident)
			if !ok || !params[pk.TypesInfo.Uses[id]] {
				return nil, fmt.Errorf("%s: range over something other than a string parameter", ev.P.Pos(s.Pos()))
			}
			l = &ElemLoop{Str: pk.TypesInfo.Uses[id], Rune: !overBytes, Body: s.Body}
			if vid, ok := s.Value.(*ast.Ident); ok && vid.Name != "_" {
				l.Elem = pk.TypesInfo.Defs[vid]
			}
		case *ast.ForStmt:
			// for i := 0; i < len(p); i++ — elements are read as p[i]; also
			// for i < len(p) && test(p[i]) { ...; i++ }
			notShape := fmt.Errorf("%s: loop condition is not i < len(param) [&& test]", ev.P.Pos(s.Pos()))
			var while ast.Expr
			be, ok := s.Cond.(*ast.BinaryExpr)
			if ok && be.Op == token.LAND {
				while = be.Y
				be, ok = be.X.(*ast.BinaryExpr)
			}
			if !ok || be.Op != token.LSS {
				return nil, notShape
			}
			iv, ok := be.X.(*ast.Ident)
			if !ok {
				return nil, notShape
			}
			ce, ok := be.Y.(*ast.CallExpr)
			if !ok || len(ce.Args) != 1 {
				return nil, notShape
			}
			id, ok := ce.Args[0].(*ast.Ident)
			if fid, isId := ce.Fun.(*ast.Ident); !ok || !isId || fid.Name != "len" || !params[pk.TypesInfo.Uses[id]] {
				return nil, notShape
			}
			isInc := func(st ast.Stmt) bool {
				inc, ok := st.(*ast.IncDecStmt)
				if !ok || inc.Tok != token.INC {
					return false
				}
				x, ok := inc.X.(*ast.Ident)
				return ok && pk.TypesInfo.Uses[x] == pk.TypesInfo.Uses[iv]
			}
			if !(s.Post != nil && isInc(s.Post)) && !(s.Post == nil && len(s.Body.List) > 0 && isInc(s.Body.List[len(s.Body.List)-1])) {
				return nil, fmt.Errorf("%s: loop does not advance by one", ev.P.Pos(s.Pos()))
			}
			l = &ElemLoop{Str: pk.TypesInfo.Uses[id], Body: s.Body, While: while}
		default:
			continue
		}
		if found != nil {
			return nil, fmt.Errorf("%s has more than one top-level loop", fnName)
		}
		l.Decl, l.Pkg, l.Index = d, pk, i
		found = l
	}
	if found == nil {
		return nil, fmt.Errorf("%s has no top-level loop over a string parameter", fnName)
	}
	return found, nil
}

// Iteration evaluates one iteration of the loop for the element value e:
// "return <v>", "break", "next" (also for continue).
func (ev *Evaluator) Iteration(l *ElemLoop, e int64) (string, error) {
	env := evNewEnv()
	env.Strs[l.Str] = AbsStr{Len: 1, Elem: e}
	if l.Elem != nil {
		env.Vars[l.Elem] = evWrap(Int(e), l.Elem.Type())
	}
	if l.While != nil {
		cv, err := ev.Expr(l.Pkg, l.While, env)
		if err != nil {
			return "", err
		}
		if !cv.IsBool {
			return "", fmt.Errorf("%s: non-boolean loop condition", ev.P.Pos(l.While.Pos()))
		}
		if !cv.B {
			return "break", nil
		}
	}
	out, v, err := ev.Stmts(l.Pkg, l.Body.List, env)
	if err != nil {
		return "", err
	}
	switch out {
	case "return":
		return "return " + v.String(), nil
	case "continue":
		return "next", nil
	}
	return out, nil
}

// CondWith evaluates a boolean expression with the abstract string bound.
func (ev *Evaluator) CondWith(l *ElemLoop, cond ast.Expr, s AbsStr) (bool, error) {
	env := evNewEnv()
	env.Strs[l.Str] = s
	v, err := ev.Expr(l.Pkg, cond, env)
	if err != nil {
		return false, err
	}
	if !v.IsBool {
		return false, fmt.Errorf("%s: not a boolean", ev.P.Pos(cond.Pos()))
	}
	return v.B, nil
}

// EdgeP selects the first instruction of every branch successor on which a
// fact matching pred is established by that branch.
func EdgeP(pred AtomPred) Sel {
	return Sel{"branch " + pred.Desc, func(p *Prog, fn *ssa.Function) []ssa.Instruction {
		var out []ssa.Instruction
		eachInstr(fn, func(in ssa.Instruction) {
			ifi, ok := in.(*ssa.If)
			if !ok {
				return
			}
			b := ifi.Block()
			// the facts an edge establishes include those behind a boolean phi (&&, || evaluated as a value)
			has := func(val bool) bool {
				for _, f := range EdgeFactsOf(ifi, val) {
					if f.If == ifi && pred.F(f.Atom) {
						return true
					}
				}
				return false
			}
			if has(true) {
				if f := firstInstr(b.Succs[0]); f != nil {
					out = append(out, f)
				}
			} else if has(false) {
				if f := firstInstr(b.Succs[1]); f != nil {
					out = append(out, f)
				}
			}
		})
		return out
	}}
}
