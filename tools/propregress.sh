#!/bin/sh
# tools/propregress.sh <property> [vsa-binary] : regression for ONE property with the given checker binary (default bin/vsa):
#   1. /repo unchanged must pass;  2. every selftest/<ID>/*.diff, mapped revert_F*.diff and seeded/<ID>*/patch.diff must be detected;
#   3. no patch under benign*/ may raise an alarm for this property.  Analysis of scratch copies only.
here="$(cd "$(dirname "$0")/.." && pwd)"; . "$here/env.sh"
id="${1:?property id}"; vsa="${2:-$here/bin/vsa}"
tmp=/root/work/propreg.$$; mkdir -p "$tmp"
run() { "$vsa" -p "$id" -repo "$1" -evidence none -findings "$here/known_findings.txt" > "$tmp/out" 2>&1; }
if run /repo; then echo "unchanged: pass"; else echo "unchanged: FAIL"; grep -A5 '^VIOLATION' "$tmp/out" | cut -c1-300; fi
miss=0; n=0
reverts=$(python3 - "$id" <<'PY'
import re,sys
s=open('/verif/sa/core/thorough.go').read()
m=re.search(r'"%s":\s*\{([^}]*)\}'%sys.argv[1], s)
print(' '.join(re.findall(r'"([^"]+)"', m.group(1))) if m else '')
PY
)
for pf in "$here"/selftest/$id/*.diff $(for r in $reverts; do echo "$here/selftest/$r"; done) "$here"/seeded/$id/patch.diff "$here"/seeded/$id-*/patch.diff; do
  [ -f "$pf" ] || continue
  s="$tmp/s"; rm -rf "$s"; "$here/tools/scratch.sh" "$s" >/dev/null 2>&1 || exit 3
  if ! (cd "$s" && patch -p1 -s < "$pf" >/dev/null 2>&1); then continue; fi
  n=$((n+1))
  if run "$s"; then echo "MISSED: $pf"; miss=$((miss+1)); fi
done
echo "must-detect: $n patches, $miss missed"
fa=0; m=0
for pf in "$here"/benign*/*.diff; do
  s="$tmp/s"; rm -rf "$s"; "$here/tools/scratch.sh" "$s" >/dev/null 2>&1 || exit 3
  if ! (cd "$s" && patch -p1 -s < "$pf" >/dev/null 2>&1); then continue; fi
  # only patches touching files of interest matter, but running all is the safe default; skip with BENIGN_ONLY=<glob>
  case "$pf" in ${BENIGN_ONLY:-*}) ;; *) continue;; esac
  m=$((m+1))
  if ! run "$s"; then echo "FALSE ALARM: $pf"; grep -A4 '^VIOLATION' "$tmp/out" | grep '^  ' | cut -c1-260; fa=$((fa+1)); fi
done
echo "benign: $m patches, $fa false alarm(s)"
rm -rf "$tmp"
