#!/usr/bin/env python3
# regenerate seeded/INDEX.md from seeded/*/meta.json, result.json, check_output.txt
import json,glob,os,re
rows=[]
for d in sorted(glob.glob('/verif/seeded/C*')):
    try:
        m=json.load(open(d+'/meta.json')); r=json.load(open(d+'/result.json'))
    except Exception as e:
        continue
    out=open(d+'/check_output.txt').read() if os.path.exists(d+'/check_output.txt') else ''
    rules=sorted(set(re.findall(r'\[(?:violated|undecided)\] ([a-z:\-A-Za-z]+) ',out)))
    rows.append((os.path.basename(d),m.get('summary','').replace('|','/').replace('\n',' ')[:170],m.get('needs','').replace('|','/').replace('\n',' ')[:150],r.get('checks_firing','').strip(),', '.join(rules)[:80]))
with open('/verif/seeded/INDEX.md','w') as f:
    f.write('# Independently seeded breaking changes\n\nEach directory: patch.diff, the demonstration, meta.json (from the seeding sub-agent), result.json and check_output.txt (from tools/seedcheck.sh: demonstration passes on the unchanged tree and fails with the patch, existing tests pass with the patch, which checks fire on the patched tree). `checks firing` and `rules` are as recorded when the change was first verified; tools/seedregress.sh re-runs every one against the current rule set.\n\n')
    f.write('| id | change | needs | checks firing (first run) | rules naming it |\n|---|---|---|---|---|\n')
    for r in rows: f.write('| %s | %s | %s | %s | %s |\n'%r)
print(len(rows),'rows')
