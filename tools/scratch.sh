#!/bin/sh
# tools/scratch.sh <dir>  : make a scratch copy of /repo's working tree (no .git) at <dir>
set -e
d="${1:?dir}"
mkdir -p "$d"
rsync -a --delete --exclude .git /repo/ "$d"/
