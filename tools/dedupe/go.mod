module verif/tools/dedupe

go 1.25.0
