// dedupe renames colliding top-level identifiers of independently written
// files before they are merged into one package.
//
//	dedupe -owners owners.txt dir...
//
// owners.txt: lines "<owner> <file>" for every .go file whose declarations
// belong to that owner (files not listed belong to owner "base" and are never
// renamed). For each top-level name declared by more than one owner (or by an
// owner and base), every owner but the first (base first, then in listed order)
// gets the name suffixed with "_<owner>" in all of that owner's files.
package main

import (
	"bufio"
	"flag"
	"fmt"
	"go/ast"
	"go/format"
	"go/parser"
	"go/token"
	"os"
	"path/filepath"
	"sort"
	"strings"
)

func sharedRecv(fd *ast.FuncDecl) bool {
	if len(fd.Recv.List) != 1 {
		return false
	}
	t := fd.Recv.List[0].Type
	if st, ok := t.(*ast.StarExpr); ok {
		t = st.X
	}
	id, ok := t.(*ast.Ident)
	return ok && (id.Name == "Ctx" || id.Name == "Prog" || id.Name == "Sel" || id.Name == "Interp")
}

func main() {
	ownersFile := flag.String("owners", "", "owner map")
	flag.Parse()
	owner := map[string]string{} // abs file -> owner
	var order []string
	seenOwner := map[string]bool{}
	f, err := os.Open(*ownersFile)
	if err != nil {
		panic(err)
	}
	sc := bufio.NewScanner(f)
	for sc.Scan() {
		fs := strings.Fields(sc.Text())
		if len(fs) != 2 {
			continue
		}
		abs, _ := filepath.Abs(fs[1])
		owner[abs] = fs[0]
		if !seenOwner[fs[0]] {
			seenOwner[fs[0]] = true
			order = append(order, fs[0])
		}
	}
	fset := token.NewFileSet()
	type pf struct {
		path string
		file *ast.File
		own  string
		pkg  string
	}
	var files []*pf
	for _, dir := range flag.Args() {
		ms, _ := filepath.Glob(filepath.Join(dir, "*.go"))
		for _, m := range ms {
			abs, _ := filepath.Abs(m)
			af, err := parser.ParseFile(fset, abs, nil, parser.ParseComments)
			if err != nil {
				fmt.Fprintln(os.Stderr, "parse:", err)
				os.Exit(1)
			}
			o := owner[abs]
			if o == "" {
				o = "base"
			}
			files = append(files, &pf{abs, af, o, dir})
		}
	}
	// declared[name] = set of owners
	declared := map[string]map[string]bool{}
	for _, p := range files {
		for _, d := range p.file.Decls {
			var names []string
			switch x := d.(type) {
			case *ast.FuncDecl:
				if x.Recv == nil && x.Name.Name != "init" {
					names = append(names, x.Name.Name)
				} else if x.Recv != nil && len(x.Recv.List) == 1 {
					// methods on the shared base types (Ctx, Prog, ...): keyed ".Name"
					t := x.Recv.List[0].Type
					if st, ok := t.(*ast.StarExpr); ok {
						t = st.X
					}
					if id, ok := t.(*ast.Ident); ok && (id.Name == "Ctx" || id.Name == "Prog" || id.Name == "Sel" || id.Name == "Interp") {
						names = append(names, "."+x.Name.Name)
					}
				}
			case *ast.GenDecl:
				for _, s := range x.Specs {
					switch y := s.(type) {
					case *ast.TypeSpec:
						names = append(names, y.Name.Name)
					case *ast.ValueSpec:
						for _, n := range y.Names {
							if n.Name != "_" {
								names = append(names, n.Name)
							}
						}
					}
				}
			}
			for _, n := range names {
				if declared[n] == nil {
					declared[n] = map[string]bool{}
				}
				declared[n][p.own] = true
			}
		}
	}
	rank := map[string]int{"base": -1}
	for i, o := range order {
		rank[o] = i
	}
	// rename[owner][name] = newname
	rename := map[string]map[string]string{}
	var report []string
	for n, owners := range declared {
		if len(owners) < 2 {
			continue
		}
		var os_ []string
		for o := range owners {
			os_ = append(os_, o)
		}
		sort.Slice(os_, func(i, j int) bool { return rank[os_[i]] < rank[os_[j]] })
		for _, o := range os_[1:] {
			if rename[o] == nil {
				rename[o] = map[string]string{}
			}
			rename[o][n] = n + "_" + o
			if strings.HasPrefix(n, ".") {
				rename[o][n] = n[1:] + "_" + o
			}
			report = append(report, fmt.Sprintf("%s: %s -> %s (kept by %s)", o, n, n+"_"+o, os_[0]))
		}
	}
	sort.Strings(report)
	for _, r := range report {
		fmt.Println(r)
	}
	for _, p := range files {
		rn := rename[p.own]
		if len(rn) == 0 {
			continue
		}
		skip := map[*ast.Ident]bool{}
		ast.Inspect(p.file, func(n ast.Node) bool {
			switch x := n.(type) {
			case *ast.SelectorExpr:
				skip[x.Sel] = true
			case *ast.KeyValueExpr:
				// struct literal field keys: only skip when the key is a plain identifier that is
				// not a declared top-level name of this owner used as a map key... keep simple: do not skip
			case *ast.Field:
				for _, nm := range x.Names {
					skip[nm] = true
				}
			}
			return true
		})
		changed := false
		ast.Inspect(p.file, func(n ast.Node) bool {
			if id, ok := n.(*ast.Ident); ok && !skip[id] {
				if nn, ok := rn[id.Name]; ok {
					id.Name = nn
					changed = true
				}
			}
			if fd, ok := n.(*ast.FuncDecl); ok && fd.Recv != nil && sharedRecv(fd) {
				if nn, ok := rn["."+fd.Name.Name]; ok {
					fd.Name.Name = nn
					changed = true
				}
			}
			if se, ok := n.(*ast.SelectorExpr); ok {
				if nn, ok := rn["."+se.Sel.Name]; ok {
					se.Sel.Name = nn
					changed = true
				}
			}
			return true
		})
		if changed {
			var sb strings.Builder
			if err := format.Node(&sb, fset, p.file); err != nil {
				panic(err)
			}
			if err := os.WriteFile(p.path, []byte(sb.String()), 0o644); err != nil {
				panic(err)
			}
		}
	}
}
