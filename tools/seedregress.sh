#!/bin/sh
# tools/seedregress.sh : every change kept under /verif/seeded must be detected by its own property's check (analysis of a scratch copy only).
here="$(cd "$(dirname "$0")/.." && pwd)"; . "$here/env.sh"
miss=0
for d in "$here"/seeded/C*/; do
  id=$(basename "$d"); prop=${id%%-*}
  s=/root/work/seedreg.$$; "$here/tools/scratch.sh" "$s" || exit 3
  if ! (cd "$s" && patch -p1 -s < "$d/patch.diff" >/dev/null 2>&1); then echo "$id: patch does not apply"; rm -rf "$s"; continue; fi
  if "$here/bin/vsa" -p "$prop" -repo "$s" -evidence none -findings "$here/known_findings.txt" > /tmp/seedreg.$$.out 2>&1; then echo "$id: MISSED"; miss=$((miss+1)); else echo "$id: detected ($(grep -c '\[violated\]\|\[undecided\]' /tmp/seedreg.$$.out) obligation(s))"; fi
  rm -rf "$s" /tmp/seedreg.$$.out
done
echo "missed: $miss"
