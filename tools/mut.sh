#!/bin/sh
# tools/mut.sh <property> <patch-or-'sed:file:expr'> : run one property check against a mutated scratch copy.
# Exit status is the checker's (1 = mutation detected). Every mutant that applies is saved as a -p1 patch under
# /verif/selftest/<property>/ (detected ones as <hash>.diff, missed ones as <hash>.missed) for the thorough-tier self-test.
here="$(cd "$(dirname "$0")/.." && pwd)"
prop="$1"; mut="$2"
d="${MUTDIR:-/root/work}/mut.$$"
"$here/tools/scratch.sh" "$d" || exit 3
case "$mut" in
  sed:*) f=$(printf "%s" "$mut" | cut -d: -f2); e=$(printf "%s" "$mut" | cut -d: -f3-); sed -i "$e" "$d/$f" ;;
  *) (cd "$d" && patch -p1 -s < "$mut") || { rm -rf "$d"; exit 3; } ;;
esac
tmpdiff="$d.diff"
# build a -p1 patch of everything that differs from /repo (tracked files only)
(cd /repo && git ls-files) | while read -r f; do
  if ! cmp -s "/repo/$f" "$d/$f" 2>/dev/null; then diff -u "/repo/$f" "$d/$f" | sed -e "1s|^--- /repo/|--- a/|" -e "2s|^+++ $d/|+++ b/|"; fi
done > "$tmpdiff"
if [ ! -s "$tmpdiff" ]; then echo "mutation changed nothing"; rm -rf "$d" "$tmpdiff"; exit 3; fi
head -30 "$tmpdiff"
. "$here/env.sh"
"${MUTVSA:-$here/bin/vsa}" -p "$prop" -repo "$d" -evidence none -findings "$here/known_findings.txt"
rc=$?
h=$(grep -v "^--- " "$tmpdiff" | grep -v "^+++ " | md5sum | cut -c1-10)
mkdir -p "$here/selftest/$prop"
if [ -n "$MUTNOSAVE" ]; then :
elif [ $rc -eq 1 ]; then cp "$tmpdiff" "$here/selftest/$prop/$h.diff"; rm -f "$here/selftest/$prop/$h.missed"
elif [ $rc -eq 0 ]; then cp "$tmpdiff" "$here/selftest/$prop/$h.missed"; fi
rm -rf "$d" "$tmpdiff"
exit $rc
