#!/bin/sh
# tools/mut.sh <property> <patch-or-'sed:file:expr'> : run one property check against a mutated scratch copy.
# Exit status is the checker's (1 = mutation detected).
here="$(cd "$(dirname "$0")/.." && pwd)"
prop="$1"; mut="$2"
d="${MUTDIR:-/root/work}/mut.$$"
"$here/tools/scratch.sh" "$d" || exit 3
case "$mut" in
  sed:*) f=$(echo "$mut" | cut -d: -f2); e=$(echo "$mut" | cut -d: -f3-); sed -i "$e" "$d/$f" ; (cd "$d" && diff -u /repo/"$f" "$f" | head -20) ;;
  *) (cd "$d" && patch -p1 -s < "$mut") || { rm -rf "$d"; exit 3; } ;;
esac
. "$here/env.sh"
"${MUTVSA:-$here/bin/vsa}" -p "$prop" -repo "$d" -evidence none -findings "$here/known_findings.txt"
rc=$?
rm -rf "$d"
exit $rc
