#!/bin/sh
# tools/seedcheck.sh <Cnn> [srcdir [destname]] : verify one independently produced breaking change and run the checks against it.
#  srcdir (default /root/work/seed/out/<Cnn>) holds patch.diff, meta.json and the demonstration file(s).
#  1. fresh detached worktree of /repo HEAD under /tmp/seedcheck
#  2. demonstration on the unchanged tree must pass
#  3. with the patch: builds, demonstration fails, existing tests of the touched packages pass
#  4. the property's check (and all others) are run against the patched tree (-repo), never building or running it
#  5. the result is stored under /verif/seeded/<Cnn>/ ; the worktree is removed
id="${1:?property id}"; src="${2:-/root/work/seed/out/$id}"; dest="${3:-$id}"
here="$(cd "$(dirname "$0")/.." && pwd)"
. "$here/env.sh"
[ -f "$src/patch.diff" ] && [ -f "$src/meta.json" ] || { echo "missing patch.diff/meta.json in $src"; exit 3; }
wt=/tmp/seedcheck/$dest; rm -rf "$wt"; mkdir -p /tmp/seedcheck
git -C /repo worktree prune
git -C /repo worktree add -q --detach "$wt" HEAD || exit 3
demo_path=$(jq -r .demo_path "$src/meta.json"); demo_cmd=$(jq -r .demo_cmd "$src/meta.json")
demo_file=$(ls "$src" | grep '_test.go$\|\.go$' | head -1)
res="$src/result.json"
fail() { echo "SEEDCHECK $id: $1"; jq -n --arg s "$1" '{status:"rejected", reason:$s}' > "$res"; git -C /repo worktree remove --force "$wt"; exit 2; }
case "$demo_path" in */) demo_path="$demo_path$demo_file";; esac
[ -d "$wt/$demo_path" ] && demo_path="$demo_path/$demo_file"
mkdir -p "$(dirname "$wt/$demo_path")"; cp "$src/$demo_file" "$wt/$demo_path"
(cd "$wt" && sh -c "$demo_cmd") > "$src/demo_clean.log" 2>&1 || fail "demonstration does not pass on the unchanged tree (see demo_clean.log)"
(cd "$wt" && git apply "$src/patch.diff") || fail "patch does not apply to HEAD"
(cd "$wt" && go build ./... ) > "$src/build.log" 2>&1 || fail "patched tree does not build"
if (cd "$wt" && sh -c "$demo_cmd") > "$src/demo_patched.log" 2>&1; then fail "demonstration still passes with the patch"; fi
rm -f "$wt/$demo_path"
pkgs=$(cd "$wt" && git diff --name-only | xargs -n1 dirname | sort -u | sed 's|^|./|' | tr '\n' ' ')
(cd "$wt" && go test -count=1 $pkgs) > "$src/existing_tests.log" 2>&1 || fail "existing tests of $pkgs fail with the patch (see existing_tests.log)"
"$here/bin/vsa" -p all -repo "$wt" -evidence none -findings "$here/known_findings.txt" > "$src/vsa.txt" 2>&1
firing=$(grep '^VIOLATION property=' "$src/vsa.txt" | sed 's/VIOLATION property=\([A-Z0-9]*\).*/\1/' | sort -u | tr '\n' ' ')
case " $firing " in *" $id "*) det=true;; *) det=false;; esac
jq -n --arg id "$id" --arg firing "$firing" --argjson det $det --arg pkgs "$pkgs" \
  '{status:"verified", property:$id, demo_on_unchanged_tree:"pass", demo_with_patch:"fail", existing_tests:("pass: go test "+$pkgs), detected_by_own_check:$det, checks_firing:$firing}' > "$res"
git -C /repo worktree remove --force "$wt"
mkdir -p "$here/seeded/$dest"
cp "$src/patch.diff" "$src/meta.json" "$src/$demo_file" "$res" "$here/seeded/$dest/"
grep -A6 "^VIOLATION property=$id" "$src/vsa.txt" | cut -c1-400 > "$here/seeded/$dest/check_output.txt"
echo "SEEDCHECK $id: verified; detected_by_own_check=$det; firing: $firing"
