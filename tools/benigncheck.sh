#!/bin/sh
# tools/benigncheck.sh <patch>... : apply each behaviour-preserving patch to a scratch copy and run ALL checks; any VIOLATION is a false alarm.
here="$(cd "$(dirname "$0")/.." && pwd)"; . "$here/env.sh"
for pf in "$@"; do
  d=/root/work/benign/scratch.$$; "$here/tools/scratch.sh" "$d" || exit 3
  if ! (cd "$d" && patch -p1 -s < "$pf"); then echo "BENIGN $(basename $pf): patch does not apply"; rm -rf "$d"; continue; fi
  out=${BENIGN_RES:-/root/work/benign}/$(basename "$pf" .diff).vsa.txt
  "$here/bin/vsa" -p all -repo "$d" -evidence none -findings "$here/known_findings.txt" > "$out" 2>&1
  firing=$(grep '^VIOLATION property=' "$out" | sed 's/VIOLATION property=\([A-Z0-9]*\).*/\1/' | sort -u | tr '\n' ' ')
  echo "BENIGN $(basename $pf): firing: ${firing:-none}"
  rm -rf "$d"
done
