#!/usr/bin/env python3
# tools/matrix.py [outfile] : detection matrix. For every selftest/*.diff, revert_F*.diff and seeded/*/patch.diff, apply it to a
# scratch copy of /repo, run the property's check on the copy (analysis only) and record the obligation keys that fire.
import os,sys,json,glob,subprocess,tempfile,shutil
from multiprocessing import Pool
H='/verif'
REVERTS={'C12':['revert_F1.diff'],'C46':['revert_F2.diff'],'C50':['revert_F3.diff'],'C10':['revert_F4.diff'],'C33':['revert_F5.diff'],'C56':['revert_F6.diff','revert_F7.diff','revert_F8.diff','revert_F9.diff'],'C15':['revert_F10.diff'],'C35':['revert_F11.diff'],'C01':['revert_F12.diff'],'C41':['revert_F13.diff','revert_F14.diff','revert_F15.diff']}
def jobs():
    js=[]
    for d in sorted(glob.glob(H+'/selftest/C*')):
        prop=os.path.basename(d)
        for f in sorted(glob.glob(d+'/*.diff')): js.append((f,prop,'selftest/'+prop+'/'+os.path.basename(f)))
    for prop,fs in REVERTS.items():
        for f in fs: js.append((H+'/selftest/'+f,prop,'selftest/'+f))
    for d in sorted(glob.glob(H+'/seeded/C*')):
        name=os.path.basename(d); prop=name.split('-')[0]
        js.append((d+'/patch.diff',prop,'seeded/'+name))
    return js
def run(j):
    pf,prop,name=j
    d=tempfile.mkdtemp(prefix='mx.',dir='/root/work')
    try:
        subprocess.run(['rsync','-a','--exclude','.git','/repo/',d+'/'],check=True)
        r=subprocess.run(['patch','-p1','-s','-i',pf],cwd=d,capture_output=True)
        if r.returncode!=0: return (name,prop,None)
        env=dict(os.environ); env.update({'GOFLAGS':'-mod=mod','GOPROXY':'off','GOWORK':'off'})
        subprocess.run([H+'/bin/vsa','-p',prop,'-repo',d,'-evidence',d+'/ev.json','-findings',H+'/known_findings.txt'],capture_output=True,env=env)
        keys=[]
        try:
            ev=json.load(open(d+'/ev.json'))
            for s in ev['coverage']['samples']:
                if isinstance(s,dict) and s.get('status') in ('violated','undecided'):
                    keys.append((s['rule']+':'+s['construct']).replace(' ','_')+'\t'+s.get('status','')+'\t'+s.get('detail','')[:80])
        except Exception as e:
            keys=['ERROR:'+str(e)]
        return (name,prop,keys)
    finally:
        shutil.rmtree(d,ignore_errors=True)
if __name__=='__main__':
    out=sys.argv[1] if len(sys.argv)>1 else '/root/work/matrix.json'
    with Pool(6) as p: res=p.map(run,jobs(),chunksize=4)
    json.dump([{'patch':n,'property':pr,'keys':k} for n,pr,k in res],open(out,'w'),indent=1)
    miss=[n for n,pr,k in res if k==[]]
    print(len(res),'patches;',len([1 for n,pr,k in res if k is None]),'do not apply;',len(miss),'not detected:',miss[:20])
