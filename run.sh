#!/bin/sh
# run.sh <property-id> [quick|thorough]   (cwd-independent)
# Rebuilds the checker if needed and runs it against /repo's working tree.
set -u
here="$(cd "$(dirname "$0")" && pwd)"
cd "$here" || exit 2
. ./env.sh
id="${1:?property id}"
tier="${2:-${VERIF_TIER:-quick}}"
mkdir -p evidence bin
if ! ./build.sh >bin/build.log 2>&1; then
  cat bin/build.log
  echo "VIOLATION property=$id replay=build-failure"
  exit 1
fi
exec bin/vsa -p "$id" -tier "$tier" -repo "${VERIF_REPO:-/repo}" -evidence "evidence/$id.json" -findings "$here/known_findings.txt" -selftest "$here/selftest"
