#!/bin/sh
# (Re)build bin/vsa when missing or older than any source file.
here="$(cd "$(dirname "$0")" && pwd)"
cd "$here" || exit 2
. ./env.sh
mkdir -p bin
if [ -x bin/vsa ] && [ -z "$(find sa -newer bin/vsa \( -name '*.go' -o -name go.mod -o -name '*.txt' \) -print -quit)" ]; then
  exit 0
fi
# build to a temporary name and rename, so that concurrent runs never see a partial binary
tmp="bin/vsa.$$"
(cd sa && go build -o "../$tmp" ./cmd/vsa) && mv -f "$tmp" bin/vsa
